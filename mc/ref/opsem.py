"""Documented meaning of strawberryfields operations as reference maps.

Every operation is interpreted from its docstring (the transformation it is documented to perform),
never from its _decompose / _apply.  Gaussian operations become affine CP maps (X, Y, d) on phase
space (hbar = 2, xxpp; see phase.py).  Destructive measurements are *deferred*: the measured mode is
moved to a fresh output slot (tagged with the measurement) and the mode is reset to vacuum, so that
two command lists have equal maps iff they produce the same joint (outcomes, output state) for
every input state.  A parameter that is a linear function of an earlier homodyne outcome turns a
displacement into a controlled displacement from the slot - still affine, so still exact.
"""
import numpy as np
import sympy

from . import phase as ph


class Unsupported(Exception):
    pass


# ----------------------------------------------------------------------------- parameters
def _atoms(p):
    if isinstance(p, sympy.Basic):
        return list(p.free_symbols)
    if isinstance(p, np.ndarray) and p.dtype == object:
        out = []
        for e in p.ravel():
            out += _atoms(e)
        return out
    return []


def is_measured(a):
    return a.__class__.__name__ == "MeasuredParameter"


def pval(p, env=None):
    """Numeric value of a parameter. Free symbols are looked up by name in env['free']; measured
    symbols in env['meas'] (dict regref index -> value)."""
    if isinstance(p, sympy.Basic):
        sub = {}
        for a in p.free_symbols:
            if is_measured(a):
                if env is None or "meas" not in env or a.regref.ind not in env["meas"]:
                    raise Unsupported("measured parameter without value")
                sub[a] = env["meas"][a.regref.ind]
            else:
                if env is None or a.name not in env.get("free", {}):
                    raise Unsupported("free parameter without value: %s" % a.name)
                sub[a] = env["free"][a.name]
        v = sympy.N(p.xreplace(sub), 30)
        v = complex(v)
        return v.real if abs(v.imag) < 1e-300 else v
    if isinstance(p, np.ndarray) and p.dtype == object:
        return np.array([pval(e, env) for e in p.ravel()]).reshape(p.shape)
    return p


def linear_in_measured(p, env=None):
    """p = c0 + sum_i c_i m_i with m_i measured atoms -> (c0, {regref_index: c_i}); Unsupported if nonlinear."""
    if not isinstance(p, sympy.Basic):
        return p, {}
    ms = [a for a in p.free_symbols if is_measured(a)]
    if not ms:
        return pval(p, env), {}
    sub_free = {a: env["free"][a.name] for a in p.free_symbols if not is_measured(a)} if env else {}
    e = p.xreplace(sub_free)
    coeffs = {}
    for m in ms:
        c = sympy.diff(e, m)
        if c.free_symbols:
            raise Unsupported("nonlinear measured parameter")
        coeffs[m.regref.ind] = coeffs.get(m.regref.ind, 0.0) + float(c)
    c0 = float(e.xreplace({m: 0 for m in ms}))
    return c0, coeffs


# ----------------------------------------------------------------------------- local meaning
GAUSS_GATES = {
    "Dgate", "Xgate", "Zgate", "Sgate", "Pgate", "Rgate", "Fouriergate", "BSgate", "MZgate", "sMZgate",
    "S2gate", "CXgate", "CZgate", "Interferometer", "GaussianTransform",
}
GAUSS_CHANNELS = {"LossChannel", "ThermalLossChannel", "PassiveChannel", "MSgate"}
GAUSS_PREPS = {"Vacuum", "Coherent", "Squeezed", "DisplacedSqueezed", "Thermal", "Gaussian"}
MEASUREMENTS = {"MeasureHomodyne", "MeasureHeterodyne", "MeasureFock", "MeasureThreshold"}


def name(op):
    return op.__class__.__name__


def gate_local(op, hbar=2.0, env=None):
    """(S, d, lin) for a Gaussian gate on its own modes (xxpp over the op's modes in order), dagger applied.
    lin: {regref index: vector} - displacement contribution per unit of a measured value (hbar units)."""
    nm = name(op)
    s = np.sqrt(hbar / 2.0)
    k = 1
    lin = {}
    if nm in ("Dgate", "Xgate", "Zgate"):
        r0, co = linear_in_measured(op.p[0], env)
        if nm == "Dgate":
            phi = pval(op.p[1], env)
            unit = 2 * np.array([np.cos(phi), np.sin(phi)])  # displacement by alpha: (2 Re, 2 Im) at hbar=2
        elif nm == "Xgate":
            unit = np.array([1.0 / s, 0.0])  # x -> x + x0 in hbar units = x0/s in hbar=2 units
        else:
            unit = np.array([0.0, 1.0 / s])
        S, d = np.eye(2), r0 * unit
        lin = {i: c * unit for i, c in co.items()}
    else:
        p = [pval(q, env) for q in op.p]
        d = None
        if nm == "Sgate":
            S = ph.squeeze(p[0], p[1])
        elif nm == "Pgate":
            S = ph.quadratic_phase(p[0])
        elif nm == "Rgate":
            S = ph.rot(p[0])
        elif nm == "Fouriergate":
            # F = R(pi/2); the Gate base class documents p[0] as the additive group parameter, and a Fourier gate
            # obtained by merging carries the accumulated angle there
            S = ph.rot(p[0])
        elif nm == "BSgate":
            S, k = ph.beamsplitter(p[0], p[1]), 2
        elif nm == "MZgate":
            S, k = ph.mz(p[0], p[1]), 2
        elif nm == "sMZgate":
            S, k = ph.smz(p[0], p[1]), 2
        elif nm == "S2gate":
            S, k = ph.two_mode_squeeze(p[0], p[1]), 2
        elif nm == "CXgate":
            S, k = ph.controlled_x(p[0]), 2
        elif nm == "CZgate":
            S, k = ph.controlled_z(p[0]), 2
        elif nm == "Interferometer":
            U = np.asarray(p[0], dtype=complex)
            S, k = ph.interferometer(U), U.shape[0]
        elif nm == "GaussianTransform":
            S = np.asarray(p[0], dtype=float)
            k = S.shape[0] // 2
        else:
            raise Unsupported(nm)
        d = np.zeros(2 * k)
    if getattr(op, "dagger", False):
        Si = np.linalg.inv(S)
        d = -Si @ d
        lin = {i: -Si @ v for i, v in lin.items()}
        S = Si
    return S, d, lin


def channel_local(op, env=None):
    nm = name(op)
    p = [pval(q, env) for q in op.p]
    if nm == "LossChannel":
        return np.sqrt(p[0]) * ph.I2, (1 - p[0]) * ph.I2
    if nm == "ThermalLossChannel":
        return np.sqrt(p[0]) * ph.I2, (1 - p[0]) * (2 * p[1] + 1) * ph.I2
    if nm == "PassiveChannel":
        T = np.atleast_2d(np.asarray(p[0], dtype=complex))
        X = ph.bog_to_symp(T, np.zeros_like(T))  # a -> T a
        return X, np.eye(X.shape[0]) - X @ X.T
    if nm == "MSgate":
        # documented circuit: ancilla squeezed by r_anc, beamsplitter with cos(theta) = exp(-|r|), homodyne of the
        # ancilla with efficiency eta, feed-forward displacement; averaged over outcomes (derivation in DESIGN.md)
        r, phi, r_anc, eta, avg = p
        if not avg:
            raise Unsupported("single-shot MSgate")
        if r < 0:
            phi, r = phi + np.pi, -r
        R = ph.rot(phi / 2)
        X = R @ np.diag([np.exp(-r), np.exp(r)]) @ R.T
        Y = R @ np.diag([(1 - np.exp(-2 * r)) * np.exp(-2 * r_anc), (np.exp(2 * r) - 1) * (1 - eta) / eta]) @ R.T
        return X, Y
    raise Unsupported(nm)


def prep_local(op, hbar=2.0, env=None):
    """(mu, V) at hbar=2, xxpp over the op's modes."""
    nm = name(op)
    p = [pval(q, env) for q in op.p]
    if nm == "Vacuum":
        return np.zeros(2), ph.I2.copy()
    if nm == "Coherent":
        return ph.coherent(p[0] * np.exp(1j * p[1]))
    if nm == "Squeezed":
        return ph.squeezed(p[0], p[1])
    if nm == "DisplacedSqueezed":
        return ph.displaced_squeezed(p[0] * np.exp(1j * p[1]), p[2], p[3])
    if nm == "Thermal":
        return ph.thermal(p[0])
    if nm == "Gaussian":
        # op.p[0] is the covariance with hbar already divided out; op.p[1] the means in hbar units
        return np.asarray(p[1], dtype=float) / np.sqrt(hbar / 2.0), np.asarray(p[0], dtype=float)
    raise Unsupported(nm)


# ----------------------------------------------------------------------------- whole command lists
class Sem:
    """Affine CP map of a command list on the register extended by one output slot per measurement."""

    def __init__(self, n, slots):
        self.n = n  # register modes
        self.slots = slots  # list of (mode, k) keys, slot index = n + position
        self.N = n + len(slots)
        self.X = np.eye(2 * self.N)
        self.Y = np.zeros((2 * self.N, 2 * self.N))
        self.d = np.zeros(2 * self.N)
        self.tags = {}  # slot index -> measurement tag
        self.drop = []  # quadrature rows that are unobservable (p of a homodyne slot)

    def compose(self, X, Y, d):
        self.X = X @ self.X
        self.Y = X @ self.Y @ X.T + Y
        self.d = X @ self.d + d

    def compose_local(self, M, ix, dloc=None, Yloc=None):
        """compose with the map that acts as (M, Yloc, dloc) on the quadrature indices ix and as the identity elsewhere
        (same result as compose(embed(M), embed0(Yloc), embedded dloc), in O(N) instead of O(N^3))"""
        ix = list(ix)
        self.X[ix, :] = M @ self.X[ix, :]
        self.Y[ix, :] = M @ self.Y[ix, :]
        self.Y[:, ix] = self.Y[:, ix] @ M.T
        if Yloc is not None:
            self.Y[np.ix_(ix, ix)] += Yloc
        self.d[ix] = M @ self.d[ix]
        if dloc is not None:
            self.d[ix] += dloc

    def shear(self, v, ix, src):
        """compose with F = 1 + sum_k v_k |ix_k><src| (controlled displacement from quadrature `src`)"""
        ix = list(ix)
        v = np.asarray(v, dtype=float)
        self.X[ix, :] += np.outer(v, self.X[src, :])
        self.Y[ix, :] += np.outer(v, self.Y[src, :])
        self.Y[:, ix] += np.outer(self.Y[:, src], v)
        self.d[ix] += v * self.d[src]

    def observable(self):
        keep = [i for i in range(2 * self.N) if i not in self.drop]
        return self.X[keep, :], self.Y[np.ix_(keep, keep)], self.d[keep], tuple(sorted(self.tags.items()))

    def equal(self, other, tol=1e-9):
        if self.N != other.N or self.slots != other.slots:
            return False, "different measurement structure"
        a, b = self.observable(), other.observable()
        if a[3] != b[3]:
            return False, "different measurement tags %s vs %s" % (a[3], b[3])
        for nm, u, v in zip("XYd", a[:3], b[:3]):
            if u.shape != v.shape:
                return False, "shape"
            if u.size and np.max(np.abs(u - v)) > tol:
                return False, "%s differs by %.3g" % (nm, np.max(np.abs(u - v)))
        return True, ""


def _cmd_modes(cmd):
    return [r.ind for r in cmd.reg]


def program_map(cmds, n, hbar=2.0, env=None):
    """Reference meaning of a list of Commands on an n-mode register (indices 0..n-1)."""
    # pre-scan measurements: slot per (mode, k-th measurement of that mode)
    count = {}
    slots = []
    for c in cmds:
        if name(c.op) in MEASUREMENTS:
            for m in _cmd_modes(c):
                k = count.get(m, 0)
                count[m] = k + 1
                slots.append((m, k))
    slots = sorted(slots)
    sem = Sem(n, slots)
    N = sem.N
    s = np.sqrt(hbar / 2.0)
    latest = {}  # mode -> slot index of its latest homodyne measurement
    done = {}
    for c in cmds:
        op, modes, nm = c.op, _cmd_modes(c), name(c.op)
        if nm in GAUSS_GATES:
            S, d, lin = gate_local(op, hbar, env)
            for ri in lin:
                if ri not in latest:
                    raise Unsupported("measured parameter used before measurement")
            sem.compose_local(S, ph.idx(modes, N), d)
            for ri, vec in lin.items():
                # measured value (hbar units) = s * x_slot(hbar=2): a controlled displacement from the slot
                sem.shear(vec * s, ph.idx(modes, N), latest[ri])
        elif nm in GAUSS_CHANNELS:
            Xl, Yl = channel_local(op, env)
            sem.compose_local(Xl, ph.idx(modes, N), None, Yl)
        elif nm in GAUSS_PREPS:
            mu, V = prep_local(op, hbar, env)
            ix = ph.idx(modes, N)
            sem.compose_local(np.zeros((len(ix), len(ix))), ix, np.asarray(mu, dtype=float), np.asarray(V, dtype=float))
        elif nm in MEASUREMENTS:
            if nm == "MeasureHomodyne" and op.select is None and len(modes) == 1:
                pass
            for j, m in enumerate(modes):
                k = done.get(m, 0)
                done[m] = k + 1
                sl = n + slots.index((m, k))
                ixl = ph.idx([m, sl], N)  # local order (x_m, x_sl, p_m, p_sl)
                R = np.eye(4)
                if nm == "MeasureHomodyne":
                    phi = pval(op.p[0], env)
                    R = ph.embed(ph.rot(-phi), [0], 2)  # x_phi -> x on the measured mode
                # swap mode m and the (vacuum) slot, then the mode is vacuum
                Pm = np.array([[0, 1, 0, 0], [1, 0, 0, 0], [0, 0, 0, 1], [0, 0, 1, 0]], dtype=float)
                sem.compose_local(Pm @ R, ixl)
                sel = None if op.select is None else (op.select if np.ndim(op.select) == 0 else np.asarray(op.select).ravel()[j])
                tag = (nm, None if sel is None else complex(sel))
                if nm == "MeasureHomodyne":
                    sem.drop.append(sl + N)
                    latest[m] = sl
                else:
                    latest.pop(m, None)
                    tag = tag + (tuple(modes), getattr(op, "dark_counts", None) and tuple(op.dark_counts))
                sem.tags[sl] = tag
        else:
            raise Unsupported(nm)
    return sem


# ----------------------------------------------------------------------------- direct application to a reference state
def apply_gaussian(op, modes, gs, hbar=2.0, env=None):
    """Apply a (non-measurement) Gaussian op to a phase.GState in place."""
    nm = name(op)
    n = gs.n
    if nm in GAUSS_GATES:
        S, d, lin = gate_local(op, hbar, env)
        if lin:
            raise Unsupported("measured parameter")
        gs.symp(S, modes)
        gs.mu[ph.idx(modes, n)] += d
    elif nm in GAUSS_CHANNELS:
        Xl, Yl = channel_local(op, env)
        gs.apply_map(ph.embed(Xl, modes, n), ph.embed0(Yl, modes, n), np.zeros(2 * n))
    elif nm in GAUSS_PREPS:
        mu, V = prep_local(op, hbar, env)
        ix = ph.idx(modes, n)
        gs.V[ix, :] = 0
        gs.V[:, ix] = 0
        gs.V[np.ix_(ix, ix)] = V
        gs.mu[ix] = mu
    else:
        raise Unsupported(nm)
    return gs
