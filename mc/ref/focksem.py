"""Documented meaning of operations on the truncated Fock reference (fockref.FState).

Each gate is the exact (extended-cutoff) matrix of the documented operator truncated to the cutoff,
applied as one dense matrix; the inverse (dagger) form is the inverse of the *operator* - negated
group parameter for the one-parameter families, conjugate transpose of the exact matrix for MZ."""
import numpy as np

from . import fockref as fr
from .opsem import Unsupported, name, pval


def mz_matrix(phi_in, phi_ex, c, dag=False):
    """MZ = BS(pi/4,pi/2) (R(phi_in) x I) BS(pi/4,pi/2) (R(phi_ex) x I), exact: number conserving, built at cutoff 2c."""
    D = 2 * c
    bs = fr.beamsplitter(np.pi / 4, np.pi / 2, D)  # exact on total photon number < D... built at 2D internally
    I = np.eye(D)
    U = bs @ np.kron(fr.rotation(phi_in, D), I) @ bs @ np.kron(fr.rotation(phi_ex, D), I)
    if dag:
        U = U.conj().T
    return fr._trunc2(U, D, c)


_MZ_CACHE = {}


def gate_matrix(op, c, hbar=2.0, env=None):
    nm = name(op)
    p = [pval(q, env) for q in op.p]
    dag = bool(getattr(op, "dagger", False))
    sg = -1.0 if dag else 1.0
    if nm == "Dgate":
        return fr.displacement(sg * float(p[0]), float(p[1]), c)
    if nm == "Sgate":
        return fr.squeezing(sg * float(p[0]), float(p[1]), c)
    if nm == "Rgate":
        return fr.rotation(sg * float(p[0]), c)
    if nm == "Kgate":
        return fr.kerr(sg * float(p[0]), c)
    if nm == "Vgate":
        # V(gamma) = exp(i gamma x^3 / 3 hbar); the simulator defines it by truncating x at the same cutoff
        return fr.cubic_phase_at_cutoff(sg * float(p[0]) * np.sqrt(hbar / 2.0), c, 2.0)
    if nm == "BSgate":
        return fr.beamsplitter(sg * float(p[0]), float(p[1]), c)
    if nm == "S2gate":
        return fr.two_mode_squeeze(sg * float(p[0]), float(p[1]), c)
    if nm == "CKgate":
        return fr.cross_kerr(sg * float(p[0]), c)
    if nm == "MZgate":
        key = (float(p[0]), float(p[1]), c, dag)
        if key not in _MZ_CACHE:
            _MZ_CACHE[key] = mz_matrix(float(p[0]), float(p[1]), c, dag)
        return _MZ_CACHE[key]
    raise Unsupported(nm)


def prep_dm(op, c, env=None):
    nm = name(op)
    p = [pval(q, env) for q in op.p]
    if nm == "Vacuum":
        v = fr.fock_ket(0, c)
    elif nm == "Coherent":
        v = fr.coherent_ket(p[0] * np.exp(1j * p[1]), c)
    elif nm == "Squeezed":
        v = fr.squeezed_ket(p[0], p[1], c)
    elif nm == "DisplacedSqueezed":
        v = fr.displaced_squeezed_ket(float(p[0]), float(p[1]), float(p[2]), float(p[3]), c)
    elif nm == "Fock":
        v = fr.fock_ket(int(p[0]), c)
    elif nm == "Thermal":
        return fr.thermal_dm(p[0], c)
    elif nm == "Ket":
        v = np.asarray(p[0], dtype=complex).reshape(-1)
    elif nm == "DensityMatrix":
        d = np.asarray(p[0], dtype=complex)
        k = int(round(np.log(d.size) / np.log(c) / 2))
        if d.ndim > 2:  # library convention [i0, j0, i1, j1, ...]
            d = fr.sf_dm_to_flat(d, k, c)
        return d
    else:
        raise Unsupported(nm)
    return np.outer(v, v.conj())


def apply_fock_candidates(op, modes, fs, hbar=2.0, env=None):
    """All admissible truncated readings of `op` applied to copies of fs.  Only MZgate has two: the exact operator
    truncated once, or its documented product BS R BS R with every factor truncated (the docstring defines the gate
    as that product; the two differ by truncation error only, which the properties allow)."""
    out = [apply_fock(op, modes, fs.copy(), hbar, env)]
    if name(op) == "MZgate":
        c = fs.c
        p = [float(pval(q, env)) for q in op.p]
        bs = fr.beamsplitter(np.pi / 4, np.pi / 2, c)
        seq = [(fr.rotation(p[1], c), [modes[0]]), (bs, list(modes)), (fr.rotation(p[0], c), [modes[0]]), (bs, list(modes))]
        if getattr(op, "dagger", False):
            bsi = fr.beamsplitter(-np.pi / 4, np.pi / 2, c)
            seq = [(bsi, list(modes)), (fr.rotation(-p[0], c), [modes[0]]), (bsi, list(modes)), (fr.rotation(-p[1], c), [modes[0]])]
        alt = fs.copy()
        for G, ms in seq:
            alt.gate(G, ms)
        out.append(alt)
    return out


def apply_fock(op, modes, fs, hbar=2.0, env=None):
    nm = name(op)
    c = fs.c
    if nm in ("Dgate", "Sgate", "Rgate", "Kgate", "Vgate", "BSgate", "S2gate", "CKgate", "MZgate"):
        return fs.gate(gate_matrix(op, c, hbar, env), modes)
    if nm == "LossChannel":
        return fs.channel(fr.loss_kraus(float(pval(op.p[0], env)), c), modes)
    if nm in ("Vacuum", "Coherent", "Squeezed", "DisplacedSqueezed", "Fock", "Thermal", "Ket", "DensityMatrix"):
        return fs.prepare(prep_dm(op, c, env), modes)
    raise Unsupported(nm)
