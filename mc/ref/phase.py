"""Phase-space reference model (independent of the library under test).

Conventions: hbar = 2, quadrature ordering (x_1..x_n, p_1..p_n), x = a + a^dag, p = -i (a - a^dag),
vacuum covariance = identity.  Everything is built from the *documented mode transformations*
(Bogoliubov form a -> A a + B a^dag + alpha) and converted to a real symplectic matrix here; no
thewalrus, no library helpers.

A Gaussian map is the triple (X, Y, d):  r -> X r + d,  V -> X V X^T + Y  on the full register.
"""
import numpy as np

I2 = np.eye(2)


# ----------------------------------------------------------------------------- Bogoliubov -> symplectic
def bog_to_symp(A, B):
    """a -> A a + B a^dag  ==> real matrix on (x.., p..) with x = a + a^dag, p = -i(a - a^dag)."""
    A = np.atleast_2d(np.asarray(A, dtype=complex))
    B = np.atleast_2d(np.asarray(B, dtype=complex))
    return np.block([[(A + B).real, -(A - B).imag], [(A + B).imag, (A - B).real]])


def omega(n):
    return np.block([[np.zeros((n, n)), np.eye(n)], [-np.eye(n), np.zeros((n, n))]])


def is_symplectic(S, tol=1e-9):
    n = S.shape[0] // 2
    return np.allclose(S @ omega(n) @ S.T, omega(n), atol=tol)


# ----------------------------------------------------------------------------- documented gates (local matrices)
def rot(theta):
    # R(theta): a -> a e^{i theta}
    return bog_to_symp([[np.exp(1j * theta)]], [[0]])


def squeeze(r, phi=0.0):
    # S(z)^dag a S(z) = a cosh r - a^dag e^{i phi} sinh r
    return bog_to_symp([[np.cosh(r)]], [[-np.exp(1j * phi) * np.sinh(r)]])


def beamsplitter(theta, phi=0.0):
    # B^dag a1 B = t a1 - r^* a2 ; B^dag a2 B = t a2 + r a1 ; t = cos theta, r = e^{i phi} sin theta
    t, r = np.cos(theta), np.exp(1j * phi) * np.sin(theta)
    return bog_to_symp([[t, -np.conj(r)], [r, t]], np.zeros((2, 2)))


def two_mode_squeeze(r, phi=0.0):
    # S2^dag a1 S2 = a1 cosh r + a2^dag e^{i phi} sinh r (and 1 <-> 2)
    s = np.exp(1j * phi) * np.sinh(r)
    return bog_to_symp(np.cosh(r) * np.eye(2), [[0, s], [s, 0]])


def interferometer(U):
    # a_i -> sum_j U_ij a_j
    U = np.asarray(U, dtype=complex)
    return bog_to_symp(U, np.zeros_like(U))


def quadratic_phase(s):
    # P(s) = exp(i s x^2 / 2hbar):  x -> x, p -> p + s x
    return np.array([[1.0, 0.0], [s, 1.0]])


def controlled_x(s):
    # CX(s) = exp(-i s x1 p2 / hbar): x2 -> x2 + s x1, p1 -> p1 - s p2   (order x1 x2 p1 p2)
    S = np.eye(4)
    S[1, 0] = s
    S[2, 3] = -s
    return S


def controlled_z(s):
    # CZ(s) = exp(i s x1 x2 / hbar): p1 -> p1 + s x2, p2 -> p2 + s x1
    S = np.eye(4)
    S[2, 1] = s
    S[3, 0] = s
    return S


def mz(phi_in, phi_ex):
    # MZ = BS(pi/4,pi/2) (R(phi_in) x I) BS(pi/4,pi/2) (R(phi_ex) x I)   (rightmost acts first)
    bs = beamsplitter(np.pi / 4, np.pi / 2)
    return bs @ embed(rot(phi_in), [0], 2) @ bs @ embed(rot(phi_ex), [0], 2)


def mz_unitary(phi_in, phi_ex):
    # documented closed form of the MZ unitary
    ei, ee = np.exp(1j * phi_in), np.exp(1j * phi_ex)
    return 0.5 * np.array([[(-1 + ei) * ee, 1j * (1 + ei)], [1j * (1 + ei) * ee, (1 - ei)]])


def smz(phi_in, phi_ex):
    # symmetric MZ: BS (R(phi_in - pi/2) x R(phi_ex - pi/2)) BS   (no closed form documented)
    bs = beamsplitter(np.pi / 4, np.pi / 2)
    return bs @ embed(rot(phi_in - np.pi / 2), [0], 2) @ embed(rot(phi_ex - np.pi / 2), [1], 2) @ bs


# ----------------------------------------------------------------------------- embedding
def idx(modes, n):
    modes = list(modes)
    return modes + [m + n for m in modes]


def embed(S, modes, n):
    """Embed a local 2k x 2k matrix (xxpp over `modes`, in the given order) into n modes."""
    out = np.eye(2 * n)
    ix = idx(modes, n)
    out[np.ix_(ix, ix)] = S
    return out


def embed0(M, modes, n):
    """Embed into a zero background (for Y matrices)."""
    out = np.zeros((2 * n, 2 * n))
    ix = idx(modes, n)
    out[np.ix_(ix, ix)] = M
    return out


# ----------------------------------------------------------------------------- Gaussian state
class GState:
    """Gaussian state (mu, V) on n modes, hbar = 2, xxpp."""

    __slots__ = ("n", "mu", "V")

    def __init__(self, n, mu=None, V=None):
        self.n = n
        self.mu = np.zeros(2 * n) if mu is None else np.array(mu, dtype=float)
        self.V = np.eye(2 * n) if V is None else np.array(V, dtype=float)

    def copy(self):
        return GState(self.n, self.mu.copy(), self.V.copy())

    # maps -----------------------------------------------------------------
    def apply_map(self, X, Y, d):
        self.mu = X @ self.mu + d
        self.V = X @ self.V @ X.T + Y
        return self

    def symp(self, S, modes):
        X = embed(S, modes, self.n)
        self.mu = X @ self.mu
        self.V = X @ self.V @ X.T
        return self

    def displace(self, alpha, mode):
        self.mu[mode] += 2 * np.real(alpha)
        self.mu[mode + self.n] += 2 * np.imag(alpha)
        return self

    def loss(self, T, mode, nbar=0.0):
        X = embed(np.sqrt(T) * I2, [mode], self.n)
        Y = embed0((1 - T) * (2 * nbar + 1) * I2, [mode], self.n)
        return self.apply_map(X, Y, np.zeros(2 * self.n))

    def prepare(self, mode, mu2, V2):
        """Replace `mode` by an uncorrelated single-mode Gaussian state."""
        ix = idx([mode], self.n)
        self.V[ix, :] = 0
        self.V[:, ix] = 0
        self.V[np.ix_(ix, ix)] = V2
        self.mu[ix] = mu2
        return self

    # queries ----------------------------------------------------------------
    def reduced(self, modes):
        ix = idx(modes, self.n)
        return self.mu[ix].copy(), self.V[np.ix_(ix, ix)].copy()

    def mean_photon(self, mode):
        mu, V = self.reduced([mode])
        return (np.trace(V) + mu @ mu) / 4 - 0.5

    def purity(self):
        return 1.0 / np.sqrt(np.linalg.det(self.V))

    # measurement ------------------------------------------------------------
    def homodyne_dist(self, mode, phi):
        """Born distribution of x_phi = x cos(phi) + p sin(phi) on `mode`: (mean, variance), hbar=2."""
        u = np.zeros(2 * self.n)
        u[mode] = np.cos(phi)
        u[mode + self.n] = np.sin(phi)
        return float(u @ self.mu), float(u @ self.V @ u)

    def condition_homodyne(self, mode, phi, val):
        """Project `mode` on the x_phi eigenstate with eigenvalue val (hbar=2 units); mode -> vacuum."""
        n = self.n
        u = np.zeros(2 * n)
        u[mode] = np.cos(phi)
        u[mode + n] = np.sin(phi)
        rest = [i for i in range(2 * n) if i not in (mode, mode + n)]
        m, s2 = u @ self.mu, u @ self.V @ u
        c = self.V @ u  # covariance of every quadrature with x_phi
        mu = self.mu - c * (m - val) / s2
        V = self.V - np.outer(c, c) / s2
        out = GState(n)
        out.mu[rest] = mu[rest]
        out.V[np.ix_(rest, rest)] = V[np.ix_(rest, rest)]
        # measured mode reset to vacuum (already identity / zero)
        self.mu, self.V = out.mu, out.V
        return self

    def heterodyne_dist(self, mode):
        """Born (Husimi-Q) distribution of alpha: complex mean, 2x2 covariance of (Re alpha, Im alpha)."""
        mu, V = self.reduced([mode])
        return (mu[0] + 1j * mu[1]) / 2, (V + I2) / 4

    def condition_heterodyne(self, mode, alpha):
        """Project `mode` on the coherent state |alpha>; mode -> vacuum."""
        n = self.n
        a = [mode, mode + n]
        rest = [i for i in range(2 * n) if i not in a]
        Va = self.V[np.ix_(a, a)] + I2
        C = self.V[np.ix_(rest, a)]
        K = C @ np.linalg.inv(Va)
        val = np.array([2 * np.real(alpha), 2 * np.imag(alpha)])
        mu_r = self.mu[rest] + K @ (val - self.mu[a])
        V_r = self.V[np.ix_(rest, rest)] - K @ C.T
        out = GState(n)
        out.mu[rest] = mu_r
        out.V[np.ix_(rest, rest)] = V_r
        self.mu, self.V = out.mu, out.V
        return self


# single-mode documented states (mu, V) at hbar=2 ----------------------------------
def coherent(alpha):
    return np.array([2 * np.real(alpha), 2 * np.imag(alpha)]), I2.copy()


def squeezed(r, phi):
    S = squeeze(r, phi)
    return np.zeros(2), S @ S.T


def displaced_squeezed(alpha, r, phi):
    # D(alpha) S(z) |0>
    S = squeeze(r, phi)
    return np.array([2 * np.real(alpha), 2 * np.imag(alpha)]), S @ S.T


def thermal(nbar):
    return np.zeros(2), (2 * nbar + 1) * I2


def is_physical(V, tol=1e-9):
    n = V.shape[0] // 2
    if not np.allclose(V, V.T, atol=tol):
        return False
    w = np.linalg.eigvalsh(V + 1j * omega(n))
    return w.min() >= -tol
