"""Truncated-operator Fock reference (independent of the library under test).

State: dense density matrix rho on C^(c^n), basis index = sum_m n_m c^(n-1-m)  (mode 0 slowest).
Gate matrices are exact matrix elements of the infinite-dimensional operator: expm(generator) in a
Hilbert space of cutoff D >> c, truncated to the c x c (or c^2 x c^2) block.  No einsum, no axis
permutations: operators are embedded into the full space through explicit index offsets.
"""
import functools
import math

import numpy as np
from scipy.linalg import expm


@functools.lru_cache(maxsize=None)
def _a(D):
    return np.diag(np.sqrt(np.arange(1, D)), 1).astype(complex)


def _trunc1(M, c):
    return np.ascontiguousarray(M[:c, :c])


def _trunc2(M, D, c):
    """Truncate a (D*D, D*D) two-mode operator (index n1*D+n2) to (c*c, c*c) (index n1*c+n2)."""
    ix = (np.arange(c)[:, None] * D + np.arange(c)[None, :]).ravel()
    return np.ascontiguousarray(M[np.ix_(ix, ix)])


# ----------------------------------------------------------------------------- single-mode gates
@functools.lru_cache(maxsize=None)
def displacement(r, phi, c, K=40):
    D = c + K
    a = _a(D)
    alpha = r * np.exp(1j * phi)
    return _trunc1(expm(alpha * a.conj().T - np.conj(alpha) * a), c)


@functools.lru_cache(maxsize=None)
def squeezing(r, phi, c, K=60):
    D = c + K
    a = _a(D)
    z = r * np.exp(1j * phi)
    return _trunc1(expm(0.5 * (np.conj(z) * a @ a - z * a.conj().T @ a.conj().T)), c)


@functools.lru_cache(maxsize=None)
def rotation(theta, c):
    return np.diag(np.exp(1j * theta * np.arange(c)))


@functools.lru_cache(maxsize=None)
def kerr(kappa, c):
    return np.diag(np.exp(1j * kappa * np.arange(c) ** 2))


@functools.lru_cache(maxsize=None)
def cubic_phase_at_cutoff(gamma, c, hbar=2.0):
    """exp(i gamma x^3 / (3 hbar)) with x truncated at the *same* cutoff c: this is how the simulator
    defines the gate (documented as numerically delicate), so only the plumbing around it is judged."""
    a = _a(c)
    x = (a + a.conj().T) * np.sqrt(hbar / 2)
    return expm(1j * gamma / (3 * hbar) * (x @ x @ x))


# ----------------------------------------------------------------------------- two-mode gates (index n1*c+n2)
@functools.lru_cache(maxsize=None)
def beamsplitter(theta, phi, c):
    # B = exp(theta (e^{i phi} a1 a2^dag - e^{-i phi} a1^dag a2)); number conserving: D = 2c is exact
    D = 2 * c
    a = _a(D)
    I = np.eye(D)
    a1, a2 = np.kron(a, I), np.kron(I, a)
    G = theta * (np.exp(1j * phi) * a1 @ a2.conj().T - np.exp(-1j * phi) * a1.conj().T @ a2)
    return _trunc2(expm(G), D, c)


@functools.lru_cache(maxsize=None)
def two_mode_squeeze(r, phi, c, K=22):
    # S2 = exp(z a1^dag a2^dag - z^* a1 a2)
    D = c + K
    a = _a(D)
    I = np.eye(D)
    a1, a2 = np.kron(a, I), np.kron(I, a)
    z = r * np.exp(1j * phi)
    G = z * a1.conj().T @ a2.conj().T - np.conj(z) * a1 @ a2
    return _trunc2(expm(G), D, c)


@functools.lru_cache(maxsize=None)
def cross_kerr(kappa, c):
    n = np.arange(c)
    return np.diag(np.exp(1j * kappa * (n[:, None] * n[None, :]).ravel()))


# ----------------------------------------------------------------------------- channels
@functools.lru_cache(maxsize=None)
def loss_kraus(T, c):
    """E_l = sum_n sqrt(C(n,l) T^(n-l) (1-T)^l) |n-l><n|  (Stinespring with a vacuum ancilla)."""
    ks = []
    for l in range(c):
        E = np.zeros((c, c), dtype=complex)
        for n in range(l, c):
            # python: 0.0 ** 0 == 1.0, so T = 0 (everything lost) and T = 1 (identity) need no special case
            E[n - l, n] = math.sqrt(math.comb(n, l) * float(T) ** (n - l) * (1.0 - float(T)) ** l)
        ks.append(E)
    return ks


# ----------------------------------------------------------------------------- single-mode states (kets / dms)
def fock_ket(k, c):
    v = np.zeros(c, dtype=complex)
    v[k] = 1
    return v


def coherent_ket(alpha, c):
    return np.array([np.exp(-abs(alpha) ** 2 / 2) * alpha**n / math.sqrt(math.factorial(n)) for n in range(c)], dtype=complex)


def squeezed_ket(r, phi, c):
    v = np.zeros(c, dtype=complex)
    for m in range((c + 1) // 2):
        v[2 * m] = math.sqrt(math.factorial(2 * m)) / (2**m * math.factorial(m)) * (-np.exp(1j * phi) * np.tanh(r)) ** m
    return v / np.sqrt(np.cosh(r))


@functools.lru_cache(maxsize=None)
def displaced_squeezed_ket(rd, phid, rs, phis, c, K=60):
    D = c + K
    a = _a(D)
    z = rs * np.exp(1j * phis)
    alpha = rd * np.exp(1j * phid)
    v = np.zeros(D, dtype=complex)
    v[0] = 1
    v = expm(0.5 * (np.conj(z) * a @ a - z * a.conj().T @ a.conj().T)) @ v
    v = expm(alpha * a.conj().T - np.conj(alpha) * a) @ v
    return v[:c].copy()


def thermal_dm(nbar, c):
    if nbar == 0:
        d = np.zeros(c)
        d[0] = 1
    else:
        d = np.array([nbar**n / (nbar + 1) ** (n + 1) for n in range(c)])
    return np.diag(d).astype(complex)


# ----------------------------------------------------------------------------- embedding
@functools.lru_cache(maxsize=None)
def _offsets(modes, n, c):
    """flat offsets of the local basis of `modes` (in the given order) and of the remaining modes."""
    modes = list(modes)
    stride = [c ** (n - 1 - m) for m in range(n)]
    k = len(modes)
    loc = np.zeros(c**k, dtype=np.int64)
    for a in range(c**k):
        digs = np.unravel_index(a, [c] * k)
        loc[a] = sum(int(d) * stride[m] for d, m in zip(digs, modes))
    rest = [m for m in range(n) if m not in modes]
    ro = np.zeros(c ** len(rest), dtype=np.int64)
    for b in range(c ** len(rest)):
        digs = np.unravel_index(b, [c] * len(rest)) if rest else ()
        ro[b] = sum(int(d) * stride[m] for d, m in zip(digs, rest))
    return loc, ro


def embed(G, modes, n, c):
    """Full c^n x c^n operator acting as G on `modes` (ordered) and as identity elsewhere."""
    loc, ro = _offsets(tuple(modes), n, c)
    F = np.zeros((c**n, c**n), dtype=complex)
    for b in ro:
        F[np.ix_(loc + b, loc + b)] = G
    return F


class FState:
    """Dense density matrix on n modes with cutoff c."""

    __slots__ = ("n", "c", "rho")

    def __init__(self, n, c, rho=None):
        self.n, self.c = n, c
        if rho is None:
            rho = np.zeros((c**n, c**n), dtype=complex)
            rho[0, 0] = 1
        self.rho = rho

    def copy(self):
        return FState(self.n, self.c, self.rho.copy())

    def trace(self):
        return float(np.trace(self.rho).real)

    def gate(self, G, modes):
        F = embed(G, modes, self.n, self.c)
        self.rho = F @ self.rho @ F.conj().T
        return self

    def channel(self, kraus, modes):
        out = np.zeros_like(self.rho)
        for E in kraus:
            F = embed(E, modes, self.n, self.c)
            out += F @ self.rho @ F.conj().T
        self.rho = out
        return self

    def reduced(self, modes):
        """Reduced density matrix of `modes` (ordered), flat index over those modes."""
        loc, ro = _offsets(tuple(modes), self.n, self.c)
        out = np.zeros((len(loc), len(loc)), dtype=complex)
        for b in ro:
            out += self.rho[np.ix_(loc + b, loc + b)]
        return out

    def prepare(self, sigma, modes):
        """Replace `modes` (ordered) by the state sigma (dm on those modes), uncorrelated with the rest."""
        rest = [m for m in range(self.n) if m not in modes]
        if not rest:
            # preparing the whole register discards the previous state entirely, including the norm it had lost
            loc, _ = _offsets(tuple(modes), self.n, self.c)
            new = np.zeros_like(self.rho)
            new[np.ix_(loc, loc)] = sigma
            self.rho = new
            return self
        rr = self.reduced(rest)
        loc, _ = _offsets(tuple(modes), self.n, self.c)
        rloc, _ = _offsets(tuple(rest), self.n, self.c)
        new = np.zeros_like(self.rho)
        # index of (rest basis b, local basis a) = rloc[b] + loc[a]
        full = (rloc[:, None] + loc[None, :]).ravel()
        new[np.ix_(full, full)] = np.kron(rr, sigma)
        self.rho = new
        return self

    def mean_photon(self, mode):
        r = self.reduced([mode])
        return float((np.arange(self.c) * np.diag(r).real).sum())

    def total_photon(self):
        return sum(self.mean_photon(m) for m in range(self.n))

    def purity_normalised(self):
        t = self.trace()
        return float(np.trace(self.rho @ self.rho).real) / (t * t) if t > 0 else 0.0

    def fock_probs(self):
        return np.diag(self.rho).real.reshape([self.c] * self.n)

    def project_fock(self, modes, outcome):
        """Unnormalised projection on |outcome> of `modes`, then reset those modes to vacuum."""
        k = np.ravel_multi_index(tuple(outcome), [self.c] * len(modes))
        P = np.zeros((self.c ** len(modes),) * 2, dtype=complex)
        P[0, k] = 1  # |0><outcome|
        return self.gate(P, modes)


def sf_dm_to_flat(dm, n, c):
    """Library convention dm[i0, j0, i1, j1, ...] -> flat (c^n, c^n) with mode 0 slowest."""
    dm = np.asarray(dm)
    perm = [2 * m for m in range(n)] + [2 * m + 1 for m in range(n)]
    return np.transpose(dm, perm).reshape(c**n, c**n)


def sf_ket_to_flat(ket, n, c):
    return np.asarray(ket).reshape(c**n)
