"""C17 - matrix decompositions return exact, correctly structured factors.

Form E on explicit *matrix orbits* (states = matrices, transitions = left multiplication by a generator,
canonical form = entries rounded to 1e-10, BFS to a fixed word length) plus S over entry alphabets:

* unitaries (k = 1..4): BFS orbit of {P(j, pi/2), T(j,j+1, pi/4, 0), T(j,j+1, .3, .7)} from the identity, all signed /
  phased permutation matrices, the DFT matrix, and every signed permutation + a deterministic 1e-14 pattern
  (exact zeros replaced by tolerance-sized numbers).  Each goes through rectangular, rectangular_phase_end,
  rectangular_MZ, rectangular_symmetric, triangular, triangular_compact, rectangular_compact, sun_compact.
* complex symmetric matrices for takagi: ALL symmetric k x k matrices over the entry alphabet {0, 1, -1, 1j, .5} for
  k <= 3 (15 625 at k = 3) and over {0, 1, 1j} for k = 4 (59 049),
  each as is, + an asymmetric 1e-14 pattern (inside the documented symmetry tolerance), + a symmetric complex
  1e-14 pattern (splits degenerate singular values below the documented 13-decimal rounding) and + the same pattern
  at 1e-12 (splits them just above it).
* symplectic matrices (1..3 modes, xxpp ordering): BFS orbit of {R(j, pi/2), R(j, .6), S(j, .4), BS(j,j+1, pi/4),
  S2(j,j+1, .3)}; every orbit element S goes through bloch_messiah, and S D S^T through williamson for every D of the
  symplectic-spectrum menu (degenerate and non-degenerate).  Boundary of bloch_messiah's documented 9-decimal
  rounding and 1e-10 passivity tolerance: A . S0(r1) S1(r2) . B for all pairs (A, B) of the passive two-mode orbit and
  (r1, r2) in {(.4, .4), (.4, .4 + 1e-12), (.4, .4 + 1e-8), (1e-12, 0), (1e-7, 0), (1e-7, 1e-7)}.
* graphs: all labelled graphs on <= 4 (thorough: 5) nodes whose edges carry a weight from {1, 1j} (this contains every
  plain 0/1 graph) x mean photon per mode {.5, 1} for graph_embed; all k x k biadjacency matrices over {0, 1, 1j}
  (k <= 2, thorough 3) and over {0, 1} (k = 3, thorough 4) x the same means for bipartite_graph_embed.
* invalid inputs (non-square, isometries, non-symmetric by 1e-6, non-unitary by 1e-6, non-symplectic, orthogonal
  but anti-symplectic, odd dimension, non-positive, empty graph, 2x2 for sun_compact): every routine must raise.

Oracle: reconstruction with builders written here from the documented definitions (T = BS(theta,0) R(phi); the
Mach-Zehnder and the symmetric MZI are multiplied out of 50:50 beamsplitters and phase shifters and cross-checked
against the closed forms of the docstrings at import; SU(2) from the Euler-angle product of the sun_compact
docstring), never with the library's T/Ti/mach_zehnder/M/P helpers.
"""
import cmath
import itertools
import math

import numpy as np

from strawberryfields import decompositions as dec

from mc.core.ctx import Res

ID = "C17"
LEVEL = "model_checking"
RULE = (
    "states = matrices of an explicit BFS orbit (unitary k<=4, symplectic <=3 modes) plus exhaustive entry-alphabet "
    "families (symmetric matrices, graphs, signed permutations) plus invalid inputs; an evaluation = one routine call on "
    "one input; a case (= one distinct VALID input matrix of one family) is non-trivial when the matrix is not "
    "diagonal (hence not the identity), i.e. at least one returned factor has to differ from a phase/identity; "
    "invalid inputs and diagonal inputs are evaluated but never counted as non-trivial"
)

TOL = 1e-9  # reconstruction / structure tolerance, relative to max(1, |input|_max)
MEAN_TOL = 1e-8

MESHES = (
    "rectangular",
    "rectangular_phase_end",
    "rectangular_MZ",
    "rectangular_symmetric",
    "triangular",
    "triangular_compact",
    "rectangular_compact",
    "sun_compact",
)


# ============================================================================= own builders (documented definitions)
def bP(j, phi, k):
    m = np.eye(k, dtype=complex)
    m[j, j] = cmath.exp(1j * phi)
    return m


def bBS(n, m, theta, phi, k):
    """Strawberry Fields beamsplitter on (n, m): [[cos, -e^{-i phi} sin], [e^{i phi} sin, cos]]."""
    o = np.eye(k, dtype=complex)
    c, s = math.cos(theta), math.sin(theta)
    o[n, n] = c
    o[n, m] = -cmath.exp(-1j * phi) * s
    o[m, n] = cmath.exp(1j * phi) * s
    o[m, m] = c
    return o


def bT(n, m, theta, phi, k):
    """Clements T (Eq. 1 of clements2016, `BS_clements(theta, phi) = BS(theta, 0) R(phi)`): phase phi on mode n, then a
    real beamsplitter of angle theta on (n, m)."""
    return bBS(n, m, theta, 0.0, k) @ bP(n, phi, k)


def bTi(n, m, theta, phi, k):
    return bT(n, m, theta, phi, k).conj().T


def bSBS(n, m, k):
    """symmetric 50:50 beamsplitter [[1, i], [i, 1]] / sqrt(2) = BS(pi/4, pi/2)"""
    return bBS(n, m, math.pi / 4, math.pi / 2, k)


def bMZ(m, n, phi_i, phi_e, k):
    """Mach-Zehnder section as described in words in the mach_zehnder docstring: external phase on input mode m,
    symmetric beamsplitter on (m, n), internal phase on mode m, symmetric beamsplitter."""
    return bSBS(m, n, k) @ bP(m, phi_i, k) @ bSBS(m, n, k) @ bP(m, phi_e, k)


def bMZ_closed(phi_i, phi_e):
    """closed form printed in the mach_zehnder docstring"""
    s, c, e = math.sin(phi_i / 2), math.cos(phi_i / 2), cmath.exp(1j * phi_e)
    return 1j * cmath.exp(1j * phi_i / 2) * np.array([[s * e, c], [c * e, -s]])


def bM(n, sigma, delta, k):
    """symmetric MZI between modes n, n+1 with internal phases theta_1 = sigma + delta (upper arm) and
    theta_2 = sigma - delta (lower arm), each counted from -pi/2 (the sMZgate convention), between two symmetric
    50:50 beamsplitters."""
    t1, t2 = sigma + delta, sigma - delta
    return bSBS(n, n + 1, k) @ bP(n, t1 - math.pi / 2, k) @ bP(n + 1, t2 - math.pi / 2, k) @ bSBS(n, n + 1, k)


def bM_closed(sigma, delta):
    return cmath.exp(1j * sigma) * np.array([[math.sin(delta), math.cos(delta)], [math.cos(delta), -math.sin(delta)]])


def bSU2(i, j, a, b, g, k):
    """S(alpha, beta, gamma) of the sun_compact docstring: diag(e^{ia/2}, e^{-ia/2}) . rot(b/2) . diag(e^{ig/2}, e^{-ig/2})"""
    o = np.eye(k, dtype=complex)
    A = np.diag([cmath.exp(0.5j * a), cmath.exp(-0.5j * a)])
    B = np.array([[math.cos(b / 2), -math.sin(b / 2)], [math.sin(b / 2), math.cos(b / 2)]])
    G = np.diag([cmath.exp(0.5j * g), cmath.exp(-0.5j * g)])
    blk = A @ B @ G
    o[i, i], o[i, j], o[j, i], o[j, j] = blk[0, 0], blk[0, 1], blk[1, 0], blk[1, 1]
    return o


def _selfcheck_builders():
    for pi_, pe in ((0.3, 1.1), (2.0, 0.0), (0.0, 0.4), (math.pi, 5.0)):
        if np.max(np.abs(bMZ(0, 1, pi_, pe, 2) - bMZ_closed(pi_, pe))) > 1e-14:
            raise RuntimeError("own Mach-Zehnder builder disagrees with the closed form of the docstring")
        if np.max(np.abs(bM(0, pi_, pe, 2) - bM_closed(pi_, pe))) > 1e-14:
            raise RuntimeError("own sMZI builder disagrees with its closed form")
    if np.max(np.abs(bT(0, 1, 0.3, 0.7, 2) - np.array([[cmath.exp(0.7j) * math.cos(0.3), -math.sin(0.3)], [cmath.exp(0.7j) * math.sin(0.3), math.cos(0.3)]]))) > 1e-15:
        raise RuntimeError("own T builder disagrees with Eq. 1")


_selfcheck_builders()


# ----------------------------------------------------------------------------- symplectic builders (xxpp ordering)
def omega(n):
    o = np.zeros((2 * n, 2 * n))
    o[:n, n:] = np.eye(n)
    o[n:, :n] = -np.eye(n)
    return o


def sR(j, th, n):
    s = np.eye(2 * n)
    s[j, j] = math.cos(th)
    s[j, n + j] = -math.sin(th)
    s[n + j, j] = math.sin(th)
    s[n + j, n + j] = math.cos(th)
    return s


def sS(j, r, n):
    s = np.eye(2 * n)
    s[j, j] = math.exp(-r)
    s[n + j, n + j] = math.exp(r)
    return s


def sBS(j, l, th, n):
    s = np.eye(2 * n)
    c, si = math.cos(th), math.sin(th)
    for off in (0, n):
        s[off + j, off + j] = c
        s[off + j, off + l] = -si
        s[off + l, off + j] = si
        s[off + l, off + l] = c
    return s


def sS2(j, l, r, n):
    s = np.eye(2 * n)
    ch, sh = math.cosh(r), math.sinh(r)
    s[j, j] = s[l, l] = s[n + j, n + j] = s[n + l, n + l] = ch
    s[j, l] = s[l, j] = sh
    s[n + j, n + l] = s[n + l, n + j] = -sh
    return s


# ============================================================================= input families
def ukey(M):
    return (np.round(M, 10) + 0.0).tobytes()


def unitary_generators(k):
    g = []
    for j in range(k):
        g.append((f"P{j}(pi/2)", bP(j, math.pi / 2, k)))
    for j in range(k - 1):
        g.append((f"T{j}{j+1}(pi/4,0)", bT(j, j + 1, math.pi / 4, 0.0, k)))
    for j in range(k - 1):
        g.append((f"T{j}{j+1}(.3,.7)", bT(j, j + 1, 0.3, 0.7, k)))
    return g


def symplectic_generators(n):
    g = []
    for j in range(n):
        g.append((f"R{j}(pi/2)", sR(j, math.pi / 2, n)))
    for j in range(n):
        g.append((f"R{j}(.6)", sR(j, 0.6, n)))
    for j in range(n):
        g.append((f"S{j}(.4)", sS(j, 0.4, n)))
    for j in range(n - 1):
        g.append((f"BS{j}{j+1}(pi/4)", sBS(j, j + 1, math.pi / 4, n)))
    for j in range(n - 1):
        g.append((f"S2{j}{j+1}(.3)", sS2(j, j + 1, 0.3, n)))
    return g


def bfs_orbit(gens, dim, depth, dtype):
    """Explicit-state BFS: returns (states [(matrix, word)], transitions, per-depth new-state counts)."""
    I = np.eye(dim, dtype=dtype)
    seen = {ukey(I)}
    states = [(I, ())]
    frontier = [0]
    transitions = 0
    levels = [1]
    for _ in range(depth):
        nxt = []
        for idx in frontier:
            M, w = states[idx]
            for gi, (_, G) in enumerate(gens):
                N = G @ M
                transitions += 1
                kk = ukey(N)
                if kk not in seen:
                    seen.add(kk)
                    states.append((N, (gi,) + w))
                    nxt.append(len(states) - 1)
        frontier = nxt
        levels.append(len(nxt))
    return states, transitions, levels


def word_str(gens, w):
    return " . ".join(gens[g][0] for g in w) if w else "identity"


def signed_permutations(k):
    phases = (1, 1j, -1, -1j) if k <= 3 else (1, -1)
    out = []
    for perm in itertools.permutations(range(k)):
        for ph in itertools.product(phases, repeat=k):
            M = np.zeros((k, k), dtype=complex)
            for r, c in enumerate(perm):
                M[r, c] = ph[r]
            out.append(M)
    return out


def dft(k):
    w = cmath.exp(2j * math.pi / k)
    return np.array([[w ** (i * j) for j in range(k)] for i in range(k)]) / math.sqrt(k)


def noise_asym(k, scale=0.5e-14):
    """deterministic real, non-symmetric pattern with entries in scale * [1, 2), i.e. of size ~1e-14;
    |E - E^T|_F = 2.4e-14 (k=2), 3.1e-14 (k=3), 4.3e-14 (k=4): well inside takagi's documented 1e-13"""
    return scale * np.array([[(1 if (i + 2 * j) % 2 == 0 else -1) * (1 + ((3 * i + 5 * j + 1) % 7) / 7.0) for j in range(k)] for i in range(k)])


def noise_sym(k, scale=1e-14):
    """deterministic complex symmetric pattern with entries of modulus in scale * [1, 3)"""
    E = np.array([[(1 + ((2 * i + 3 * j) % 5) / 5.0) * (1 if (i * j) % 2 == 0 else -1) + 1j * (((i + 1) * (j + 2)) % 3) for j in range(k)] for i in range(k)])
    return scale * (E + E.T) / 2


ALPHA = (0.0, 1.0, -1.0, 1j, 0.5)


ALPHA3 = (0.0, 1.0, 1j)  # reduced alphabet for k = 4


def sym_from_index(k, idx, alphabet=ALPHA):
    """idx in [0, len(alphabet)**(k(k+1)/2)) -> symmetric k x k matrix over the alphabet (upper triangle, row-major)."""
    A = np.zeros((k, k), dtype=complex)
    for i in range(k):
        for j in range(i, k):
            idx, d = divmod(idx, len(alphabet))
            A[i, j] = A[j, i] = alphabet[d]
    return A


WEIGHTS = (0.0, 1.0, 1j, -1j)  # base 2: plain graphs; base 3: edges may also carry the weight i; base 4: and -i (Hermitian non-real biadjacency matrices)


def graph_from_index(k, idx, base=2):
    """idx in [0, base**(k(k-1)/2)) -> symmetric zero-diagonal matrix over WEIGHTS[:base]; index 0 is the empty graph"""
    A = np.zeros((k, k), dtype=complex if base > 2 else float)
    for i in range(k):
        for j in range(i + 1, k):
            idx, d = divmod(idx, base)
            A[i, j] = A[j, i] = WEIGHTS[d]
    return A


def biadj_from_index(k, idx, base=2):
    """idx in [0, base**(k*k)) -> k x k biadjacency matrix over WEIGHTS[:base]; index 0 is the empty graph"""
    A = np.zeros((k, k), dtype=complex if base > 2 else float)
    for i in range(k):
        for j in range(k):
            idx, d = divmod(idx, base)
            A[i, j] = WEIGHTS[d]
    return A


WILLIAMSON_D = {
    1: ((1.0,), (1.5,)),
    2: ((1.0, 1.0), (1.5, 1.5), (1.0, 2.2)),
    3: ((3.0, 3.0, 3.0), (1.0, 1.0, 2.2), (1.0, 1.5, 2.2)),
}
MEANS = (0.5, 1.0)


# ============================================================================= JSON <-> matrix
def enc(M):
    M = np.asarray(M)
    if np.iscomplexobj(M):
        return {"shape": list(M.shape), "complex": True, "data": [[float(x.real), float(x.imag)] for x in M.ravel()]}
    return {"shape": list(M.shape), "complex": False, "data": [float(x) for x in M.ravel()]}


def decm(d):
    if d["complex"]:
        a = np.array([complex(re, im) for re, im in d["data"]], dtype=complex)
    else:
        a = np.array(d["data"], dtype=float)
    return a.reshape(d["shape"])


def show(M):
    M = np.asarray(M)
    return np.array2string(M, precision=4, suppress_small=True, max_line_width=200).replace("\n", " ")


# ============================================================================= classification (from the input only)
def is_diag(M, eps=1e-12):
    M = np.asarray(M)
    return M.ndim == 2 and M.shape[0] == M.shape[1] and float(np.max(np.abs(M - np.diag(np.diag(M))), initial=0.0)) <= eps


def unitary_class(U):
    k = U.shape[0]
    a = np.abs(U)
    tiny = (a > 0) & (a < 1e-12)
    if tiny.any():
        return "near-zero-entries"
    if is_diag(U, 0.0):
        return "diagonal"
    nz = a > 0
    if (nz.sum(axis=0) == 1).all() and (nz.sum(axis=1) == 1).all():
        return "permutation"
    if (~nz).any():
        return "exact-zeros"
    return "dense"


def spectrum_class(sv, eps=1e-9):
    sv = np.sort(np.asarray(sv, dtype=float))
    return "degenerate" if len(sv) > 1 and float(np.min(np.diff(sv))) <= eps * max(1.0, float(sv[-1])) else "simple"


TAKAGI_VARIANTS = {
    # name -> class suffix; takagi documents that singular values are 'equal' when they agree after rounding to 13 decimals
    "exact": "",
    "asym-1e-14": "+noise-below-rounding",
    "sym-1e-14": "+noise-below-rounding",
    "sym-1e-12": "+noise-above-rounding",
}


def takagi_class(N, variant):
    base = "real" if float(np.max(np.abs(N.imag), initial=0.0)) <= 1e-13 else "complex"
    cls = base + "-" + spectrum_class(np.linalg.svd(N, compute_uv=False), eps=1e-9)
    return cls + TAKAGI_VARIANTS[variant]


def bloch_class(S):
    """structural class of a symplectic matrix from its singular values s_1 >= .. >= s_n >= 1 >= 1/s_n >= .. >= 1/s_1"""
    n = S.shape[0] // 2
    sv = np.sort(np.linalg.svd(S, compute_uv=False))[::-1]
    if float(np.max(np.abs(sv - 1))) <= 1e-9:
        return "passive"
    gaps = -np.diff(sv)
    if np.any((gaps > 1e-9 * sv[0]) & (gaps <= 1e-5 * sv[0])):
        return "near-degenerate"  # distinct singular values closer than 1e-5 (includes barely squeezed modes)
    top = sv[:n]
    idle = np.abs(top - 1) <= 1e-9
    if int(idle.sum()) >= 2:
        return "multiple-idle-modes"  # singular value 1 with multiplicity >= 4 next to squeezed modes
    active = top[~idle]
    if len(active) > 1 and float(np.min(-np.diff(active))) <= 1e-9 * sv[0]:
        return "equal-squeezers"
    return "simple"


# ============================================================================= oracles
class Structure(Exception):
    pass


def _err(A, B):
    A, B = np.asarray(A), np.asarray(B)
    if A.shape != B.shape:
        return float("inf")
    if A.size == 0:
        return 0.0
    e = float(np.max(np.abs(A - B)))
    return e if e == e else float("inf")


def _scale(M):
    return max(1.0, float(np.max(np.abs(M), initial=0.0)))


def _t5(t, k, what):
    try:
        n, m, a, b, sz = t
    except Exception:
        raise Structure(f"{what} entry {t!r} is not a 5-item [n, m, theta, phi, n_size]")
    if int(n) != n or int(m) != m or not (0 <= n < k and 0 <= m < k) or n == m:
        raise Structure(f"{what} entry has modes ({n}, {m}) for a {k}-mode matrix")
    if sz != k:
        raise Structure(f"{what} entry has n_size {sz} for a {k}-mode matrix")
    a, b = complex(a), complex(b)
    if a.imag != 0 or b.imag != 0 or not (math.isfinite(a.real) and math.isfinite(b.real)):
        raise Structure(f"{what} entry has non-real or non-finite angles {t!r}")
    return int(n), int(m), a.real, b.real, k


def _diag_ok(d, k, what):
    d = np.asarray(d)
    if d.shape != (k,):
        raise Structure(f"{what} has shape {d.shape}, expected ({k},)")
    if not (float(np.max(np.abs(np.abs(d) - 1), initial=0.0)) <= TOL):
        raise Structure(f"{what} is not a vector of unit-modulus phases: |d| = {np.abs(d)}")
    return d


def _count_ok(n_elems, k, what):
    if n_elems != k * (k - 1) // 2:
        raise Structure(f"{what}: {n_elems} two-mode elements for k={k}, a full mesh has k(k-1)/2 = {k*(k-1)//2}")


def rec_rectangular(out, k, elem):
    """V = E^-1(tlist[0]) ... E^-1(tlist[-1]) . D . E(tilist[-1]) ... E(tilist[0])  (elem = T or Mach-Zehnder)"""
    tilist, d, tlist = out
    if tlist is None:
        raise Structure("third item is None, a list of elements is documented")
    _count_ok(len(tilist) + len(tlist), k, "tilist + tlist")
    U = np.eye(k, dtype=complex)
    for t in tilist:
        U = elem(*_t5(t, k, "tilist")) @ U
    U = np.diag(_diag_ok(d, k, "localV")) @ U
    for t in reversed(tlist):
        U = elem(*_t5(t, k, "tlist")).conj().T @ U
    return U


def rec_phase_end(out, k, elem):
    """V = D . E(tlist[-1]) ... E(tlist[0]), third item None"""
    tlist, d, third = out
    if third is not None:
        raise Structure("third item of the returned tuple is not None")
    _count_ok(len(tlist), k, "tlist")
    U = np.eye(k, dtype=complex)
    for t in tlist:
        U = elem(*_t5(t, k, "tlist")) @ U
    return np.diag(_diag_ok(d, k, "localV")) @ U


def rec_triangular(out, k):
    """diagonal applied at the BEGINNING of the circuit, then the elements in list order, each the inverse T
    (this is the only reading of the docstring under which the routine can be exact; see assumptions)."""
    tlist, d, third = out
    if third is not None:
        raise Structure("third item of the returned tuple is not None")
    _count_ok(len(tlist), k, "tlist")
    U = np.diag(_diag_ok(d, k, "localV")).astype(complex)
    for t in tlist:
        U = bTi(*_t5(t, k, "tlist")) @ U
    return U


def rec_triangular_literal(out, k):
    """the literal readings 'T unitaries, diagonal first': list order and reversed list order"""
    tlist, d, _ = out
    U1 = np.diag(d).astype(complex)
    U2 = np.diag(d).astype(complex)
    for t in tlist:
        U1 = bT(*_t5(t, k, "tlist")) @ U1
    for t in reversed(tlist):
        U2 = bT(*_t5(t, k, "tlist")) @ U2
    return U1, U2


def _real(x, what):
    x = complex(x)
    if x.imag != 0 or not math.isfinite(x.real):
        raise Structure(f"{what} = {x!r} is not a finite real number")
    return x.real


def rec_triangular_compact(ph, k):
    if not isinstance(ph, dict):
        raise Structure("result is not a dict")
    try:
        if ph["m"] != k:
            raise Structure(f"m = {ph['m']} for a {k}-mode matrix")
        U = np.eye(k, dtype=complex)
        n_el = 0
        for j in range(k - 1):
            U = bP(j + 1, _real(ph["phi_ins"][j], "phi_ins"), k) @ U
            for l in range(j + 1):
                n = j - l
                U = bM(n, _real(ph["sigmas"][n, l], "sigma"), _real(ph["deltas"][n, l], "delta"), k) @ U
                n_el += 1
        for j in range(k):
            U = bP(j, _real(ph["zetas"][j], "zeta"), k) @ U
    except KeyError as e:
        raise Structure(f"missing key {e!r} in the returned dict")
    if len(ph["deltas"]) != n_el or len(ph["sigmas"]) != n_el:
        raise Structure(f"{len(ph['deltas'])} deltas / {len(ph['sigmas'])} sigmas for {n_el} sMZIs")
    return U


def rec_rectangular_compact(ph, k):
    if not isinstance(ph, dict):
        raise Structure("result is not a dict")
    try:
        if ph["m"] != k:
            raise Structure(f"m = {ph['m']} for a {k}-mode matrix")
        if "zetas" in ph:
            raise Structure("residual 'zetas' still present (documented keys: m, phi_ins, sigmas, deltas, phi_edges, phi_outs)")
        U = np.eye(k, dtype=complex)
        n_el = 0
        for j in range(0, k - 1, 2):
            U = bP(j, _real(ph["phi_ins"][j], "phi_ins"), k) @ U
        for layer in range(k):
            if (layer + k + 1) % 2 == 0:
                U = bP(k - 1, _real(ph["phi_edges"][k - 1, layer], "phi_edge"), k) @ U
            for mode in range(layer % 2, k - 1, 2):
                U = bM(mode, _real(ph["sigmas"][mode, layer], "sigma"), _real(ph["deltas"][mode, layer], "delta"), k) @ U
                n_el += 1
        for j, p in ph["phi_outs"].items():
            if not (0 <= j < k):
                raise Structure(f"phi_outs on mode {j}")
            U = bP(j, _real(p, "phi_out"), k) @ U
    except KeyError as e:
        raise Structure(f"missing key {e!r} in the returned dict")
    if len(ph["deltas"]) != n_el or len(ph["sigmas"]) != n_el:
        raise Structure(f"{len(ph['deltas'])} deltas / {len(ph['sigmas'])} sigmas for {n_el} sMZIs")
    return U


def rec_sun(out, k):
    params, gp = out
    _count_ok(len(params), k, "parameters")
    U = np.eye(k, dtype=complex)
    for item in params:
        try:
            (i, j), (a, b, g) = item
        except Exception:
            raise Structure(f"parameters entry {item!r} is not ((i, i+1), [a, b, g])")
        if not (0 <= i < k - 1) or j != i + 1:
            raise Structure(f"SU(2) on modes ({i}, {j}) for k={k}")
        U = U @ bSU2(i, j, _real(a, "a"), _real(b, "b"), _real(g, "g"), k)
    if gp is not None:
        U = cmath.exp(1j * _real(gp, "global_phase") / k) * U
    return U


def run_mesh(name, V):
    """returns (output, reconstructed matrix); raises Structure for malformed outputs, lets library errors through"""
    k = V.shape[0]
    out = getattr(dec, name)(V.copy())
    if name == "rectangular":
        return out, rec_rectangular(out, k, bT)
    if name == "rectangular_MZ":
        return out, rec_rectangular(out, k, bMZ)
    if name == "rectangular_phase_end":
        return out, rec_phase_end(out, k, bT)
    if name == "rectangular_symmetric":
        return out, rec_phase_end(out, k, bMZ)
    if name == "triangular":
        return out, rec_triangular(out, k)
    if name == "triangular_compact":
        return out, rec_triangular_compact(out, k)
    if name == "rectangular_compact":
        return out, rec_rectangular_compact(out, k)
    if name == "sun_compact":
        return out, rec_sun(out, k)
    raise KeyError(name)


def _o(case):
    o = case.get("origin") if isinstance(case, dict) else None
    return f" [{o}; printed entries are rounded, exact ones are in the replay file]" if o else ""


def brief(out):
    s = repr(out)
    s = " ".join(s.split())
    return s if len(s) <= 700 else s[:700] + " ..."


# ----------------------------------------------------------------------------- per-family checks
def check_mesh(name, V, res, case):
    """one mesh routine on one VALID unitary"""
    k = V.shape[0]
    cls = unitary_class(V)
    res.n += 1
    res.stats[f"calls:{name}"] += 1
    if name == "sun_compact" and k < 3:
        # documented: input must be at least 3x3
        try:
            out = dec.sun_compact(V.copy())
        except Exception as e:
            res.stats[f"rejected:sun_compact:too-small:{type(e).__name__}"] += 1
            return
        res.violation("C17|sun_compact|accepted-invalid|smaller-than-3x3", f"sun_compact accepted a {k}x{k} matrix and returned {brief(out)}", case)
        return
    try:
        out, rec = run_mesh(name, V)
    except Structure as e:
        res.violation(f"C17|{name}|structure|{cls}", f"{name}(U), U = {show(V)}{_o(case)} (k={k}, {cls}): malformed result: {e}", case)
        return
    except Exception as e:
        res.violation(f"C17|{name}|raised-on-valid|{cls}", f"{name}(U) raised {type(e).__name__}: {e} for the unitary U = {show(V)}{_o(case)} (k={k}, {cls}; |UU^+ - 1| = {_err(V @ V.conj().T, np.eye(k)):.1e})", case)
        return
    e = _err(rec, V)
    if not (e <= TOL):
        res.violation(f"C17|{name}|reconstruction|{cls}", f"{name}(U) for U = {show(V)}{_o(case)} (k={k}, {cls}) returned {brief(out)}; the documented product of these factors is {show(rec)}, max entry error {e:.3g}", case)
    if np.iscomplexobj(V) and np.max(np.abs(V.imag)) == 0:
        # the same matrix handed over with a real dtype (orthogonal matrices, signed permutations): same promises
        res.stats[f"calls:{name}:real-dtype"] += 1
        Vr = np.ascontiguousarray(V.real)
        try:
            out_r, rec_r = run_mesh(name, Vr)
            if not (_err(rec_r, V) <= TOL):
                res.violation(f"C17|{name}|reconstruction|real-dtype|{cls}", f"{name}(U) for the real-dtype U = {show(Vr)}{_o(case)} reconstructs with max entry error {_err(rec_r, V):.3g}", dict(case, real_dtype=True))
        except Structure as e_:
            res.violation(f"C17|{name}|structure|real-dtype|{cls}", f"{name}(U), real-dtype U = {show(Vr)}{_o(case)}: malformed result: {e_}", dict(case, real_dtype=True))
        except Exception as e_:  # noqa: BLE001
            res.violation(f"C17|{name}|raised-on-valid|real-dtype|{cls}", f"{name}(U) raised {type(e_).__name__}: {e_} for the unitary U = {show(Vr)}{_o(case)} given with a real dtype (det = {np.linalg.det(Vr):+.0f}); the complex-dtype copy of the same matrix is decomposed", dict(case, real_dtype=True))
    if name == "triangular" and not is_diag(V):
        r1, r2 = rec_triangular_literal(out, k)
        if _err(r1, V) <= TOL or _err(r2, V) <= TOL:
            res.stats["triangular:literal-T-reading-also-exact"] += 1
        else:
            res.stats["triangular:literal-T-reading-not-exact"] += 1
    if name == "rectangular_symmetric":
        for t in out[0]:
            if not (0 <= t[2] < 2 * math.pi and 0 <= t[3] < 2 * math.pi):
                res.stats["rectangular_symmetric:phase-outside-[0,2pi)"] += 1
                break


def check_takagi(N, variant, res, case):
    res.n += 1
    res.stats["calls:takagi"] += 1
    k = N.shape[0]
    cls = takagi_class(N, variant)
    try:
        rl, U = dec.takagi(N.copy())
    except Exception as e:
        res.violation(f"C17|takagi|raised-on-valid|{cls}", f"takagi(N) raised {type(e).__name__}: {e} for the symmetric N = {show(N)}{_o(case)} (|N - N^T| = {np.linalg.norm(N - N.T):.1e})", case)
        return
    rl, U = np.asarray(rl), np.asarray(U)
    desc = f"takagi(N), N = {show(N)}{_o(case)} ({cls}) returned rl = {show(rl)}, U = {show(U)}"
    if rl.shape != (k,) or U.shape != (k, k):
        res.violation(f"C17|takagi|structure|{cls}", f"{desc}: wrong shapes {rl.shape}, {U.shape}", case)
        return
    sc = _scale(N)
    if np.iscomplexobj(rl) and float(np.max(np.abs(rl.imag))) > 0 or not (float(np.min(rl.real)) >= 0):
        res.violation(f"C17|takagi|diagonal-not-nonnegative|{cls}", f"{desc}: singular values are not real non-negative", case)
    rlr = rl.real
    if not np.all(np.diff(rlr) <= TOL * sc):
        res.violation(f"C17|takagi|diagonal-not-ordered|{cls}", f"{desc}: values are not in decreasing order", case)
    sv = np.linalg.svd(N, compute_uv=False)
    if not (_err(np.sort(rlr)[::-1], sv) <= TOL * sc):
        res.violation(f"C17|takagi|not-singular-values|{cls}", f"{desc}: the singular values of N are {show(sv)}", case)
    eu = _err(U.conj().T @ U, np.eye(k))
    if not (eu <= TOL):
        res.violation(f"C17|takagi|not-unitary|{cls}", f"{desc}: |U^+ U - 1| = {eu:.3g}", case)
    er = _err(U @ np.diag(rlr) @ U.T, N)
    if not (er <= TOL * sc):
        res.violation(f"C17|takagi|reconstruction|{cls}", f"{desc}: |U diag(rl) U^T - N| = {er:.3g}", case)


def check_williamson(V, nu, res, case):
    res.n += 1
    res.stats["calls:williamson"] += 1
    n = V.shape[0] // 2
    cls = spectrum_class(nu) if n > 1 else "simple"
    try:
        Db, S = dec.williamson(V.copy())
    except Exception as e:
        res.violation(f"C17|williamson|raised-on-valid|{cls}", f"williamson(V) raised {type(e).__name__}: {e} for the positive definite V = {show(V)}{_o(case)} with symplectic spectrum {nu}", case)
        return
    Db, S = np.asarray(Db), np.asarray(S)
    desc = f"williamson(V), V = {show(V)}{_o(case)} (symplectic spectrum {tuple(nu)}, {cls}) returned Db = {show(np.diag(Db)) if Db.ndim == 2 else Db}, S = {show(S)}"
    if Db.shape != V.shape or S.shape != V.shape:
        res.violation(f"C17|williamson|structure|{cls}", f"{desc}: wrong shapes", case)
        return
    sc = _scale(V)
    if np.iscomplexobj(Db) and np.max(np.abs(Db.imag)) > TOL or np.iscomplexobj(S) and np.max(np.abs(S.imag)) > TOL:
        res.violation(f"C17|williamson|structure|{cls}", f"{desc}: complex factors", case)
        return
    Db, S = Db.real, S.real
    d = np.diag(Db)
    if not is_diag(Db, TOL * sc) or not (_err(d[:n], d[n:]) <= TOL * sc) or not (float(np.min(d)) > 0):
        res.violation(f"C17|williamson|diagonal-structure|{cls}", f"{desc}: Db is not diag(nu_1..nu_n, nu_1..nu_n) with nu > 0", case)
    elif not (_err(np.sort(d[:n]), np.sort(np.asarray(nu, dtype=float))) <= 1e-8 * sc):
        res.violation(f"C17|williamson|wrong-symplectic-spectrum|{cls}", f"{desc}: the symplectic eigenvalues of V are {tuple(nu)}", case)
    es = _err(S.T @ omega(n) @ S, omega(n))
    if not (es <= TOL * _scale(S) ** 2):
        res.violation(f"C17|williamson|not-symplectic|{cls}", f"{desc}: |S^T Omega S - Omega| = {es:.3g}", case)
    # convention: V = S Db S^T, as stated by the consumer (ops.Gaussian: "V = S D S^T") and used by it; the routine's own
    # docstring prints the transposed formula S^T Db S, which is tallied but not required (see assumptions)
    er = _err(S @ Db @ S.T, V)
    if not (er <= TOL * sc):
        res.violation(f"C17|williamson|reconstruction|{cls}", f"{desc}: |S Db S^T - V| = {er:.3g} (and |S^T Db S - V| = {_err(S.T @ Db @ S, V):.3g})", case)
    elif not is_diag(V):
        res.stats["williamson:docstring-formula-S^T.Db.S-" + ("also-exact" if _err(S.T @ Db @ S, V) <= TOL * sc else "not-exact")] += 1


def check_bloch(S, res, case):
    res.n += 1
    res.stats["calls:bloch_messiah"] += 1
    n = S.shape[0] // 2
    cls = bloch_class(S)
    res.stats[f"bloch_class:{cls}"] += 1
    try:
        O1, D, O2 = dec.bloch_messiah(S.copy())
    except Exception as e:
        res.violation(f"C17|bloch_messiah|raised-on-valid|{cls}", f"bloch_messiah(S) raised {type(e).__name__}: {e} for the symplectic S = {show(S)}{_o(case)} (|S^T Omega S - Omega| = {_err(S.T @ omega(n) @ S, omega(n)):.1e})", case)
        return
    O1, D, O2 = np.asarray(O1), np.asarray(D), np.asarray(O2)
    desc = f"bloch_messiah(S), S = {show(S)}{_o(case)} ({n} modes, {cls}) returned ut1 = {show(O1)}, st1 = {show(np.diag(D)) if D.ndim == 2 else D}, v1 = {show(O2)}"
    if O1.shape != S.shape or D.shape != S.shape or O2.shape != S.shape or np.iscomplexobj(O1) or np.iscomplexobj(D) or np.iscomplexobj(O2):
        res.violation(f"C17|bloch_messiah|structure|{cls}", f"{desc}: wrong shapes or complex factors", case)
        return
    sc = _scale(S)
    om = omega(n)
    I = np.eye(2 * n)
    for nm, O in (("ut1", O1), ("v1", O2)):
        eo, es = _err(O.T @ O, I), _err(O.T @ om @ O, om)
        if not (eo <= TOL and es <= TOL):
            res.violation(f"C17|bloch_messiah|not-orthogonal-symplectic|{cls}", f"{desc}: {nm} has |O^T O - 1| = {eo:.3g}, |O^T Omega O - Omega| = {es:.3g}", case)
            break
    d = np.diag(D)
    if not is_diag(D, TOL * sc) or not (float(np.min(d)) > 0) or not (_err(d[:n] * d[n:], np.ones(n)) <= TOL * sc):
        res.violation(f"C17|bloch_messiah|diagonal-structure|{cls}", f"{desc}: st1 is not diag(s_1..s_n, 1/s_1..1/s_n) with s > 0 (off-diagonal max {_err(D, np.diag(d)):.3g})", case)
    elif not (_err(np.sort(d), np.sort(np.linalg.svd(S, compute_uv=False))) <= 1e-8 * sc):
        res.violation(f"C17|bloch_messiah|not-singular-values|{cls}", f"{desc}: the singular values of S are {show(np.linalg.svd(S, compute_uv=False))}", case)
    er = _err(O1 @ D @ O2, S)
    if not (er <= TOL * sc):
        res.violation(f"C17|bloch_messiah|reconstruction|{cls}", f"{desc}: |ut1 st1 v1 - S| = {er:.3g}", case)
    if cls == "passive" and not (_err(O1, S) <= TOL and _err(D, I) <= TOL and _err(O2, I) <= TOL):
        res.violation("C17|bloch_messiah|passive-convention|passive", f"{desc}: for a passive S the documented result is (S, 1, 1)", case)


def _proportional(R, A):
    """R == c A with c > 0 ?  returns (c, residual)"""
    den = float(np.sum(np.abs(A) ** 2))
    c = complex(np.sum(np.conj(A) * R)) / den
    return c, _err(R, c * A)


def check_graph_embed(A, mean, res, case, traceless=False):
    """traceless=True: the documented option make_traceless - the matrix that is embedded is A - tr(A)/n * 1 (counted under stats
    only, so that the closed-form size of the enumeration stays the one of the plain calls)"""
    k = A.shape[0]
    if traceless:
        res.stats["calls:graph_embed(make_traceless=True)"] += 1
        A0, A = A, A - np.trace(A) * np.eye(k) / k
        cls = spectrum_class(np.linalg.svd(A, compute_uv=False))  # same classes as the plain calls: the degenerate complex ones hit the recorded takagi defect
    else:
        res.n += 1
        res.stats["calls:graph_embed"] += 1
        A0 = A
        cls = spectrum_class(np.linalg.svd(A, compute_uv=False)) if k > 1 else "simple"
    try:
        vals, U = dec.graph_embed(A0.copy(), mean_photon_per_mode=mean, **({"make_traceless": True} if traceless else {}))
    except Exception as e:
        res.violation(f"C17|graph_embed|raised-on-valid|{cls}", f"graph_embed(A, {mean}) raised {type(e).__name__}: {e} for the adjacency matrix A = {show(A)}", case)
        return
    vals, U = np.asarray(vals), np.asarray(U)
    desc = f"graph_embed({'A0, make_traceless=True, ' if traceless else 'A, '}mean_photon_per_mode={mean}), {'A0 = ' + show(A0) + ', A = A0 - tr(A0)/n = ' if traceless else 'A = '}{show(A)} ({cls}) returned r = {show(vals)}, U = {show(U)}"
    if vals.shape != (k,) or U.shape != (k, k) or np.iscomplexobj(vals) or not np.all(np.isfinite(vals)):
        res.violation(f"C17|graph_embed|structure|{cls}", f"{desc}: wrong shapes / non-real or non-finite squeezing", case)
        return
    eu = _err(U.conj().T @ U, np.eye(k))
    if not (eu <= TOL):
        res.violation(f"C17|graph_embed|not-unitary|{cls}", f"{desc}: |U^+ U - 1| = {eu:.3g}", case)
    tot = float(np.sum(np.sinh(vals) ** 2))
    if not (abs(tot - k * mean) <= MEAN_TOL * k * mean):
        res.violation(f"C17|graph_embed|mean-photon|{cls}", f"{desc}: sum sinh(r)^2 = {tot!r}, requested {k} x {mean}", case)
    c, er = _proportional(U @ np.diag(np.tanh(np.abs(vals))) @ U.T, A)
    if not (er <= TOL and abs(c.imag) <= TOL and c.real > 0):
        res.violation(f"C17|graph_embed|not-proportional|{cls}", f"{desc}: U diag(tanh|r|) U^T = {show(U @ np.diag(np.tanh(np.abs(vals))) @ U.T)} is not a positive multiple of A (best c = {c:.6g}, residual {er:.3g})", case)


def check_bipartite(A, mean, res, case):
    res.n += 1
    res.stats["calls:bipartite_graph_embed"] += 1
    k = A.shape[0]
    cls = ("symmetric-" if np.array_equal(A, A.T) else "nonsymmetric-") + (spectrum_class(np.linalg.svd(A, compute_uv=False)) if k > 1 else "simple")
    try:
        vals, U, V = dec.bipartite_graph_embed(A.copy(), mean_photon_per_mode=mean)
    except Exception as e:
        res.violation(f"C17|bipartite_graph_embed|raised-on-valid|{cls}", f"bipartite_graph_embed(A, {mean}) raised {type(e).__name__}: {e} for A = {show(A)}", case)
        return
    vals, U, V = np.asarray(vals), np.asarray(U), np.asarray(V)
    desc = f"bipartite_graph_embed(A, mean_photon_per_mode={mean}), A = {show(A)} ({cls}) returned r = {show(vals)}, U = {show(U)}, V = {show(V)}"
    if vals.shape != (k,) or U.shape != (k, k) or V.shape != (k, k) or np.iscomplexobj(vals) or not np.all(np.isfinite(vals)):
        res.violation(f"C17|bipartite_graph_embed|structure|{cls}", f"{desc}: wrong shapes / non-real or non-finite squeezing", case)
        return
    eu = max(_err(U.conj().T @ U, np.eye(k)), _err(V.conj().T @ V, np.eye(k)))
    if not (eu <= TOL):
        res.violation(f"C17|bipartite_graph_embed|not-unitary|{cls}", f"{desc}: unitarity defect {eu:.3g}", case)
    tot = float(np.sum(np.sinh(vals) ** 2))
    if not (abs(tot - k * mean) <= MEAN_TOL * k * mean):
        res.violation(f"C17|bipartite_graph_embed|mean-photon|{cls}", f"{desc}: sum_i sinh(r_i)^2 = {tot!r} (each two-mode squeezer puts sinh^2 r photons in each of its 2 modes), requested {k} x {mean}", case)
    c, er = _proportional(U @ np.diag(np.tanh(np.abs(vals))) @ V.T, A)
    if not (er <= TOL and abs(c.imag) <= TOL and c.real > 0):
        res.violation(f"C17|bipartite_graph_embed|not-proportional|{cls}", f"{desc}: U diag(tanh|r|) V^T is not a positive multiple of A (best c = {c:.6g}, residual {er:.3g})", case)


def call_routine(name, M, extra=None):
    if name in ("graph_embed", "bipartite_graph_embed"):
        return getattr(dec, name)(M, mean_photon_per_mode=(extra or {}).get("mean", 1.0))
    return getattr(dec, name)(M)


def check_invalid(name, kind, M, res, case, extra=None):
    res.n += 1
    res.stats[f"invalid:{kind}"] += 1
    try:
        out = call_routine(name, np.array(M, copy=True), extra)
    except Exception as e:
        res.stats[f"rejected-with:{type(e).__name__}"] += 1
        return
    res.violation(f"C17|{name}|accepted-invalid|{kind}", f"{name} accepted the invalid ({kind}) input {show(M)} of shape {np.asarray(M).shape} and returned {brief(out)}", case)


# ============================================================================= invalid input menus
def isometry(r, c):
    M = np.zeros((r, c), dtype=complex)
    for i in range(min(r, c)):
        M[i, i] = 1.0
    return M


def invalid_inputs(tier):
    """list of (routine, kind, matrix, extra)"""
    out = []
    quick = tier == "quick"
    # ---- meshes
    for name in MESHES:
        ks = (3, 4) if name == "sun_compact" else (2, 3, 4)
        for r, c in ((2, 3), (3, 2), (3, 4), (4, 3), (1, 2), (4, 5)):
            out.append((name, "non-square", isometry(r, c), None))
            out.append((name, "non-square", np.ones((r, c), dtype=complex) / math.sqrt(max(r, c)), None))
        for k in ks:
            bases = [np.eye(k, dtype=complex), dft(k), bT(0, 1, 0.3, 0.7, k) @ bT(k - 2, k - 1, math.pi / 4, 0, k) @ bP(0, math.pi / 2, k)]
            for B in bases:
                out.append((name, "non-unitary-by-1e-6", (1 + 1e-6) * B, None))
                for i in range(k):
                    for j in range(k):
                        E = B.copy()
                        E[i, j] += 1e-6
                        out.append((name, "non-unitary-by-1e-6", E, None))
            out.append((name, "non-unitary", np.zeros((k, k), dtype=complex), None))
            out.append((name, "non-unitary", np.ones((k, k), dtype=complex), None))
    # ---- takagi
    for r, c in ((2, 3), (3, 2), (1, 2)):
        out.append(("takagi", "non-square", np.ones((r, c), dtype=complex), None))
        out.append(("takagi", "non-square", np.zeros((r, c), dtype=complex), None))
    # (non-symmetric-by-1e-6 for takagi is enumerated over the whole alphabet family in the TAKINV tasks)
    # ---- symplectic seeds (word length <= 1)
    seeds = []
    for n in (1, 2):
        gens = symplectic_generators(n)
        seeds.append(np.eye(2 * n))
        seeds += [G for _, G in gens]
        if n == 2:
            seeds.append(gens[4][1] @ gens[6][1])  # squeezed + mixed
    for S in seeds:
        dim = S.shape[0]
        n = dim // 2
        for nu in WILLIAMSON_D[n]:
            D = np.diag(list(nu) * 2)
            V = S @ D @ S.T
            V = (V + V.T) / 2
            for i in range(dim):
                for j in range(i + 1, dim):
                    E = V.copy()
                    E[i, j] += 1e-6
                    out.append(("williamson", "non-symmetric-by-1e-6", E, None))
            out.append(("williamson", "non-positive", -V, None))
            for i in range(dim):
                Dm = D.copy()
                Dm[i, i] = -Dm[i, i]
                out.append(("williamson", "non-positive", S @ Dm @ S.T, None))
                if is_diag(S, 0.0):
                    # an exactly singular matrix is only representable when V stays exactly diagonal; for other S the zero
                    # eigenvalue becomes +-1e-17 in floating point and the input is no longer unambiguously invalid
                    Dz = D.copy()
                    Dz[i, i] = 0.0
                    out.append(("williamson", "non-positive", S @ Dz @ S.T, None))
            if quick:
                break
        for i in range(dim):
            for j in range(dim):
                E = S.copy()
                E[i, j] += 1e-6
                # adding 1e-6 to one entry can leave the matrix symplectic (shears): keep only the ones that are not
                if np.linalg.norm(E.T @ omega(n) @ E - omega(n)) > 1e-7:
                    out.append(("bloch_messiah", "non-symplectic-by-1e-6", E, None))
        out.append(("bloch_messiah", "non-symplectic", 2.0 * S, None))
        out.append(("bloch_messiah", "non-symplectic", (1 + 1e-6) * S, None))
        # orthogonal / symplectic-up-to-sign: reflection p_0 -> -p_0 (S^T Omega S has a sign flipped)
        Rf = np.eye(dim)
        Rf[n, n] = -1.0
        out.append(("bloch_messiah", "anti-symplectic-reflection", Rf @ S, None))
        out.append(("bloch_messiah", "non-symplectic", np.zeros((dim, dim)), None))
    for d in (1, 3, 5):
        out.append(("williamson", "odd-dimension", np.eye(d), None))
        out.append(("williamson", "odd-dimension", np.eye(d) + 0.25 * np.ones((d, d)), None))
        out.append(("bloch_messiah", "odd-dimension", np.eye(d), None))
        out.append(("bloch_messiah", "odd-dimension", np.diag([2.0] + [1.0] * (d - 1)), None))
    for r, c in ((2, 4), (4, 2), (2, 3), (1, 2)):
        out.append(("williamson", "non-square", np.ones((r, c)), None))
        out.append(("williamson", "non-square", isometry(r, c).real, None))
        out.append(("bloch_messiah", "non-square", np.ones((r, c)), None))
        out.append(("bloch_messiah", "non-square", isometry(r, c).real, None))
    out.append(("williamson", "non-positive", np.zeros((2, 2)), None))
    out.append(("williamson", "non-positive", np.zeros((4, 4)), None))
    out.append(("williamson", "non-positive", np.array([[1.0, 2.0], [2.0, 1.0]]), None))
    # ---- graphs
    for mean in MEANS:
        ex = {"mean": mean}
        for r, c in ((2, 3), (3, 2), (1, 2)):
            out.append(("graph_embed", "non-square", np.ones((r, c)), ex))
            out.append(("bipartite_graph_embed", "non-square", np.ones((r, c)), ex))
        for k in (1, 2, 3, 4):
            out.append(("graph_embed", "empty-graph", np.zeros((k, k)), ex))
            out.append(("bipartite_graph_embed", "empty-graph", np.zeros((k, k)), ex))
        # directed graphs: every non-symmetric 0/1 matrix with zero diagonal on <= 3 nodes, and every graph with one
        # missing entry replaced by 1e-6 (asymmetry outside both atol and rtol)
        for k in (2, 3):
            offs = [(i, j) for i in range(k) for j in range(k) if i != j]
            for bits in itertools.product((0.0, 1.0), repeat=len(offs)):
                A = np.zeros((k, k))
                for (i, j), b in zip(offs, bits):
                    A[i, j] = b
                if not np.array_equal(A, A.T):
                    out.append(("graph_embed", "non-symmetric", A, ex))
            for idx in range(1, 2 ** (k * (k - 1) // 2)):
                A = graph_from_index(k, idx)
                for i in range(k):
                    for j in range(i + 1, k):
                        if A[i, j] == 0:
                            E = A.copy()
                            E[i, j] = 1e-6
                            out.append(("graph_embed", "non-symmetric-by-1e-6", E, ex))
    for name, kind, M, _ in out:
        if not confirmed_invalid(name, kind, M):
            raise RuntimeError(f"harness bug: input listed as invalid ({kind}) for {name} is valid: {M!r}")
    return out


def confirmed_invalid(name, kind, M):
    """independent confirmation, with a wide margin over every documented tolerance, that the input breaks the
    documented precondition of the routine"""
    M = np.asarray(M)
    if M.ndim != 2 or M.shape[0] != M.shape[1]:
        return kind == "non-square"
    d = M.shape[0]
    if kind == "odd-dimension":
        return d % 2 == 1
    if kind in ("non-unitary-by-1e-6", "non-unitary"):
        return float(np.max(np.abs(M @ M.conj().T - np.eye(d)))) > 1e-7
    if kind in ("non-symmetric-by-1e-6", "non-symmetric"):
        return float(np.max(np.abs(M - M.T))) > 1e-7
    if kind in ("non-symplectic-by-1e-6", "non-symplectic", "anti-symplectic-reflection"):
        return float(np.linalg.norm(M.T @ omega(d // 2) @ M - omega(d // 2))) > 1e-7
    if kind == "non-positive":
        ev = float(np.min(np.linalg.eigvalsh((M + M.T) / 2)))
        return float(np.max(np.abs(M - M.T))) < 1e-12 and (ev < -1e-9 or (is_diag(M, 0.0) and float(np.min(np.diag(M))) <= 0))
    if kind == "empty-graph":
        return not M.any()
    return False


# ============================================================================= workers
def work(task):
    kind = task[0]
    res = Res()
    if kind == "U":
        for V, origin in task[1]:
            if not is_diag(V):
                res.nt += 1
            res.stats[f"unitary_class:{unitary_class(V)}"] += 1
            for name in MESHES:
                case = {"family": "mesh", "routine": name, "M": enc(V), "origin": origin}
                check_mesh(name, V, res, case)
    elif kind == "TAK":
        _, k, alphabet, variants, lo, hi = task
        noise = {"exact": 0.0, "asym-1e-14": noise_asym(k), "sym-1e-14": noise_sym(k), "sym-1e-12": noise_sym(k, 1e-12)}
        if not np.linalg.norm(noise["asym-1e-14"] - noise["asym-1e-14"].T) < 0.5e-13:
            raise RuntimeError("harness bug: asymmetric pattern exceeds half of takagi's documented tolerance 1e-13")
        for idx in range(lo, hi):
            A = sym_from_index(k, idx, alphabet)
            if not is_diag(A):
                res.nt += 1
            for variant in variants:
                N = A + noise[variant]
                case = {"family": "takagi", "routine": "takagi", "M": enc(N), "variant": variant, "origin": f"index {idx} of the symmetric {k}x{k} matrices over {alphabet}, variant {variant}"}
                check_takagi(N, variant, res, case)
    elif kind == "TAKINV":
        _, k, lo, hi = task
        for idx in range(lo, hi):
            A = sym_from_index(k, idx)
            for i in range(k):
                for j in range(i + 1, k):
                    E = A.copy()
                    E[i, j] += 1e-6
                    case = {"family": "invalid", "routine": "takagi", "kind": "non-symmetric-by-1e-6", "M": enc(E), "extra": None}
                    check_invalid("takagi", "non-symmetric-by-1e-6", E, res, case)
    elif kind == "SYM":
        for S, origin in task[1]:
            n = S.shape[0] // 2
            if not is_diag(S):
                res.nt += 1
            check_bloch(S, res, {"family": "bloch", "routine": "bloch_messiah", "M": enc(S), "origin": origin})
            for nu in WILLIAMSON_D[n]:
                V = S @ np.diag(list(nu) * 2) @ S.T
                V = (V + V.T) / 2
                if not is_diag(V):
                    res.nt += 1
                check_williamson(V, nu, res, {"family": "williamson", "routine": "williamson", "M": enc(V), "nu": list(nu), "origin": f"S D S^T, S = {origin}, D = diag{nu + nu}"})
    elif kind == "SYMB":
        # two-mode S = A . squeeze(r1, r2) . B with nearly equal squeezers, A and B passive orbit elements
        for A, wa, B, wb, (r1, r2) in task[1]:
            S = A @ sS(0, r1, 2) @ sS(1, r2, 2) @ B
            res.nt += 1
            check_bloch(S, res, {"family": "bloch", "routine": "bloch_messiah", "M": enc(S), "origin": f"({wa}) . S0({r1!r}) S1({r2!r}) . ({wb})"})
    elif kind == "GR":
        _, k, base, lo, hi = task
        for idx in range(lo, hi):
            A = graph_from_index(k, idx, base)
            res.nt += 1
            for mean in MEANS:
                check_graph_embed(A, mean, res, {"family": "graph", "routine": "graph_embed", "M": enc(A), "mean": mean, "origin": f"graph index {idx} on {k} nodes, edge weights {WEIGHTS[1:base]}"})
            if k >= 2:
                # the same graphs with self-loops (a loop on node 0; loops of weight 1/k .. 1 on all nodes), embedded with make_traceless
                for dname, D in (("loop on node 0", np.diag([1.0] + [0.0] * (k - 1))), ("loops of weight (i+1)/k", np.diag([(i + 1) / k for i in range(k)]))):
                    for mean in MEANS:
                        check_graph_embed(A + D, mean, res, {"family": "graph", "routine": "graph_embed", "traceless": True, "M": enc(A + D), "mean": mean, "origin": f"graph index {idx} on {k} nodes plus {dname}, make_traceless=True"}, traceless=True)
    elif kind == "BIP":
        _, k, base, lo, hi = task
        for idx in range(lo, hi):
            A = biadj_from_index(k, idx, base)
            if not is_diag(A):
                res.nt += 1
            for mean in MEANS:
                check_bipartite(A, mean, res, {"family": "bipartite", "routine": "bipartite_graph_embed", "M": enc(A), "mean": mean, "origin": f"biadjacency index {idx}, {k}x{k}, weights {WEIGHTS[1:base]}"})
    elif kind == "INV":
        for name, k2, M, extra in task[1]:
            check_invalid(name, k2, M, res, {"family": "invalid", "routine": name, "kind": k2, "M": enc(M), "extra": extra}, extra)
    else:
        raise KeyError(kind)
    return res


def chunks(seq, n):
    for i in range(0, len(seq), n):
        yield seq[i : i + n]


def ranges(total, step, lo=0):
    for a in range(lo, total, step):
        yield a, min(total, a + step)


# ============================================================================= driver
def run(ctx):
    quick = ctx.tier == "quick"
    u_depth = 4 if quick else 5
    s_depth = {1: 4, 2: 3, 3: 2} if quick else {1: 5, 2: 5, 3: 3}
    tak_k = (1, 2, 3)
    # (nodes, weight base): base 3 = edge weights {1, 1j} (contains every plain graph), base 2 = plain 0/1 graphs
    gr_kb = ((1, 3), (2, 3), (3, 3), (4, 3)) if quick else ((1, 3), (2, 3), (3, 3), (4, 3), (5, 3))
    bip_kb = ((1, 4), (2, 4), (3, 2)) if quick else ((1, 4), (2, 4), (3, 3), (4, 2))

    tasks = []
    states = transitions = validated = 0
    orbit_info = {}

    # ---- unitary orbit + permutations + DFT (deduplicated by canonical form)
    n_unitaries = 0
    sample_u = None
    for k in (1, 2, 3, 4):
        gens = unitary_generators(k)
        st, tr, levels = bfs_orbit(gens, k, u_depth, complex)
        states += len(st)
        transitions += tr
        orbit_info[f"unitary_k{k}"] = {"generators": [g for g, _ in gens], "word_length": u_depth, "states": len(st), "transitions": tr, "new_states_per_depth": levels}
        seen = {}
        for M, w in st:
            seen[ukey(M)] = (M, f"orbit k={k}: {word_str(gens, w)}")
        if k == 3:
            sample_u = next((M, w) for M, w in st if len(w) == 2 and unitary_class(M) == "exact-zeros")
        n_perm = n_perm_new = 0
        for M in signed_permutations(k):
            n_perm += 1
            if ukey(M) not in seen:
                n_perm_new += 1
                seen[ukey(M)] = (M, f"signed permutation k={k}")
            N = M + noise_asym(k) * (1 + 0.5j)
            seen[ukey(N) + b"noise" + ukey(M)] = (N, f"signed permutation k={k} + 1e-14 pattern")
        D = dft(k)
        if ukey(D) not in seen:
            seen[ukey(D)] = (D, f"DFT k={k}")
        # a beamsplitter embedded on every ordered pair of modes (adjacent or not), alone and followed by a second one on a
        # pair that is not adjacent: exact zeros in the patterns the nulling routines special-case
        emb = [(bT(i, j, th, phv, k), f"T{i}{j}({th:.3g},{phv})") for i in range(k) for j in range(k) if i != j for th, phv in ((math.pi / 4, 0.0), (0.3, 0.7))]
        n_emb = 0
        for G, name in emb:
            if ukey(G) not in seen:
                seen[ukey(G)] = (G, f"embedded pair k={k}: {name}")
                n_emb += 1
        for (G1, n1), (G2, n2) in itertools.product(emb, [e for e in emb if abs(int(e[1][1]) - int(e[1][2])) >= 2]):
            for M, nm in ((G2 @ G1, f"{n1} then {n2}"), (G1 @ G2, f"{n2} then {n1}")):
                if ukey(M) not in seen:
                    seen[ukey(M)] = (M, f"embedded pair product k={k}: {nm}")
                    n_emb += 1
        orbit_info[f"unitary_k{k}"]["embedded_pair_inputs"] = n_emb
        orbit_info[f"unitary_k{k}"].update({"signed_permutations": n_perm, "signed_permutations_not_in_orbit": n_perm_new, "perturbed_permutations": n_perm, "distinct_inputs": len(seen)})
        n_unitaries += len(seen)
        items = list(seen.values())
        for ch in chunks(items, 40):
            tasks.append(("U", ch))
    validated += n_unitaries

    # ---- symplectic orbit
    n_sympl = 0
    sample_s = None
    for n in (1, 2, 3):
        gens = symplectic_generators(n)
        st, tr, levels = bfs_orbit(gens, 2 * n, s_depth[n], float)
        for M, _ in st:
            if _err(M.T @ omega(n) @ M, omega(n)) > 1e-12 * _scale(M) ** 2:
                raise RuntimeError("orbit element is not symplectic: harness bug")
        states += len(st)
        transitions += tr
        n_sympl += len(st)
        orbit_info[f"symplectic_n{n}"] = {"generators": [g for g, _ in gens], "word_length": s_depth[n], "states": len(st), "transitions": tr, "new_states_per_depth": levels, "williamson_spectra": [list(x) for x in WILLIAMSON_D[n]]}
        if n == 2:
            sample_s = next((M, w) for M, w in st if len(w) == 2 and bloch_class(M) == "simple" and not is_diag(M))
        items = [(M, f"orbit n={n}: {word_str(gens, w)}") for M, w in st]
        for ch in chunks(items, 20):
            tasks.append(("SYM", ch))
    validated += n_sympl

    # ---- near-degenerate squeezers for bloch_messiah (documented: singular values are 'equal' when they agree after
    #      rounding to 9 decimals): A . S0(.4) S1(.4 + d) . B, A and B from the passive two-mode orbit
    pgens = [g for g in symplectic_generators(2) if not g[0].startswith("S")]
    pst, ptr, plevels = bfs_orbit(pgens, 4, 2 if quick else 3, float)
    states += len(pst)
    transitions += ptr
    # equal / equal below the rounding / equal above the rounding; passive below the documented tol 1e-10 / barely active
    squeezers = ((0.4, 0.4), (0.4, 0.4 + 1e-12), (0.4, 0.4 + 1e-8), (1e-12, 0.0), (1e-7, 0.0), (1e-7, 1e-7))
    orbit_info["passive_n2_for_near_degenerate_squeezers"] = {"generators": [g for g, _ in pgens], "word_length": 2 if quick else 3, "states": len(pst), "transitions": ptr, "new_states_per_depth": plevels, "squeezers_r1_r2": [list(x) for x in squeezers]}
    symb = [(A, word_str(pgens, wa), B, word_str(pgens, wb), rr) for A, wa in pst for B, wb in pst for rr in squeezers]
    n_symb = len(symb)
    for ch in chunks(symb, 150):
        tasks.append(("SYMB", ch))

    # ---- alphabet families
    n_tak = n_tak_calls = 0
    all_variants = tuple(TAKAGI_VARIANTS)
    tak_families = [(k, ALPHA, all_variants) for k in tak_k] + [(4, ALPHA3, ("exact",) if quick else all_variants)]
    for k, alphabet, variants in tak_families:
        total = len(alphabet) ** (k * (k + 1) // 2)
        n_tak += total
        n_tak_calls += total * len(variants)
        for a, b in ranges(total, 250 if len(variants) > 1 else 1000):
            tasks.append(("TAK", k, alphabet, variants, a, b))
    for k in tak_k:
        total = len(ALPHA) ** (k * (k + 1) // 2)
        if k <= 2 or not quick:
            for a, b in ranges(total, 1000):
                tasks.append(("TAKINV", k, a, b))
    n_tak_inv = sum(len(ALPHA) ** (k * (k + 1) // 2) * (k * (k - 1) // 2) for k in tak_k if k <= 2 or not quick)
    n_graphs = 0
    for k, base in gr_kb:
        total = base ** (k * (k - 1) // 2)
        n_graphs += total - 1
        for a, b in ranges(total, 256, lo=1):  # index 0 = empty graph: no scaling exists, goes to the invalid menu
            tasks.append(("GR", k, base, a, b))
    n_bip = 0
    for k, base in bip_kb:
        total = base ** (k * k)
        n_bip += total - 1
        for a, b in ranges(total, 256, lo=1):
            tasks.append(("BIP", k, base, a, b))
    inv = invalid_inputs(ctx.tier)
    for ch in chunks(inv, 100):
        tasks.append(("INV", ch))

    # longest tasks first
    order = {"U": 0, "SYM": 1, "SYMB": 2, "TAK": 3, "BIP": 4, "GR": 5, "TAKINV": 6, "INV": 7}
    tasks.sort(key=lambda t: order[t[0]])
    done = 0
    for r in ctx.pmap(work, tasks, chunksize=1, ordered=True):  # ordered: the recorded first case per signature is deterministic
        ctx.add(r)
        done += 1
        if ctx.time_left() < 0:
            ctx.close()
            ctx.cap_hit(f"time budget hit after {done} of {len(tasks)} work units")
            break

    n_sym_wil = sum(orbit_info[f"symplectic_n{n}"]["states"] * len(WILLIAMSON_D[n]) for n in (1, 2, 3))
    n_u_calls = n_unitaries * len(MESHES)
    expected = n_u_calls + n_tak_calls + n_tak_inv + n_sympl + n_symb + n_sym_wil + 2 * n_graphs + 2 * n_bip + len(inv)
    if ctx.exhaustive and ctx.n != expected:
        raise RuntimeError(f"evaluated {ctx.n} routine calls, the enumeration has {expected}")
    ctx.cov["states"] = states
    ctx.cov["transitions"] = transitions
    ctx.cov["traces_validated_against_impl"] = validated + n_tak_calls + n_symb + n_sym_wil + n_graphs * 2 + n_bip * 2
    ctx.cov["matrices_pushed_through_real_routines"] = {
        "unitaries (orbit + signed permutations + perturbed permutations + DFT) x 8 mesh routines": n_unitaries,
        "symplectic orbit elements -> bloch_messiah": n_sympl,
        "S D S^T -> williamson": n_sym_wil,
        "A . S0(r1) S1(r2) . B rounding/tolerance-boundary squeezers -> bloch_messiah": n_symb,
        "symmetric alphabet matrices x variants (exact, 2 patterns of 1e-14, 1 of 1e-12) -> takagi": n_tak_calls,
        "distinct symmetric alphabet matrices": n_tak,
        "graphs x 2 means -> graph_embed": 2 * n_graphs,
        "biadjacency matrices x 2 means -> bipartite_graph_embed": 2 * n_bip,
        "invalid inputs (all routines)": len(inv) + n_tak_inv,
    }
    ctx.cov["orbits"] = orbit_info
    ctx.cov["space_size_closed_form"] = expected
    ctx.cov["bounds"] = {
        "unitary_word_length": u_depth,
        "unitary_k": [1, 2, 3, 4],
        "symplectic_word_length_by_modes": s_depth,
        "takagi_families_(k, alphabet, variants)": [[k, [str(a) for a in al], list(v)] for k, al, v in tak_families],
        "graph_(nodes, weight_alphabet_size)": [list(x) for x in gr_kb],
        "biadjacency_(k, weight_alphabet_size)": [list(x) for x in bip_kb],
        "graph_weight_alphabet": [str(w) for w in WEIGHTS],
        "mean_photon_per_mode": list(MEANS),
        "tolerance": TOL,
    }
    ctx.cov["canonical_form"] = "matrix entries rounded to 1e-10 (real and imaginary parts), -0.0 normalised"

    # written-out examples
    if sample_u is not None:
        M, w = sample_u
        gens = unitary_generators(3)
        out, rec = run_mesh("rectangular", M)
        ctx.samples.append({"orbit_state": word_str(gens, w), "matrix": show(M), "routine": "rectangular", "tilist": [list(map(float, t)) for t in out[0]], "localV": show(out[1]), "tlist": [list(map(float, t)) for t in out[2]], "oracle": "Ti(tlist[0])..Ti(tlist[-1]) diag(localV) T(tilist[-1])..T(tilist[0]) == matrix", "max_entry_error": _err(rec, M)})
    if sample_s is not None:
        M, w = sample_s
        gens = symplectic_generators(2)
        try:
            O1, D, O2 = dec.bloch_messiah(M.copy())
            ctx.samples.append({"orbit_state": word_str(gens, w), "matrix": show(M), "routine": "bloch_messiah", "st1_diagonal": show(np.diag(D)), "oracle": "ut1 st1 v1 == S, ut1/v1 orthogonal symplectic, st1 = diag(s, 1/s)", "max_entry_error": _err(O1 @ D @ O2, M)})
        except Exception as e:  # reported by the workers already
            ctx.samples.append({"orbit_state": word_str(gens, w), "routine": "bloch_messiah", "raised": repr(e)})

    ctx.assumptions += [
        "reconstruction conventions (own builders): rectangular / rectangular_MZ: V = E^-1(tlist[0])..E^-1(tlist[-1]) diag(localV) E(tilist[-1])..E(tilist[0]); "
        "rectangular_phase_end / rectangular_symmetric: V = diag(localV) E(tlist[-1])..E(tlist[0]); triangular: V = T^-1(tlist[-1])..T^-1(tlist[0]) diag(localV); "
        "triangular_compact / rectangular_compact: phase shifters P and sMZIs M in the circuit order of FIG. 2 / FIG. 3+4, first element applied first; "
        "sun_compact: U = exp(i global_phase / n) * prod_k SU2_k in list order (matrix product order)",
        "triangular: the docstring calls the list entries 'T unitaries' with the diagonal 'applied at the beginning of circuit'; only the reading with "
        "INVERSE T elements reproduces V (stats triangular:literal-T-reading-*), so that reading is the one checked; the literal reading is what "
        "ops.Interferometer(mesh='triangular') implements (property C02)",
        "E = T(n, m, theta, phi) = BS(theta, 0) R_n(phi) for rectangular*, E = Mach-Zehnder(m, n, internal, external) = BS50 R_m(internal) BS50 R_m(external) for *_MZ / *_symmetric; the library rounds its own MZ matrix to 14 decimals, which is inside the 1e-9 tolerance",
        "valid-input tolerance: perturbations of 1e-14 per entry are inside every documented acceptance tolerance (takagi 1e-13 on |N - N^T|, meshes 1e-11 / 1e-12 on |VV^+ - 1|) and must therefore be decomposed to 1e-9",
        "williamson: the docstring prints V = S^T Db S, but the consumer (ops.Gaussian, documented 'V = S D S^T') and the whole library use V = S Db S^T; "
        "the latter is checked, the printed formula is tallied in stats williamson:docstring-formula-* (it fails for every non-trivial input: documentation defect)",
        "near-degenerate inputs (singular values closer than 1e-5 but further apart than the routine's documented rounding) are valid inputs and are held to the same 1e-9 accuracy",
        "williamson inputs are symmetrised ((V + V^T)/2) after forming S D S^T in floating point; symplectic spectra are known by construction",
        "graph_embed: the empty graph has no scaling that reaches a positive mean photon number and is treated as invalid (must raise); mean photon convention: sum_i sinh(r_i)^2 = n * mean_photon_per_mode, for bipartite_graph_embed with n = size of A and r_i the n two-mode squeezing parameters",
        "any exception type counts as rejection of an invalid input (types are tallied in stats rejected-with:*)",
    ]


# ============================================================================= replay
def replay(case):
    res = Res()
    M = decm(case["M"])
    fam = case["family"]
    if fam == "mesh":
        check_mesh(case["routine"], M, res, case)
    elif fam == "takagi":
        check_takagi(M, case.get("variant", "exact"), res, case)
    elif fam == "williamson":
        check_williamson(M, tuple(case["nu"]), res, case)
    elif fam == "bloch":
        check_bloch(M, res, case)
    elif fam == "graph":
        check_graph_embed(M, case["mean"], res, case, traceless=bool(case.get("traceless")))
    elif fam == "bipartite":
        check_bipartite(M, case["mean"], res, case)
    elif fam == "invalid":
        check_invalid(case["routine"], case["kind"], M, res, case, case.get("extra"))
    else:
        raise KeyError(fam)
    return [(s, w) for s, w, _ in res.viol]
