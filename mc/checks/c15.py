"""C15 - physical predictions are independent of the hbar convention.

Form S, differential in the configuration: every program up to length L over the letter alphabet (state
preparations incl. Gaussian(V, r) decomposed and native, dimensionless gates, position/momentum-unit gates Xgate,
Zgate, quadratic/controlled gates, cubic phase on Fock, measurement-based squeezing on bosonic, loss, post-selected
homodyne) on 2 modes is run at hbar in {0.5, 1, 3.7} and at the base hbar = 2 on every simulator, with dimensionful
parameters rescaled by the units their docstrings state.  Dimensionless results (Fock probabilities, photon
statistics, fidelities, parity) must be equal; quadrature means scale with sqrt(hbar/2), covariances with hbar/2,
the Wigner function on the rescaled grid with 2/hbar.  Querying a state must not change it at any hbar.
"""
import itertools
import warnings

import numpy as np

import strawberryfields as sf
from strawberryfields import ops

from mc.core.chooser import install_default
from mc.core.ctx import Res

install_default()

ID = "C15"
LEVEL = "exploration"
RULE = __doc__ + " Non-trivial: programs containing at least one operation with a dimensionful parameter."
PI = np.pi
HBARS = [0.5, 1.0, 3.7]
CUT = 8
V1 = np.array([[1.6, 0.3], [0.3, 0.9]])  # hbar = 2 units, single mode, mixed
V2 = np.diag([0.5, 2.0])  # pure, x-squeezed
R1 = np.array([0.4, -0.3])
XG = np.array([-0.9, 0.0, 0.6, 1.3])
PG = np.array([-0.5, 0.4, 1.1])


def s_of(h):
    return np.sqrt(h / 2.0)


# label -> (factory(h) -> op, arity, backends, dimensionful?)
G, B, F = "gaussian", "bosonic", "fock"
ALL = (G, B, F)
LET = {
    "Coh": (lambda h: ops.Coherent(0.3, 0.5), 1, ALL, False),
    "Sq": (lambda h: ops.Squeezed(0.25, 0.4), 1, ALL, False),
    "Th": (lambda h: ops.Thermal(0.3), 1, ALL, False),
    "Gauss(V1,r)": (lambda h: ops.Gaussian(V1 * h / 2, R1 * s_of(h)), 1, (G, B), True),
    "Gauss(V1,r,native)": (lambda h: ops.Gaussian(V1 * h / 2, R1 * s_of(h), decomp=False), 1, (G,), True),
    "Gauss(V2)": (lambda h: ops.Gaussian(V2 * h / 2), 1, (G, F), True),
    "D": (lambda h: ops.Dgate(0.3, 0.4), 1, ALL, False),
    "S": (lambda h: ops.Sgate(0.2, 0.3), 1, ALL, False),
    "R": (lambda h: ops.Rgate(0.7), 1, ALL, False),
    "BS": (lambda h: ops.BSgate(0.5, 0.3), 2, ALL, False),
    "X": (lambda h: ops.Xgate(0.4 * s_of(h)), 1, ALL, True),
    "Z": (lambda h: ops.Zgate(-0.3 * s_of(h)), 1, ALL, True),
    "X.H": (lambda h: ops.Xgate(0.4 * s_of(h)).H, 1, ALL, True),
    "P": (lambda h: ops.Pgate(0.3), 1, ALL, False),
    "CX": (lambda h: ops.CXgate(0.3), 2, ALL, False),
    "CZ": (lambda h: ops.CZgate(0.2), 2, ALL, False),
    "V": (lambda h: ops.Vgate(0.1 / s_of(h)), 1, (F,), True),
    "MS": (lambda h: ops.MSgate(0.3, 0.2, 1.2, 0.9, avg=True), 1, (B,), False),
    # single-shot measurement-based squeezing: the ancilla outcome is a quadrature value reported in units of sqrt(hbar)
    "MS(shot)": (lambda h: ops.MSgate(0.3, 0.2, 1.2, 0.9, avg=False), 1, (B,), True),
    "Loss": (lambda h: ops.LossChannel(0.6), 1, ALL, False),
    "MX(sel)": (lambda h: ops.MeasureHomodyne(0.0, select=0.3 * s_of(h)), 1, ALL, True),
    "MP(sel)": (lambda h: ops.MeasureHomodyne(PI / 2, select=-0.2 * s_of(h)), 1, (G, B), True),
    # the module-level shorthand objects: ONE instance shared by every program and every hbar of this process
    "MeasureX": (lambda h: ops.MeasureX, 1, ALL, True),
    "MeasureP": (lambda h: ops.MeasureP, 1, (G, B), True),
    # feed-forward of a sampled outcome (position units on both sides)
    "X(q0.par)": (lambda h: None, 2, (G, B), True),
}


def letters(backend):
    out = []
    for lab, (_, ar, bks, _) in LET.items():
        if backend in bks:
            for modes in itertools.permutations(range(2), ar):
                out.append((lab, modes))
    return out


def execute(backend, seq, h, n=2):
    old = sf.hbar
    sf.hbar = h
    try:
        prog = sf.Program(n)
        with warnings.catch_warnings():
            warnings.simplefilter("ignore")
            with prog.context as q:
                for lab, modes in seq:
                    if lab == "X(q0.par)":
                        ops.Xgate(q[modes[0]].par) | q[modes[1]]
                    else:
                        LET[lab][0](h) | tuple(q[m] for m in modes)
            eng = sf.Engine(backend, backend_options={"cutoff_dim": CUT} if backend == F else None)
            result = eng.run(prog)
            st = result.state
            out = observe(backend, st, h) if n == 2 else observe1(backend, st, h)
            # a state object carries the hbar it was computed with: reading it again after the global setting moved on must
            # give the same numbers (otherwise its quadrature results scale with a mixture of two conventions)
            sf.hbar = 2.0 if abs(h - 2.0) > 1e-9 else 0.7
            try:
                later = observe(backend, st, h) if n == 2 else observe1(backend, st, h)
            finally:
                sf.hbar = h
            moved = None
            for key, v in out.items():
                if key[0].startswith("__"):
                    continue
                a_, b_ = np.asarray(v, dtype=float), np.asarray(later.get(key), dtype=float)
                if a_.shape != b_.shape or (a_.size and np.max(np.abs(a_ - b_)) > 1e-9 * max(1.0, float(np.max(np.abs(a_))))):
                    moved = key
                    break
            smp = np.asarray(result.samples)
            if smp.size:
                out[("samples/s",)] = np.real(np.asarray(smp, dtype=complex)).ravel() / s_of(h)
            anc = getattr(result, "ancillae_samples", None)
            if anc:
                out[("ancillae_samples/s",)] = np.array([float(np.real(np.ravel(v)[0])) for k in sorted(anc) for v in anc[k]]) / s_of(h)
            # the same Program object (same operation objects) executed a second time on a fresh engine: same answers
            eng2 = sf.Engine(backend, backend_options={"cutoff_dim": CUT} if backend == F else None)
            result2 = eng2.run(prog)
            out2 = observe(backend, result2.state, h) if n == 2 else observe1(backend, result2.state, h)
            smp2 = np.asarray(result2.samples)
            if smp2.size:
                out2[("samples/s",)] = np.real(np.asarray(smp2, dtype=complex)).ravel() / s_of(h)
            anc2 = getattr(result2, "ancillae_samples", None)
            if anc2:
                out2[("ancillae_samples/s",)] = np.array([float(np.real(np.ravel(v)[0])) for k in sorted(anc2) for v in anc2[k]]) / s_of(h)
            # the ancilla outcome is drawn by the bosonic simulator's own sampler: it is only judged where a second execution
            # reproduces it (i.e. where the harness owns every draw that enters it)
            ka = ("ancillae_samples/s",)
            if ka in out and (ka not in out2 or np.shape(out[ka]) != np.shape(out2[ka]) or np.max(np.abs(out[ka] - out2[ka])) > 1e-9):
                out.pop(ka, None)
                out2.pop(ka, None)
                out[("__ancilla_not_reproducible__",)] = True
            diff = None
            for key, v in out.items():
                if key[0].startswith("__"):
                    continue
                a_, b_ = np.asarray(v, dtype=float), np.asarray(out2.get(key), dtype=float)
                if a_.shape != b_.shape or (a_.size and np.max(np.abs(a_ - b_)) > 1e-9 * max(1.0, float(np.max(np.abs(a_))))):
                    diff = key
                    break
            out[("__rerun__",)] = diff
            out[("__read_later__",)] = moved
    finally:
        sf.hbar = old
    return out


def observe(backend, st, h):
    """dimensionless observables as-is; dimensionful ones divided by their documented scaling so that they must be
    equal at every hbar"""
    s = s_of(h)
    O = {}
    kw = {} if backend == F else {"cutoff": 5}
    snap0 = snapshot(backend, st)
    for p in [(0, 0), (1, 0), (0, 1), (1, 1), (2, 0), (0, 2)]:
        O[("fock_prob", p)] = float(np.real(st.fock_prob(list(p), **kw)))
    for m in (0, 1):
        O[("mean_photon", m)] = np.array(st.mean_photon(m, **kw), dtype=float)
        for phi in (0.0, 0.4, PI / 2):
            mu, var = st.quad_expectation(m, phi)
            O[("quad_expectation/s,s^2", m, phi)] = np.array([np.real(mu) / s, np.real(var) / s**2])
        O[("wigner*s^2", m)] = np.array(st.wigner(m, XG * s, PG * s)) * s**2
        O[("parity", (m,))] = float(np.real(st.parity_expectation([m])))
    O[("parity", (0, 1))] = float(np.real(st.parity_expectation([0, 1])))
    O[("fidelity_vacuum",)] = float(np.real(st.fidelity_vacuum()))
    O[("fidelity_coherent",)] = float(np.real(st.fidelity_coherent([0.2 + 0.1j, -0.3j])))
    if hasattr(st, "purity"):  # Fock and bosonic states
        O[("purity",)] = float(np.real(st.purity()))
    if backend != B:
        O[("number_expectation", (0, 1))] = np.array(st.number_expectation([0, 1]), dtype=float)
        A = np.zeros((4, 4))
        A[0, 0] = A[2, 2] = 1.0
        A[0, 1] = A[1, 0] = 0.25
        O[("poly_quad/s^2",)] = float(np.real(st.poly_quad_expectation(A)[0])) / s**2
    if backend == G:
        O[("means/s",)] = np.array(st.means()) / s
        O[("cov/s^2",)] = np.array(st.cov()) / s**2
        O[("is_coherent",)] = [bool(st.is_coherent(m)) for m in (0, 1)]
        O[("is_squeezed",)] = [bool(st.is_squeezed(m)) for m in (0, 1)]
        O[("displacement",)] = np.array(st.displacement())
        O[("squeezing",)] = np.array(st.squeezing(), dtype=float)
        O[("reduced_gaussian/s",)] = np.array(st.reduced_gaussian([1])[0]) / s
    if backend == B:
        O[("means/s",)] = np.array(st.means()) / s
        O[("covs/s^2",)] = np.array(st.covs()) / s**2
    if backend == F:
        O[("all_fock_probs",)] = np.array(st.all_fock_probs())[:4, :4]
        O[("trace",)] = float(np.real(st.trace()))
    snap1 = snapshot(backend, st)
    O[("__mutated__",)] = any(a.shape != b.shape or (a.size and np.max(np.abs(a - b)) > 0) for a, b in zip(snap0, snap1))
    return O


def observe1(backend, st, h):
    """single-mode register (several state methods special-case it)"""
    s = s_of(h)
    O = {}
    kw = {} if backend == F else {"cutoff": 5}
    snap0 = snapshot(backend, st)
    for p in [(0,), (1,), (2,)]:
        O[("fock_prob", p)] = float(np.real(st.fock_prob(list(p), **kw)))
    O[("mean_photon", 0)] = np.array(st.mean_photon(0, **kw), dtype=float)
    for phi in (0.0, 0.4, PI / 2):
        mu, var = st.quad_expectation(0, phi)
        O[("quad_expectation/s,s^2", 0, phi)] = np.array([np.real(mu) / s, np.real(var) / s**2])
    O[("wigner*s^2", 0)] = np.array(st.wigner(0, XG * s, PG * s)) * s**2
    O[("parity", (0,))] = float(np.real(st.parity_expectation([0])))
    O[("fidelity_vacuum",)] = float(np.real(st.fidelity_vacuum()))
    O[("fidelity_coherent",)] = float(np.real(st.fidelity_coherent([0.2 + 0.1j])))
    if hasattr(st, "purity"):  # Fock and bosonic states
        O[("purity",)] = float(np.real(st.purity()))
    if backend == G:
        O[("is_coherent",)] = [bool(st.is_coherent(0))]
        O[("is_squeezed",)] = [bool(st.is_squeezed(0))]
        O[("displacement",)] = np.array(st.displacement())
        O[("squeezing",)] = np.array(st.squeezing(), dtype=float)
        O[("means/s",)] = np.array(st.means()) / s
        O[("cov/s^2",)] = np.array(st.cov()) / s**2
        # asked a second time: must give the same answers
        O[("is_squeezed-again",)] = [bool(st.is_squeezed(0))]
        O[("squeezing-again",)] = np.array(st.squeezing(), dtype=float)
        O[("cov-again/s^2",)] = np.array(st.cov()) / s**2
    snap1 = snapshot(backend, st)
    O[("__mutated__",)] = any(a.shape != b.shape or (a.size and np.max(np.abs(a - b)) > 0) for a, b in zip(snap0, snap1))
    return O


def snapshot(backend, st):
    if backend == G:
        return [np.array(st.means()).copy(), np.array(st.cov()).copy()]
    if backend == B:
        return [np.array(st.means()).copy(), np.array(st.covs()).copy(), np.array(st.weights()).copy()]
    return [np.array(st.data).copy()]


def fmt(seq):
    return " ; ".join(f"{l}{list(m)}" for l, m in seq)


def check(backend, seq, res, n=2):
    case = {"backend": backend, "seq": [[l, list(m)] for l, m in seq], "n": n}
    try:
        base = execute(backend, seq, 2.0, n)
    except Exception as e:
        res.stats["rejected_at_base_hbar"] += 1
        return False
    if base[("__mutated__",)]:
        res.violation(f"C15|query-mutates-state|{backend}|hbar=2", f"querying the state of [{fmt(seq)}] changed its data at hbar = 2", dict(case, hbar=2.0))
    dim = [l for l, _ in seq if LET[l][3]]
    for h in HBARS:
        res.n += 1
        try:
            got = execute(backend, seq, h, n)
        except Exception as e:
            res.violation(f"C15|raises|{backend}|{'+'.join(sorted(set(dim))) or 'dimensionless'}", f"[{fmt(seq)}] runs at hbar = 2 but raised {type(e).__name__}: {e} at hbar = {h}", dict(case, hbar=h))
            continue
        if got[("__mutated__",)]:
            res.violation(f"C15|query-mutates-state|{backend}", f"querying the state of [{fmt(seq)}] changed its data at hbar = {h}", dict(case, hbar=h))
        if got.get(("__read_later__",)) is not None:
            res.violation(f"C15|read-after-hbar-change|{got[('__read_later__',)][0]}|{backend}", f"[{fmt(seq)}] on {backend}, computed at hbar = {h}: {got[('__read_later__',)]} of the returned state changes when it is read after sf.hbar was set to another value", dict(case, hbar=h))
        if got.get(("__rerun__",)) is not None:
            res.violation(f"C15|second-execution-differs|{backend}|{'+'.join(sorted(set(dim))) or 'dimensionless'}", f"[{fmt(seq)}] on {backend} at hbar = {h}: executing the same Program object a second time on a fresh engine changes {got[('__rerun__',)]}", dict(case, hbar=h))
        for key, b in base.items():
            if key[0].startswith("__"):
                continue
            if key not in got:
                res.stats["observable_not_reproducible_at_one_hbar"] += 1  # (unowned ancilla sampling)
                continue
            a = got[key]
            a_, b_ = np.asarray(a, dtype=float), np.asarray(b, dtype=float)
            scale = max(1.0, float(np.max(np.abs(b_))) if b_.size else 1.0)
            tol = 1e-8 if backend != F else 1e-7
            if key[0] in ("wigner*s^2",) and backend == F:
                tol = 1e-5
            if a_.shape != b_.shape or (a_.size and np.max(np.abs(a_ - b_)) > tol * scale):
                culprit = "+".join(sorted(set(minimal_dim(backend, seq, key, h, n)))) or "dimensionless"
                res.violation(f"C15|{key[0]}|{backend}|{culprit}", f"[{fmt(seq)}] on {backend}: {key} at hbar = {h} (rescaled) is {np.round(a_.ravel()[:4], 6).tolist()}, at hbar = 2 it is {np.round(b_.ravel()[:4], 6).tolist()}", dict(case, hbar=h, key=repr(key)))
                break
    return bool(dim)


def minimal_dim(backend, seq, key, h, n=2):
    """operation labels of the shortest suffix-free sub-program that still shows the discrepancy (signature basis)"""
    seq = list(seq)
    changed = True
    while changed and len(seq) > 1:
        changed = False
        for i in range(len(seq)):
            cand = seq[:i] + seq[i + 1 :]
            try:
                a, b = execute(backend, cand, h, n)[key], execute(backend, cand, 2.0, n)[key]
            except Exception:
                continue
            a_, b_ = np.asarray(a, dtype=float), np.asarray(b, dtype=float)
            if a_.shape != b_.shape or (a_.size and np.max(np.abs(a_ - b_)) > 1e-6 * max(1.0, float(np.max(np.abs(b_))))):
                seq, changed = cand, True
                break
    return [l for l, _ in seq]


def work(task):
    backend, prefix, L = task
    res = Res()
    if prefix == "one-mode":
        alpha = [(l, m) for l, m in letters(backend) if m == (0,)]
        for k in range(1, L + 1):
            for seq in itertools.product(alpha, repeat=k):
                if check(backend, seq, res, n=1):
                    res.nt += 1
        return res
    alpha = letters(backend)
    for k in range(0, L - len(prefix) + 1):
        for tail in itertools.product(alpha, repeat=k):
            seq = tuple(prefix) + tail
            if check(backend, seq, res):
                res.nt += 1
                res.sample({"backend": backend, "program": fmt(seq), "hbars": HBARS}, cap=1)
    return res


def run(ctx):
    quick = ctx.tier == "quick"
    tasks = []
    for backend in ALL:
        L = 2 if (quick or backend == F) else 3
        if not quick and backend == F:
            L = 2
        for a in letters(backend):
            tasks.append((backend, (a,), L))
        tasks.append((backend, "one-mode", 2 if quick else 3))
    for r in ctx.pmap(work, tasks):
        ctx.add(r)
        if ctx.time_left() < 0:
            ctx.close()
            ctx.cap_hit("time budget hit")
            break
    ctx.cov["hbars"] = [2.0] + HBARS
    ctx.assumptions += [
        "unit conventions transcribed from the docstrings: Xgate/Zgate/MeasureHomodyne(select) in units of sqrt(hbar), Gaussian V in units of hbar and r in sqrt(hbar), Vgate gamma in 1/sqrt(hbar); all other parameters dimensionless",
        "hbar in {0.5, 1, 2, 3.7}; sf.hbar is set and restored by the harness around each execution",
    ]


def replay(case):
    res = Res()
    seq = tuple((l, tuple(m)) for l, m in case["seq"])
    check(case["backend"], seq, res, case.get("n", 2))
    return [(s, w) for s, w, _ in res.viol]
