"""C06 - measurements sample the Born distribution and condition the rest correctly.

Form E x N.  Pre-measurement states: every state reached by <= 2 operations of a Gaussian alphabet on 2 and 3 modes
(displaced, squeezed, entangled, mixed), deduplicated.  Measurements: homodyne at 5 angles (sampled and
post-selected on 3 values), heterodyne (sampled / post-selected), photon counting and threshold detection on every
ordered subset of modes, on the Gaussian, bosonic and Fock simulators.  The random source is owned by a chooser:
every draw records its arguments (= the distribution the code asked for) and is answered from a finite menu; all
answers are followed.  Oracles: (i) requested distribution == Born distribution of the reference state,
(ii) post-state == reference conditional state for the answered outcome, measured modes in vacuum, (iii) the same
post-selected value gives the same conditional state on all simulators, (iv) samples are reported per shot with
columns in ascending mode order.
"""
import itertools
import math
import warnings

import numpy as np

import strawberryfields as sf
from strawberryfields import ops
from strawberryfields.program_utils import RegRef

from mc.checks import physics
from mc.core.chooser import Chooser, default_menu
from mc.core.ctx import Res
from mc.ref import fockref as fr, phase as ph

ID = "C06"
LEVEL = "model_checking"
RULE = __doc__
PI = np.pi
PHIS = [0.0, PI / 2, 0.4, PI, -1.1]
SELS = [0.0, 0.3, -0.5]
HSELS = [0.0, 0.3 - 0.5j]
EPS = 2e-4
CUT = 10
COMMON = ["Vac", "Coh(.3,.5)", "Sq(.25,.4)", "Th(.3)", "D(.3,.4)", "S(.25,.3)", "R(.7)", "BS(.5,.3)", "BS(.5,.3).H", "S2(.2,.5)", "Loss(.6)"]
CUT3 = 5
SMALL3 = ["Coh(.3,.5)", "Th(.3)", "BS(.5,.3)", "S2(.2,.5)"]
SMALL = ["Coh(.3,.5)", "Sq(.25,.4)", "Th(.3)", "D(.3,.4)", "R(.7)", "BS(.5,.3)", "S2(.2,.5)", "Loss(.6)"]


def pool(n, labels, depth):
    evs = [(l, m) for l in labels for m in itertools.permutations(range(n), physics.EVENTS[l[:-2] if l.endswith(".H") else l][1])]
    seen, out = set(), []
    for k in range(0, depth + 1):
        for hist in itertools.product(evs, repeat=k):
            ref = ph.GState(n)
            for lab, modes in hist:
                from mc.ref import opsem

                opsem.apply_gaussian(physics.make_op(lab, 0), list(modes), ref)
            key = (np.round(ref.mu, 8) + 0.0).tobytes() + (np.round(ref.V, 8) + 0.0).tobytes()
            if key not in seen:
                seen.add(key)
                out.append(hist)
    return out


def make_state(kind, n, hist, c=CUT):
    b = physics.new_backend(kind, n, c)
    for lab, modes in hist:
        physics.apply_impl(b, kind, physics.make_op(lab, c), modes)
    return b


def ref_state(n, hist):
    from mc.ref import opsem

    ref = ph.GState(n)
    for lab, modes in hist:
        opsem.apply_gaussian(physics.make_op(lab, 0), list(modes), ref)
    return ref


def obs_gauss(kind, b, n):
    o = physics.Obs(b, kind, n, CUT)
    return o.mu, o.V


def apply_meas(b, op, modes, **kw):
    with warnings.catch_warnings():
        warnings.simplefilter("ignore")
        return op.apply([RegRef(m) for m in modes], b, **kw)


def htag(hist):
    return [l + str(list(m)) for l, m in hist]


# ----------------------------------------------------------------------------- phase-space simulators: homodyne / heterodyne
def menu_dyne(fn, a):
    if fn == "multivariate_normal":
        m = np.asarray(a["mean"], dtype=float)
        cov = np.asarray(a["cov"], dtype=float)
        sd = np.sqrt(max(cov[0, 0], 0.0))
        cands = [m.copy(), m + np.array([sd] + [0.0] * (len(m) - 1)), np.array([0.37] + [0.1] * (len(m) - 1))]
        sh = a["size"]
        if sh is None:
            return cands
        k = sh if np.isscalar(sh) else sh[0]
        return [np.tile(c, (k, 1)) for c in cands]
    if fn == "choice" and a["p"] is not None:
        arr = np.arange(a["a"]) if np.isscalar(a["a"]) else np.asarray(a["a"])
        return [np.array([arr[int(np.argmax(a["p"]))]]) if a["size"] is not None else arr[int(np.argmax(a["p"]))]]
    if fn in ("random", "uniform"):
        return [1e-9 if a["size"] is None else np.full(a["size"], 1e-9)]  # always accept in rejection samplers
    return default_menu(fn, a)


def dfs(run_once):
    """stateless DFS with replay over every chooser answer"""
    stack = [[]]
    while stack:
        prefix = stack.pop()
        ch = Chooser(prefix, menu_dyne)
        with ch:
            out = run_once()
        yield ch, out
        for i in range(len(prefix), len(ch.draws)):
            for alt in range(1, len(ch.draws[i].menu)):
                stack.append([d.chosen for d in ch.draws[:i]] + [alt])


def check_dyne(kind, n, hist, res):
    """homodyne and heterodyne on a phase-space simulator (gaussian or bosonic)"""
    ref0 = ref_state(n, hist)
    for mode in range(n):
        # ---- homodyne, sampled ----------------------------------------------------------------
        for phi in PHIS:
            case = {"kind": kind, "n": n, "hist": [[l, list(m)] for l, m in hist], "meas": "homodyne", "phi": phi, "mode": mode}

            def once():
                b = make_state(kind, n, hist)
                val = apply_meas(b, ops.MeasureHomodyne(phi), [mode])
                return b, val

            for ch, (b, val) in dfs(once):
                res.n += 1
                draws = [d for d in ch.draws if d.fn == "multivariate_normal"]
                if len(draws) != 1:
                    res.stats["unrecognised_sampling_structure"] += 1  # another way of sampling: the distribution oracle does not apply
                    continue
                d = draws[0]
                m_ref, v_ref = ref0.homodyne_dist(mode, phi)
                if abs(d.args["mean"][0] - m_ref) > 1e-8 or abs(d.args["cov"][0, 0] - (v_ref + EPS**2)) > 1e-8 * max(1, v_ref):
                    res.violation(f"C06|homodyne|born-distribution|{kind}", f"homodyne(phi={phi:.3g}) on mode {mode} of {htag(hist)}: sampled from N({d.args['mean'][0]:.6g}, {d.args['cov'][0, 0]:.6g}), Born rule gives N({m_ref:.6g}, {v_ref:.6g} + eps^2)", case)
                    continue
                ans = np.asarray(d.menu[d.chosen]).reshape(-1)
                x = float(ans[0])
                if abs(float(np.ravel(val)[0]) - x) > 1e-9:
                    res.violation(f"C06|homodyne|returned-value|{kind}", f"homodyne drew {x} but returned {val}", case)
                post = ref0.copy().condition_homodyne(mode, phi, x)
                mu, V = obs_gauss(kind, b, n)
                # the simulator projects on a finitely squeezed state: agreement to O(eps^2 * 1e3)
                dd = max(np.max(np.abs(mu - post.mu)), np.max(np.abs(V - post.V)))
                if dd > 1e-5:
                    res.violation(f"C06|homodyne|conditional-state|sampled|{kind}", f"homodyne(phi={phi:.3g}) on mode {mode} of {htag(hist)} with outcome {x:.4g}: post-state differs from the reference conditional state by {dd:.3g}", dict(case, answers=[dd_.chosen for dd_ in ch.draws]))
        # ---- homodyne, post-selected ------------------------------------------------------------
        for phi in PHIS[:3]:
            for sel in SELS:
                res.n += 1
                case = {"kind": kind, "n": n, "hist": [[l, list(m)] for l, m in hist], "meas": "homodyne-select", "phi": phi, "mode": mode, "select": sel}
                with Chooser((), menu_dyne):
                    b = make_state(kind, n, hist)
                    val = apply_meas(b, ops.MeasureHomodyne(phi, select=sel), [mode])
                post = ref0.copy().condition_homodyne(mode, phi, sel)  # hbar = 2: units coincide
                mu, V = obs_gauss(kind, b, n)
                dd = max(np.max(np.abs(mu - post.mu)), np.max(np.abs(V - post.V)))
                if dd > 1e-5:
                    res.violation(f"C06|homodyne|conditional-state|select|{kind}", f"homodyne(phi={phi:.3g}, select={sel}) on mode {mode} of {htag(hist)}: post-state differs from the reference conditional state by {dd:.3g}", case)
                if abs(complex(np.ravel(val)[0]) - sel) > 1e-12:
                    res.violation(f"C06|homodyne|returned-value|select|{kind}", f"post-selected {sel}, returned {val}", case)
        # ---- heterodyne --------------------------------------------------------------------------------
        case = {"kind": kind, "n": n, "hist": [[l, list(m)] for l, m in hist], "meas": "heterodyne", "mode": mode}

        def once_h():
            b = make_state(kind, n, hist)
            val = apply_meas(b, ops.MeasureHeterodyne(), [mode])
            return b, val

        for ch, (b, val) in dfs(once_h):
            res.n += 1
            draws = [d for d in ch.draws if d.fn == "multivariate_normal"]
            if len(draws) != 1:
                res.stats["unrecognised_sampling_structure"] += 1  # another way of sampling: the distribution oracle does not apply
                continue
            d = draws[0]
            mu_m, V_m = ref0.reduced([mode])
            if np.max(np.abs(d.args["mean"] - mu_m)) > 1e-8 or np.max(np.abs(d.args["cov"] - (V_m + np.eye(2)))) > 1e-8:
                res.violation(f"C06|heterodyne|born-distribution|{kind}", f"heterodyne on mode {mode} of {htag(hist)}: sampled (x,p) from mean {d.args['mean']}, cov {d.args['cov'].tolist()}; the Husimi distribution has mean {mu_m}, cov V + 1", case)
                continue
            ans = np.asarray(d.menu[d.chosen]).reshape(-1)
            alpha = (ans[0] + 1j * ans[1]) / 2
            if abs(complex(np.ravel(val)[0]) - alpha) > 1e-9:
                res.violation(f"C06|heterodyne|returned-value|{kind}", f"heterodyne drew (x,p)={ans} but returned {val}", case)
            post = ref0.copy().condition_heterodyne(mode, alpha)
            mu, V = obs_gauss(kind, b, n)
            dd = max(np.max(np.abs(mu - post.mu)), np.max(np.abs(V - post.V)))
            if dd > 1e-8:
                res.violation(f"C06|heterodyne|conditional-state|sampled|{kind}", f"heterodyne on mode {mode} of {htag(hist)} with outcome {alpha:.4g}: post-state differs from the reference conditional state by {dd:.3g}", dict(case, answers=[dd_.chosen for dd_ in ch.draws]))
        for sel in HSELS:
            res.n += 1
            case = {"kind": kind, "n": n, "hist": [[l, list(m)] for l, m in hist], "meas": "heterodyne-select", "mode": mode, "select": [sel.real, sel.imag]}
            b = make_state(kind, n, hist)
            apply_meas(b, ops.MeasureHeterodyne(select=sel), [mode])
            post = ref0.copy().condition_heterodyne(mode, sel)
            mu, V = obs_gauss(kind, b, n)
            dd = max(np.max(np.abs(mu - post.mu)), np.max(np.abs(V - post.V)))
            if dd > 1e-8:
                res.violation(f"C06|heterodyne|conditional-state|select|{kind}", f"heterodyne(select={sel}) on mode {mode} of {htag(hist)}: post-state differs from the reference conditional state by {dd:.3g}", case)


# ----------------------------------------------------------------------------- photon counting / threshold on the Gaussian simulator
def check_gauss_counting(n, hist, res):
    import strawberryfields.backends.gaussianbackend.backend as gb

    ref0 = ref_state(n, hist)
    for k in range(1, n + 1):
        for modes in itertools.permutations(range(n), k):
            for which in ("fock", "threshold"):
                res.n += 1
                case = {"kind": "gaussian", "n": n, "hist": [[l, list(m)] for l, m in hist], "meas": which, "modes": list(modes)}
                rec = {}

                def fake_haf(cov, samples, mean=None, **kw):
                    rec["cov"], rec["mean"], rec["shots"] = np.array(cov), None if mean is None else np.array(mean), samples
                    return np.array([[10 + j for j in range(cov.shape[0] // 2)]] * samples)

                def fake_tor(cov, samples, mu=None, **kw):
                    rec["cov"], rec["mean"], rec["shots"] = np.array(cov), None if mu is None else np.array(mu), samples
                    return np.array([[10 + j for j in range(cov.shape[0] // 2)]] * samples)

                sh, st = gb.hafnian_sample_state, gb.torontonian_sample_state
                gb.hafnian_sample_state, gb.torontonian_sample_state = fake_haf, fake_tor
                try:
                    b = make_state("gaussian", n, hist)
                    op = ops.MeasureFock() if which == "fock" else ops.MeasureThreshold()
                    val = apply_meas(b, op, list(modes), shots=2)
                finally:
                    gb.hafnian_sample_state, gb.torontonian_sample_state = sh, st
                mu_r, V_r = ref0.reduced(list(modes))
                if "cov" not in rec:
                    res.stats["unrecognised_sampling_structure"] += 1  # the simulator did not call the samplers the harness owns
                    continue
                if np.max(np.abs(rec["cov"] - V_r)) > 1e-8 or (rec["mean"] is not None and np.max(np.abs(rec["mean"] - mu_r)) > 1e-8) or (rec["mean"] is None and np.max(np.abs(mu_r)) > 1e-8):
                    res.violation(f"C06|{which}|born-distribution|gaussian", f"{which} measurement of modes {list(modes)} of {htag(hist)}: the sampler was given a state that is not the reduced state of those modes", case)
                elif np.array(val).shape != (2, k) or list(np.array(val)[0]) != [10 + j for j in range(k)]:
                    res.violation(f"C06|{which}|sample-routing|gaussian", f"{which} on modes {list(modes)}: sampler answered column j with 10+j, backend returned {np.array(val).tolist()}", case)


# ----------------------------------------------------------------------------- threshold detection on the bosonic simulator
def moments(weights, means, covs):
    """first and second moments of a weighted sum of Gaussians"""
    w = np.asarray(weights)
    m = np.einsum("i,ij->j", w, means)
    S = np.einsum("i,ijk->jk", w, covs) + np.einsum("i,ij,ik->jk", w, means, means)
    return np.real_if_close(w.sum()), m, S


def check_bosonic_threshold(n, hist, res):
    ref0 = ref_state(n, hist)
    ix = physics.xpxp_to_xxpp_idx(n)
    for mode in range(n):
        case = {"kind": "bosonic", "n": n, "hist": [[l, list(m)] for l, m in hist], "meas": "threshold", "mode": mode}
        mu_m, V_m = ref0.reduced([mode])
        Q = V_m + np.eye(2)
        p0 = 2.0 / math.sqrt(np.linalg.det(Q)) * math.exp(-0.5 * mu_m @ np.linalg.solve(Q, mu_m))  # <0|rho|0>, hbar = 2

        def menu(fn, a):
            if fn == "choice" and a["p"] is not None:
                return [0, 1]
            return default_menu(fn, a)

        for answer in (0, 1):
            res.n += 1
            ch = Chooser([answer], menu)
            with ch:
                b = make_state("bosonic", n, hist)
                try:
                    val = apply_meas(b, ops.MeasureThreshold(), [mode])
                except Exception as e:  # noqa: BLE001
                    res.violation(f"C06|threshold|raises|{type(e).__name__}|bosonic", f"threshold detection of mode {mode} of {htag(hist)} raised {e!r}", case)
                    continue
            d = [x for x in ch.draws if x.fn == "choice"]
            if len(d) != 1:
                res.stats["unrecognised_sampling_structure"] += 1  # another way of sampling: the distribution oracle does not apply
                continue
            p = np.asarray(d[0].args["p"], dtype=float)
            if p.shape != (2,) or abs(p[0] - p0) > 1e-8 or abs(p[1] - (1 - p0)) > 1e-8:
                res.violation("C06|threshold|born-distribution|bosonic", f"threshold detection of mode {mode} of {htag(hist)}: no-click/click asked with probabilities {p.tolist()}, Born rule gives [{p0:.8g}, {1 - p0:.8g}]", case)
                continue
            if int(np.ravel(val)[0]) != answer:
                res.violation("C06|threshold|returned-value|bosonic", f"threshold detection drew {answer}, returned {val}", case)
            # reference post-states: no click = projection on vacuum; click = (rho_traced - p0 rho_noclick) / (1 - p0)
            noclick = ref0.copy().condition_heterodyne(mode, 0.0)
            traced = ref0.copy()
            traced.loss(0.0, mode)
            if answer == 0:
                w_r, m_r, S_r = moments([1.0], np.array([noclick.mu]), np.array([noclick.V]))
            else:
                if 1 - p0 < 1e-9:
                    continue
                w_r, m_r, S_r = moments([1 / (1 - p0), -p0 / (1 - p0)], np.array([traced.mu, noclick.mu]), np.array([traced.V, noclick.V]))
            with warnings.catch_warnings():
                warnings.simplefilter("ignore")
                st = b.state()
            w_g, m_g, S_g = moments(np.array(st.weights()), np.array(st.means())[:, ix], np.array(st.covs())[:, ix][:, :, ix])
            dd = max(abs(w_g - w_r), np.max(np.abs(m_g - m_r)), np.max(np.abs(S_g - S_r)))
            if dd > 1e-7:
                res.violation(f"C06|threshold|conditional-state|{'click' if answer else 'no-click'}|bosonic", f"threshold detection of mode {mode} of {htag(hist)} with outcome {answer}: total weight / first / second moments of the post-state differ from the reference conditional state by {dd:.3g}", dict(case, answer=answer))


# ----------------------------------------------------------------------------- Fock simulator
def hermite_fn(x, c, hbar=2.0):
    """<n|x> for n < c"""
    y = x / math.sqrt(hbar)
    out = np.zeros(c)
    out[0] = (1 / (math.pi * hbar)) ** 0.25 * math.exp(-y * y / 2)
    if c > 1:
        out[1] = math.sqrt(2) * y * out[0]
    for k in range(2, c):
        out[k] = math.sqrt(2 / k) * y * out[k - 1] - math.sqrt((k - 1) / k) * out[k - 2]
    return out


def check_fock(n, hist, pure, res, c=CUT):
    kind = "fock_pure" if pure else "fock_mixed"
    b0 = make_state(kind, n, hist, c)
    rho0 = physics.Obs(b0, kind, n, c).rho
    f0 = fr.FState(n, c, rho0 / np.trace(rho0).real)
    # photon counting: every ordered subset, every outcome of the menu
    for k in range(1, n + 1):
        for modes in itertools.permutations(range(n), k):
            case = {"kind": kind, "n": n, "hist": [[l, list(m)] for l, m in hist], "meas": "fock", "modes": list(modes)}
            asc = sorted(modes)
            probs_ref = np.diag(f0.reduced(asc)).real

            def menu(fn, a):
                if fn == "choice" and a["p"] is not None:
                    p = np.asarray(a["p"])
                    idx = [i for i in range(len(p)) if p[i] > 1e-6 and sum(np.unravel_index(i, [c] * k)) <= 2]
                    return [i for i in idx] or [int(np.argmax(p))]
                return default_menu(fn, a)

            stack = [[]]
            while stack:
                prefix = stack.pop()
                ch = Chooser(prefix, menu)
                err = None
                with ch:
                    b = make_state(kind, n, hist, c)
                    try:
                        val = apply_meas(b, ops.MeasureFock(), list(modes))
                    except Exception as e:  # noqa: BLE001
                        err = e
                if err is not None:
                    res.n += 1
                    res.violation(f"C06|fock|raises|{type(err).__name__}|{kind}", f"photon counting of modes {list(modes)} of {htag(hist)} raised {err!r} (chooser answers {[x.chosen for x in ch.draws]})", dict(case, answers=[x.chosen for x in ch.draws]))
                    continue
                for i in range(len(prefix), len(ch.draws)):
                    for alt in range(1, len(ch.draws[i].menu)):
                        stack.append([d.chosen for d in ch.draws[:i]] + [alt])
                res.n += 1
                d = [x for x in ch.draws if x.fn == "choice"]
                if len(d) != 1:
                    res.stats["unrecognised_sampling_structure"] += 1  # another way of sampling: the distribution oracle does not apply
                    continue
                p = np.asarray(d[0].args["p"])
                if p.shape != probs_ref.shape or np.max(np.abs(p - probs_ref / probs_ref.sum())) > 5e-8:  # the simulator zeroes probabilities below 1e-8 before sampling
                    res.violation(f"C06|fock|born-distribution|{kind}", f"photon counting of modes {list(modes)} of {htag(hist)}: sampled distribution differs from the Born probabilities by {np.max(np.abs(p - probs_ref / probs_ref.sum())) if p.shape == probs_ref.shape else 'shape'}", case)
                    continue
                out_asc = np.unravel_index(d[0].menu[d[0].chosen], [c] * k)
                exp_val = [int(out_asc[asc.index(m)]) for m in modes]
                if list(np.ravel(val)) != exp_val:
                    res.violation(f"C06|fock|returned-value|{kind}", f"photon counting of modes {list(modes)}: drew {dict(zip(asc, map(int, out_asc)))} but returned {np.ravel(val).tolist()}", case)
                post = f0.copy().project_fock(asc, [int(x) for x in out_asc])
                tr = post.trace()
                got = physics.Obs(b, kind, n, c).rho
                if tr > 1e-12 and np.max(np.abs(got - post.rho / tr)) > 1e-8:
                    res.violation(f"C06|fock|conditional-state|{kind}", f"photon counting of modes {list(modes)} of {htag(hist)} with outcome {exp_val}: post-state differs from the projected and reset reference state by {np.max(np.abs(got - post.rho / tr)):.3g}", dict(case, answers=[x.chosen for x in ch.draws]))
    # homodyne, post-selected: projection on the quadrature eigenstate (only at the full cutoff: at the small
    # 3-mode cutoff the truncated quadrature eigenstate is representation dependent at the 1e-4 level)
    for mode in range(n if c >= CUT else 0):
        for phi in PHIS[:3]:
            for sel in SELS:
                res.n += 1
                case = {"kind": kind, "n": n, "hist": [[l, list(m)] for l, m in hist], "meas": "homodyne-select", "phi": phi, "mode": mode, "select": sel}
                b = make_state(kind, n, hist, c)
                apply_meas(b, ops.MeasureHomodyne(phi, select=sel), [mode])
                got = physics.Obs(b, kind, n, c).rho
                bra = hermite_fn(sel, c) * np.exp(-1j * phi * np.arange(c))  # <x_phi| n> = psi_n(x) e^{-i n phi}
                Pm = np.zeros((c, c), dtype=complex)
                Pm[0, :] = bra
                post = f0.copy().gate(Pm, [mode])
                tr = post.trace()
                gt = np.trace(got).real
                if tr > 1e-12 and gt > 1e-12 and np.max(np.abs(got / gt - post.rho / tr)) > 1e-6:
                    res.violation(f"C06|homodyne|conditional-state|select|{kind}", f"homodyne(phi={phi:.3g}, select={sel}) on mode {mode} of {htag(hist)}: Fock post-state differs from the projection on the quadrature eigenstate by {np.max(np.abs(got / gt - post.rho / tr)):.3g}", case)


def check_fock_homodyne_sampled(n, hist, pure, res, num_bins, xmax=10.0):
    """sampled homodyne on the Fock simulator: the probability vector handed to the random source must be the Born
    density of x_phi on the documented grid linspace(-max, max, num_bins); every answered grid point is returned and the
    rest is conditioned on it"""
    kind = "fock_pure" if pure else "fock_mixed"
    c = CUT
    b0 = make_state(kind, n, hist, c)
    rho0 = physics.Obs(b0, kind, n, c).rho
    f0 = fr.FState(n, c, rho0 / np.trace(rho0).real)
    grid = np.linspace(-xmax, xmax, num_bins)
    # psi[n, k] = <n|x_k>
    y = grid / math.sqrt(2.0)
    psi = np.zeros((c, num_bins))
    psi[0] = (1 / (math.pi * 2.0)) ** 0.25 * np.exp(-y * y / 2)
    if c > 1:
        psi[1] = math.sqrt(2) * y * psi[0]
    for k in range(2, c):
        psi[k] = math.sqrt(2 / k) * y * psi[k - 1] - math.sqrt((k - 1) / k) * psi[k - 2]
    for mode in range(n):
        red = f0.reduced([mode])
        for phi in PHIS[:3]:
            case = {"kind": kind, "n": n, "hist": [[l, list(m)] for l, m in hist], "meas": "homodyne-sampled", "phi": phi, "mode": mode, "num_bins": num_bins}
            bra = psi * np.exp(-1j * phi * np.arange(c))[:, None]
            dens = np.real(np.einsum("nk,nm,mk->k", bra, red, bra.conj()))
            dens = dens / dens.sum()
            picks = sorted({int(np.argmax(dens)), int(np.searchsorted(grid, 0.3)), int(np.searchsorted(grid, -0.5))})

            def menu(fn, a):
                if fn == "multinomial":
                    outs = []
                    for i in picks:
                        o = np.zeros(len(a["pvals"]), dtype=int)
                        if i < len(o):
                            o[i] = 1
                            outs.append(o)
                    return outs
                return default_menu(fn, a)

            for alt in range(len(picks)):
                res.n += 1
                ch = Chooser([alt], menu)
                err = None
                with ch:
                    b = make_state(kind, n, hist, c)
                    try:
                        val = apply_meas(b, ops.MeasureHomodyne(phi), [mode], num_bins=num_bins, max=xmax)
                    except Exception as e:  # noqa: BLE001
                        err = e
                if err is not None:
                    res.violation(f"C06|homodyne|raises|{type(err).__name__}|{kind}", f"sampled homodyne(phi={phi:.3g}) on mode {mode} of {htag(hist)} raised {err!r}", case)
                    break
                d = [x for x in ch.draws if x.fn == "multinomial"]
                if len(d) != 1 or d[0].args["n"] != 1:
                    res.stats["unrecognised_sampling_structure"] += 1  # another way of sampling: the distribution oracle does not apply
                    break
                pv = np.asarray(d[0].args["pvals"], dtype=float)
                if pv.shape != dens.shape or np.max(np.abs(pv - dens)) > 1e-9:
                    dd = np.max(np.abs(pv - dens)) if pv.shape == dens.shape else "shape"
                    res.violation(f"C06|homodyne|born-distribution|{kind}", f"sampled homodyne(phi={phi:.3g}) on mode {mode} of {htag(hist)}: the distribution over the {num_bins}-point grid differs from the Born density of x_phi by {dd}", case)
                    break
                x = float(grid[picks[alt]])
                if abs(float(np.ravel(val)[0]) - x) > 1e-12:
                    res.violation(f"C06|homodyne|returned-value|{kind}", f"sampled homodyne drew grid point {x}, returned {np.ravel(val).tolist()}", case)
                got = physics.Obs(b, kind, n, c).rho
                Pm = np.zeros((c, c), dtype=complex)
                Pm[0, :] = hermite_fn(x, c) * np.exp(-1j * phi * np.arange(c))
                post = f0.copy().gate(Pm, [mode])
                tr, gt = post.trace(), np.trace(got).real
                if tr > 1e-12 and gt > 1e-12 and np.max(np.abs(got / gt - post.rho / tr)) > 1e-6:
                    res.violation(f"C06|homodyne|conditional-state|sampled|{kind}", f"sampled homodyne(phi={phi:.3g}) on mode {mode} of {htag(hist)} with outcome {x:.4g}: post-state differs from the projection on the quadrature eigenstate by {np.max(np.abs(got / gt - post.rho / tr)):.3g}", dict(case, answer=alt))


# ----------------------------------------------------------------------------- hbar units of outcomes, re-execution of one operation object
def check_hbar_outcomes(res):
    """MeasureHomodyne(phi, select = x sqrt(hbar/2)) at hbar != 2, the same Program object executed twice: the reported
    outcome is the selected value (in units of that hbar) both times and the other mode is conditioned on x both times"""
    from mc.ref import opsem

    old = sf.hbar
    try:
        for h in (0.5, 3.7):
            s = math.sqrt(h / 2)
            for backend in ("gaussian", "bosonic", "fock"):
                for phi in PHIS[:3]:
                    for x in SELS[1:]:
                        res.n += 1
                        res.nt += 1
                        case = {"hbar_outcomes": True, "hbar": h, "backend": backend, "phi": phi, "x": x}
                        sf.hbar = h
                        prog = sf.Program(2)
                        with prog.context as q:
                            ops.Squeezed(0.3, 0.2) | q[0]
                            ops.Dgate(0.2, 0.4) | q[0]
                            ops.BSgate(0.5, 0.3) | (q[0], q[1])
                            ops.MeasureHomodyne(phi, select=x * s) | q[0]
                        ref = ph.GState(2)
                        for c in list(prog.circuit)[:-1]:
                            opsem.apply_gaussian(c.op, [r.ind for r in c.reg], ref)
                        ref.condition_homodyne(0, phi, x)
                        m_ref = ref.homodyne_dist(1, 0.0)[0], ref.homodyne_dist(1, PI / 2)[0]
                        for attempt in (1, 2):
                            try:
                                with warnings.catch_warnings():
                                    warnings.simplefilter("ignore")
                                    r = sf.Engine(backend, backend_options={"cutoff_dim": 15} if backend == "fock" else None).run(prog)
                                    got = float(np.real(np.ravel(r.samples)[0]))
                                    mx = float(np.real(r.state.quad_expectation(1, 0.0)[0])) / s
                                    mp = float(np.real(r.state.quad_expectation(1, PI / 2)[0])) / s
                            except Exception as e:  # noqa: BLE001
                                res.violation(f"C06|hbar-outcomes|raises|{type(e).__name__}|{backend}", f"hbar = {h}, homodyne(phi={phi:.3g}, select={x}*sqrt(hbar/2)) execution {attempt} raised {e!r}", case)
                                break
                            tol = 1e-5 if backend != "fock" else 2e-3
                            if abs(got - x * s) > 1e-12:
                                res.violation(f"C06|hbar-outcomes|reported-value|execution-{attempt}|{backend}", f"hbar = {h}: post-selected {x * s:.6g}, execution {attempt} of the same program reports {got:.6g}", case)
                                break
                            if abs(mx - m_ref[0]) > tol or abs(mp - m_ref[1]) > tol:
                                res.violation(f"C06|hbar-outcomes|conditional-state|execution-{attempt}|{backend}", f"hbar = {h}, homodyne(phi={phi:.3g}) post-selected on {x} sqrt(hbar/2): execution {attempt} leaves mode 1 with means ({mx:.5f}, {mp:.5f}) sqrt(hbar/2), conditioning on {x} gives ({m_ref[0]:.5f}, {m_ref[1]:.5f})", case)
                                break
    finally:
        sf.hbar = old
    return res


# ----------------------------------------------------------------------------- post-selection that cannot be honoured must be refused
def check_select_refusals(res):
    """a selected outcome is either honoured (returned value == selected value) or refused with an error - on every simulator,
    for every measurement type, for the selected values 0 and non-zero, with one and with several shots"""
    meas = [("MeasureHomodyne", lambda sel: ops.MeasureHomodyne(0.0, select=sel), [0.0, 0.3]),
            ("MeasureHeterodyne", lambda sel: ops.MeasureHeterodyne(select=sel), [0.0, 0.3 - 0.5j]),
            ("MeasureFock", lambda sel: ops.MeasureFock(select=sel), [0, 1]),
            ("MeasureThreshold", lambda sel: ops.MeasureThreshold(select=sel), [0, 1])]
    for backend in ("gaussian", "bosonic", "fock"):
        for name, mk, sels in meas:
            for sel in sels:
                for shots in (1, 3):
                    res.n += 1
                    res.nt += 1
                    case = {"select_refusal": True, "backend": backend, "meas": name, "select": [np.real(sel), np.imag(sel)], "shots": shots}
                    prog = sf.Program(2)
                    with prog.context as q:
                        ops.S2gate(0.8, 0.0) | (q[0], q[1])
                        mk(sel) | q[0]
                    try:
                        with warnings.catch_warnings():
                            warnings.simplefilter("ignore")
                            with Chooser((), default_menu):
                                r = sf.Engine(backend, backend_options={"cutoff_dim": 8} if backend == "fock" else None).run(prog, shots=shots)
                    except Exception:  # refused (NotImplementedError and the like): an allowed outcome
                        res.stats[f"select_refused:{backend}:{name}"] += 1
                        continue
                    S = np.asarray(r.samples)
                    zero = "zero" if sel == 0 else "nonzero"
                    if S.ndim != 2 or S.shape[0] != shots:
                        res.violation(f"C06|select|rows-per-shot|{backend}|{name}|{zero}", f"{name}(select={sel}) on {backend} with shots={shots} was accepted and returned samples of shape {S.shape} (one row per shot expected)", case)
                    elif np.max(np.abs(S[:, 0] - sel)) > 1e-9:
                        res.violation(f"C06|select|ignored|{backend}|{name}|{zero}", f"{name}(select={sel}) on {backend} with shots={shots} was accepted but returned {S[:, 0].tolist()} (the selected outcome is neither returned nor refused)", case)
    return res


# ----------------------------------------------------------------------------- engine-level sample collation
def check_collation(n, res):
    for k in range(1, n + 1):
        for modes in itertools.permutations(range(n), k):
            for split in (False, True):
                res.n += 1
                case = {"collation": True, "n": n, "modes": list(modes), "split": split}
                prog = sf.Program(n)
                with prog.context as q:
                    for i in range(n):
                        ops.Fock(i + 1) | q[i]
                    if split:
                        for m in modes:
                            ops.MeasureFock() | q[m]
                    else:
                        ops.MeasureFock() | tuple(q[m] for m in modes)
                eng = sf.Engine("fock", backend_options={"cutoff_dim": n + 2})
                try:
                    with warnings.catch_warnings():
                        warnings.simplefilter("ignore")
                        r = eng.run(prog)
                except Exception as e:  # noqa: BLE001
                    res.violation(f"C06|samples|raises|{type(e).__name__}", f"modes {list(modes)} (mode i holds i+1 photons) measured {'separately' if split else 'together'}: run raised {e!r}", case)
                    continue
                S = np.array(r.samples)
                exp = [[m + 1 for m in sorted(modes)]]
                if S.tolist() != exp:
                    res.violation("C06|samples|column-order", f"modes {list(modes)} (mode i holds i+1 photons) measured {'separately' if split else 'together'}: samples = {S.tolist()}, expected one row, columns in ascending mode order {exp}", case)
                for m in modes:
                    if int(np.ravel(r.samples_dict[m])[0]) != m + 1:
                        res.violation("C06|samples_dict|routing", f"samples_dict[{m}] = {r.samples_dict[m]}", case)
                        break


def check_collation_wide(res):
    """a 12-mode register (two-digit mode indices): homodyne outcomes of modes tagged by their displacement, measured in
    every order of a few subsets; columns of Result.samples must be in ascending NUMERIC mode order"""
    n = 12
    for subset in [(2, 10, 11), (9, 10), (1, 2, 10, 11), (0, 11)]:
        for modes in itertools.permutations(subset):
            res.n += 1
            case = {"collation_wide": True, "modes": list(modes)}
            prog = sf.Program(n)
            with prog.context as q:
                for i in range(n):
                    ops.Coherent(0.05 * (i + 1)) | q[i]
                for m in modes:
                    ops.MeasureX | q[m]
            try:
                with warnings.catch_warnings():
                    warnings.simplefilter("ignore")
                    with Chooser((), default_menu):
                        r = sf.Engine("gaussian").run(prog)
            except Exception as e:  # noqa: BLE001
                res.violation(f"C06|samples|raises|{type(e).__name__}|wide-register", f"modes {list(modes)} of a 12-mode register measured one by one: run raised {e!r}", case)
                continue
            S = np.round(np.array(r.samples, dtype=float), 6)
            exp = [[round(0.1 * (m + 1), 6) for m in sorted(modes)]]
            if S.shape != (1, len(modes)) or np.max(np.abs(S - np.array(exp))) > 1e-6:
                res.violation("C06|samples|column-order|wide-register", f"modes {list(modes)} of a 12-mode register (mode i answers 0.1 (i+1)) measured one by one: samples = {S.tolist()}, expected columns in ascending mode order {exp}", case)
                continue
            for m in modes:
                if abs(float(np.ravel(r.samples_dict[m])[0]) - 0.1 * (m + 1)) > 1e-6:
                    res.violation("C06|samples_dict|routing|wide-register", f"samples_dict[{m}] = {r.samples_dict[m]}", case)
                    break


# ----------------------------------------------------------------------------- driver
def work(task):
    what, kind, n, hists = task
    if what == "bcat":
        from mc.checks import c06b

        return c06b.work(hists)
    if what == "bsamp":
        from mc.checks import c06c

        return c06c.work(hists)
    if what == "adel":
        from mc.checks import c06d

        return c06d.run_all(Res(), "C06", (kind,))
    res = Res()
    for hist in hists:
        n0 = res.n
        if what == "dyne":
            check_dyne(kind, n, hist, res)
        elif what == "gcount":
            check_gauss_counting(n, hist, res)
        elif what == "bthr":
            check_bosonic_threshold(n, hist, res)
        elif what == "fhom":
            check_fock_homodyne_sampled(n, hist[0], kind == "fock_pure", res, hist[1])
            res.nt += res.n - n0
            continue
        elif what == "fock":
            check_fock(n, hist, kind == "fock_pure", res, CUT if n == 2 else CUT3)
        if hist:
            res.nt += res.n - n0
        if len(hist) == 2:
            res.sample({"simulator": kind, "state": htag(hist), "checked": what}, cap=1)
    return res


def run(ctx):
    quick = ctx.tier == "quick"
    tasks = []
    states = 0
    for n, depth in ((2, 2), (3, 1 if quick else 2)):
        hs = pool(n, COMMON, depth)
        states += len(hs)
        ch = max(1, len(hs) // 24)
        for kind in ("gaussian", "bosonic"):
            for i in range(0, len(hs), ch):
                tasks.append(("dyne", kind, n, hs[i : i + ch]))
        for i in range(0, len(hs), ch):
            tasks.append(("gcount", "gaussian", n, hs[i : i + ch]))
            tasks.append(("bthr", "bosonic", n, hs[i : i + ch]))
    hs = pool(2, SMALL, 1 if quick else 2)
    states += len(hs)
    ch = max(1, len(hs) // 16)
    for kind in ("fock_pure", "fock_mixed"):
        for i in range(0, len(hs), ch):
            tasks.append(("fock", kind, 2, hs[i : i + ch]))
    # sampled homodyne on the Fock simulator: small grid for every state of the pool, the default 100000-point grid once
    for kind in ("fock_pure", "fock_mixed"):
        for i in range(0, len(hs), 2):
            tasks.append(("fhom", kind, 2, [(h, 2001) for h in hs[i : i + 2]]))
        tasks.append(("fhom", kind, 2, [(hs[len(hs) // 2], 100000)]))
    # three modes on the Fock simulator (every ordered subset incl. the cyclic orders), smaller cutoff
    hs = pool(3, SMALL3, 1)
    states += len(hs)
    for kind in ("fock_pure", "fock_mixed"):
        for i in range(0, len(hs), 2):
            tasks.append(("fock", kind, 3, hs[i : i + 2]))
    from mc.checks import c06b

    bt = c06b.tasks(quick)
    from mc.checks import c06c

    st = c06c.tasks(quick)
    tasks = [("adel", k, 3, []) for k in ("fock_mixed", "fock_pure", "bosonic", "gaussian")] + st + bt + tasks
    ctx.cov["bosonic_cat_postselection_cases"] = sum(len(t[3]) for t in bt)
    ctx.cov["bosonic_sampled_dyne_cases"] = sum(len(t[3]) for t in st)
    for r in ctx.pmap(work, tasks):
        ctx.add(r)
        if ctx.time_left() < 0:
            ctx.close()
            ctx.cap_hit("time budget hit")
            break
    if ctx.stats["unrecognised_sampling_structure"]:
        ctx.cap_hit(f"{ctx.stats['unrecognised_sampling_structure']} measurements did not draw from numpy.random in the expected way (one draw per measurement): their Born-distribution oracle was not applied")
    r = Res()
    check_collation(3, r)
    check_collation_wide(r)
    ctx.add(r)
    ctx.add(check_hbar_outcomes(Res()))
    ctx.add(check_select_refusals(Res()))
    ctx.cov.update({"states": states, "transitions": ctx.n, "traces_validated_against_impl": ctx.n, "evaluations": ctx.n, "distinct_nontrivial": ctx.nt})
    ctx.assumptions += [
        "numpy.random and the thewalrus samplers are owned by the harness; what is decided is which distribution the code asks its random source for and what it does with each answer - not that numpy/thewalrus draw from that distribution",
        "Gaussian/bosonic homodyne projects on a finitely squeezed state (documented, eps = 2e-4): conditional states are compared with the ideal projection to 1e-5; Fock states are normalised before and after measurement; Fock homodyne is checked through post-selection (its sampler works on a 1e5-point grid)",
        "photon counting on the Gaussian simulator: only the distribution handed to the sampler and the routing of its answer are checked (the simulator documents that the conditional state is not updated)",
    ]


def replay(case):
    res = Res()
    if case.get("select_refusal"):
        r = check_select_refusals(Res())
        return [(s, w) for s, w, c in r.viol if all(c[k] == case[k] for k in ("backend", "meas", "select", "shots"))]
    if case.get("hbar_outcomes"):
        r = check_hbar_outcomes(Res())
        return [(s, w) for s, w, c in r.viol if all(c[k] == case[k] for k in ("hbar", "backend", "phi", "x"))]
    if case.get("bosonic_cat"):
        from mc.checks import c06b

        return c06b.replay(case)
    if case.get("bosonic_sampled"):
        from mc.checks import c06c

        return c06c.replay(case)
    if case.get("after_del"):
        from mc.checks import c06d

        return c06d.replay(case)
    if case.get("collation_wide"):
        check_collation_wide(res)
        return [(s, w) for s, w, c in res.viol if c["modes"] == case["modes"]]
    if case.get("collation"):
        check_collation(case["n"], res)
        return [(s, w) for s, w, c in res.viol if c["modes"] == case["modes"] and c["split"] == case["split"]]
    hist = tuple((l, tuple(m)) for l, m in case["hist"])
    kind, n = case["kind"], case["n"]
    if kind.startswith("fock") and case["meas"] == "homodyne-sampled":
        check_fock_homodyne_sampled(n, hist, kind == "fock_pure", res, case["num_bins"])
    elif kind.startswith("fock"):
        check_fock(n, hist, kind == "fock_pure", res, CUT if n == 2 else CUT3)
    elif kind == "bosonic" and case["meas"] == "threshold":
        check_bosonic_threshold(n, hist, res)
    elif case["meas"] in ("fock", "threshold"):
        check_gauss_counting(n, hist, res)
    else:
        check_dyne(kind, n, hist, res)
    keys = ("meas", "mode", "modes", "phi", "select")
    return [(s, w) for s, w, c in res.viol if all(c.get(k) == case.get(k) for k in keys)]
