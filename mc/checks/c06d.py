"""C06, measurements after a mode deletion (differential oracle, no hand-written expected value).

A register of three modes: two of them are put in a correlated state, the third (uncorrelated, displaced) is deleted.
The twin is a fresh two-mode register prepared with the same operations.  Every measurement of the menu applied to a
surviving mode of the first (addressed by its original label) and to the corresponding mode of the twin must return the
same value and leave the same state on the other mode - on the Gaussian, bosonic and Fock (pure / mixed) simulators,
whichever mode was deleted (the Fock simulator renumbers its tensor axes after a deletion, the phase-space simulators
keep gaps).  The random source is owned (default answers), so both sides see the same draws.
"""
import itertools
import warnings

import numpy as np

from strawberryfields import ops
from strawberryfields.program_utils import RegRef

from mc.checks import physics
from mc.core.chooser import Chooser, default_menu
from mc.core.ctx import Res

PI = np.pi
CUT = 7
PAIR = [("Sq(.25,.4)", (0,)), ("Coh(.3,.5)", (1,)), ("BS(.5,.3)", (0, 1)), ("D(.3,.4)", (1,))]
SPECT = ("Coh(.3,.5)", "D(.3,.4)")
MEAS = {
    "hom-select(0,.3)": (lambda: ops.MeasureHomodyne(0.0, select=0.3), 1, ("gaussian", "bosonic", "fock_pure", "fock_mixed")),
    "hom-select(.4,-.5)": (lambda: ops.MeasureHomodyne(0.4, select=-0.5), 1, ("gaussian", "bosonic", "fock_pure", "fock_mixed")),
    "hom-sampled(pi/2)": (lambda: ops.MeasureHomodyne(PI / 2), 1, ("gaussian", "bosonic", "fock_pure", "fock_mixed")),
    "het-select(.3-.5i)": (lambda: ops.MeasureHeterodyne(select=0.3 - 0.5j), 1, ("gaussian", "bosonic")),
    "het-sampled": (lambda: ops.MeasureHeterodyne(), 1, ("gaussian", "bosonic")),
    "threshold": (lambda: ops.MeasureThreshold(), 1, ("bosonic",)),
    "fock1": (lambda: ops.MeasureFock(), 1, ("fock_pure", "fock_mixed")),
    "fock2": (lambda: ops.MeasureFock(), 2, ("fock_pure", "fock_mixed")),
}


def observe(b, kind):
    with warnings.catch_warnings():
        warnings.simplefilter("ignore")
        st = b.state()
    if kind == "gaussian":
        return [np.array(st.means()), np.array(st.cov())]
    if kind == "bosonic":
        return [np.array(st.weights()), np.array(st.means()), np.array(st.covs())]
    return [np.array(st.dm())]


def menu(fn, a):
    if fn == "multinomial":  # sampled Fock homodyne: a bin off the centre of the grid
        out = np.zeros(len(a["pvals"]), dtype=int)
        out[int(np.argmax(a["pvals"])) + 37] = a["n"]
        return [out]
    if fn == "choice" and a["p"] is not None:  # photon counting: the second likeliest outcome
        arr = np.arange(a["a"]) if np.isscalar(a["a"]) else np.asarray(a["a"])
        k = int(np.argsort(-np.asarray(a["p"]))[1]) if len(a["p"]) > 1 else 0
        return [arr[k] if a["size"] is None else np.full(a["size"], arr[k])]
    return default_menu(fn, a)


def run_all(res, prop="C06", kinds=("gaussian", "bosonic", "fock_pure", "fock_mixed")):
    for kind in kinds:
        for deleted in (0, 1, 2):
            surv = [m for m in range(3) if m != deleted]
            for mname, (mk, arity, kinds) in MEAS.items():
                if kind not in kinds:
                    continue
                for pos in itertools.permutations(range(2), arity):
                    res.n += 1
                    res.nt += 1
                    case = {"after_del": True, "kind": kind, "deleted": deleted, "meas": mname, "positions": list(pos)}
                    outs = []
                    err = None
                    for twin in (False, True):
                        with Chooser((), menu):
                            try:
                                with warnings.catch_warnings():
                                    warnings.simplefilter("ignore")
                                    b = physics.new_backend(kind, 2 if twin else 3, CUT)
                                    lab = (lambda i: i) if twin else (lambda i: surv[i])
                                    if not twin:
                                        for l in SPECT:
                                            physics.apply_impl(b, kind, physics.make_op(l, CUT), (deleted,))
                                    for l, ms in PAIR:
                                        physics.apply_impl(b, kind, physics.make_op(l, CUT), tuple(lab(i) for i in ms))
                                    if not twin:
                                        b.del_mode([deleted])
                                    val = mk().apply([RegRef(lab(i)) for i in pos], b)
                                outs.append((np.ravel(np.array(val, dtype=complex)), observe(b, kind)))
                            except Exception as e:  # noqa: BLE001
                                err = (twin, e)
                                break
                    desc = f"{mname} on surviving mode(s) {[surv[i] for i in pos]} after deleting mode {deleted} of a 3-mode register ({kind})"
                    if err is not None:
                        if err[0]:
                            res.stats["twin_raises"] += 1
                        else:
                            res.violation(f"{prop}|after-del|raises|{type(err[1]).__name__}|{kind}", f"{desc} raised {err[1]!r}", case)
                        continue
                    (v1, o1), (v2, o2) = outs
                    if v1.shape != v2.shape or np.max(np.abs(v1 - v2)) > 1e-9:
                        res.violation(f"{prop}|after-del|returned-value|{mname.split('(')[0]}|{kind}", f"{desc} returned {v1.tolist()}, the same measurement on a fresh two-mode register with the same state returns {v2.tolist()}", case)
                        continue
                    if any(x.shape != y.shape for x, y in zip(o1, o2)):
                        res.violation(f"{prop}|after-del|state-shape|{kind}", f"{desc}: the state afterwards has arrays of shapes {[x.shape for x in o1]}, the twin {[y.shape for y in o2]}", case)
                        continue
                    dd = max(float(np.max(np.abs(x - y))) for x, y in zip(o1, o2))
                    if dd > 1e-8:
                        res.violation(f"{prop}|after-del|conditional-state|{mname.split('(')[0]}|{kind}", f"{desc}: the state afterwards differs by {dd:.3g} from the one the same measurement leaves on a fresh two-mode register prepared in the same state", case)
    return res


def replay(case, prop="C06"):
    res = run_all(Res(), prop, (case["kind"],))
    return [(s, w) for s, w, c in res.viol if all(c.get(k) == case.get(k) for k in ("kind", "deleted", "meas", "positions"))]
