"""C12 - hardware compilation conforms to the device and preserves the experiment.

Form S.  Device specifications are generated for X-series layouts with 1, 2 and 3 spatial modes (2, 4, 6 modes) and
several parameter-range variants.  Source programs: every combination of a squeezer variant per pair (none, S2(0),
S2(1), S2(.5), the pair twice, reversed pair, wrong pair), an interferometer variant (Interferometer(U) from a finite
unitary family, explicit BS/MZ/R words, different or mixing halves), a measurement variant (all modes, subset, split
commands, gate after measurement) and every linearisation of the squeezer commands, compiled with Xstrict (on
template-shaped sources), Xunitary and Xcov, with histories device A -> device B on the same compiler class.
Oracle: either CircuitError/ValueError - only where the reference deems the source inadmissible or out of range - or
a circuit that matches the layout wire by wire (own matcher), has every matched parameter inside the device range,
and prepares the same Gaussian state of the measured modes (exactly for Xunitary/Xstrict, up to local phases for
Xcov).  Time-domain devices: Borealis compilation (loop-offset insertion, phase compensation), see c12b.py.
"""
import itertools
import textwrap
import warnings

import blackbird
import numpy as np

import strawberryfields as sf
from strawberryfields import ops
from strawberryfields.compilers import compiler_db
from strawberryfields.program_utils import CircuitError

from mc.core.ctx import Res
from mc.ref import opsem, phase as ph

ID = "C12"
LEVEL = "exploration"
RULE = __doc__ + " Non-trivial: sources the compiler accepted."
PI = np.pi


# ----------------------------------------------------------------------------- device specifications
def mesh_pairs(H):
    out = []
    for layer in range(H):
        for j in range(layer % 2, H - 1, 2):
            out.append((j, j + 1))
    return out


def layout(H, target="X_test"):
    n = 2 * H
    lines = [f"name template_{H}x2", "version 1.0", f"target {target} (shots=1)"]
    for i in range(H):
        lines.append(f"S2gate({{squeezing_amplitude_{i}}}, 0.0) | [{i}, {i + H}]")
    for off in (0, H):
        for k, (a, b) in enumerate(mesh_pairs(H)):
            lines.append(f"MZgate({{phase_{2 * k}}}, {{phase_{2 * k + 1}}}) | [{a + off}, {b + off}]")
    for i in range(n):
        lines.append(f"Rgate({{final_phase_{i}}}) | [{i}]")
    lines.append("MeasureFock() | [" + ", ".join(map(str, range(n))) + "]")
    return "\n".join(lines) + "\n"


SQ_RANGES = {"set01": [0, 1], "interval": [[0, 1.2]], "half": [[0, 0.5]]}


def device(H, sq="set01", phase_full=True, modes_dict=False, target="X_test"):
    n = 2 * H
    gp = {}
    for i in range(H):
        gp[f"squeezing_amplitude_{i}"] = SQ_RANGES[sq]
    for k in range(2 * len(mesh_pairs(H))):
        gp[f"phase_{k}"] = [[0, 2 * PI]] if phase_full else [[0, PI]]
    for i in range(n):
        gp[f"final_phase_{i}"] = [[0, 2 * PI]]
    spec = {
        "target": target,
        "layout": layout(H, target),
        "modes": {"pnr_max": n, "homodyne_max": 0, "heterodyne_max": 0} if modes_dict else n,
        "compiler": ["Xunitary", "Xcov", "Xstrict"],
        "gate_parameters": gp,
    }
    return sf.Device(spec=spec)


# ----------------------------------------------------------------------------- unitary family
def T2(theta, phi):
    return np.array([[np.exp(1j * phi) * np.cos(theta), -np.sin(theta)], [np.exp(1j * phi) * np.sin(theta), np.cos(theta)]])


def unitaries(H):
    fam = [("identity", np.eye(H, dtype=complex))]
    if H == 1:
        fam.append(("phase", np.array([[np.exp(0.7j)]])))
        return fam
    for perm in itertools.permutations(range(H)):
        U = np.zeros((H, H), dtype=complex)
        for i, j in enumerate(perm):
            U[i, j] = [1, 1j, -1][(i + j) % 3]
        fam.append(("phased-permutation", U))
    gens = []
    for j in range(H - 1):
        for th, phv in ((PI / 4, 0.0), (0.3, 0.7)):
            G = np.eye(H, dtype=complex)
            G[j : j + 2, j : j + 2] = T2(th, phv)
            gens.append(G)
    for G in gens:
        fam.append(("orbit", G))
    for G1, G2 in itertools.product(gens, repeat=2):
        fam.append(("orbit", G2 @ G1))
    w = np.exp(2j * PI / H)
    fam.append(("dft", np.array([[w ** (i * j) for j in range(H)] for i in range(H)]) / np.sqrt(H)))
    # a beamsplitter on every ordered NON-adjacent pair of signal modes, alone and followed by an adjacent one (exact zeros in
    # the patterns the nulling routines of the meshes special-case)
    for i, j in itertools.permutations(range(H), 2):
        if abs(i - j) < 2:
            continue
        for th, phv in ((PI / 4, 0.0), (0.3, 0.7)):
            G = np.eye(H, dtype=complex)
            t2 = T2(th, phv)
            G[i, i], G[i, j], G[j, i], G[j, j] = t2[0, 0], t2[0, 1], t2[1, 0], t2[1, 1]
            fam.append(("embedded-pair", G))
            for G1 in gens[::2]:
                fam.append(("embedded-pair-product", G1 @ G))
    return fam


# ----------------------------------------------------------------------------- source programs
SQ_VARIANTS = ["none", "S2(0)", "S2(1)", "S2(.5)", "twice", "reversed", "wrong-pair", "sandwich", "S2(1,.7)", "twice(.7)"]
PHASED = ("S2(1,.7)", "twice(.7)")
INTF_VARIANTS = ["Interferometer", "words", "different-halves", "mixing-halves", "first-half-only"]
MEAS_VARIANTS = ["all", "subset", "split", "gate-after"]


def build_source(H, sqv, uname, U, intf, meas, order):
    """returns (program, admissible?, reason, expected squeezing per pair)"""
    n = 2 * H
    prog = sf.Program(n)
    admissible, reason = True, ""
    sq_vals = [0.0] * H
    with warnings.catch_warnings():
        warnings.simplefilter("ignore")
        with prog.context as q:
            cmds = []
            for i in range(H):
                v = sqv[i]
                if v == "none":
                    continue
                if v == "S2(0)":
                    cmds.append((ops.S2gate(0.0, 0.0), (i, i + H)))
                elif v == "S2(1)":
                    cmds.append((ops.S2gate(1.0, 0.0), (i, i + H)))
                    sq_vals[i] = 1.0
                elif v == "S2(.5)":
                    cmds.append((ops.S2gate(0.5, 0.0), (i, i + H)))
                    sq_vals[i] = 0.5
                elif v == "twice":
                    cmds.append((ops.S2gate(0.5, 0.0), (i, i + H)))
                    cmds.append((ops.S2gate(0.5, 0.0), (i, i + H)))
                    sq_vals[i] = 1.0
                elif v == "S2(1,.7)":
                    # a squeezer phase the layouts fix at zero: only a compiler that works on the state (Xcov) may absorb it
                    cmds.append((ops.S2gate(1.0, 0.7), (i, i + H)))
                    sq_vals[i] = 1.0
                    admissible, reason = False, "squeezer-phase the layout fixes at zero"
                elif v == "twice(.7)":
                    cmds.append((ops.S2gate(0.5, 0.7), (i, i + H)))
                    cmds.append((ops.S2gate(0.5, 0.7), (i, i + H)))
                    sq_vals[i] = 1.0
                    admissible, reason = False, "squeezer-phase the layout fixes at zero"
                elif v == "sandwich":
                    # a passive gate between two squeezers of one pair: the compiler may refuse it or compile it faithfully
                    cmds.append((ops.S2gate(0.3, 0.0), (i, i + H)))
                    cmds.append((ops.BSgate(0.4, 0.0), (i, i + H)))
                    cmds.append((ops.S2gate(0.2, 0.0), (i, i + H)))
                    sq_vals[i] = 0.5
                    reason = "either"
                elif v == "reversed":
                    cmds.append((ops.S2gate(1.0, 0.0), (i + H, i)))
                    admissible, reason = False, "squeezer on a reversed pair"
                elif v == "wrong-pair":
                    cand = [j for j in range(n) if j != i and j != i + H]
                    if cand:
                        cmds.append((ops.S2gate(1.0, 0.0), (i, cand[0])))
                        admissible, reason = False, "squeezer on a pair the device does not have"
            cmds = [cmds[k] for k in order] if order is not None and len(order) == len(cmds) else cmds
            for op, ms in cmds:
                op | tuple(q[m] for m in ms)
            if intf == "Interferometer":
                ops.Interferometer(U) | tuple(q[i] for i in range(H))
                ops.Interferometer(U) | tuple(q[i + H] for i in range(H))
            elif intf == "words":
                for off in (0, H):
                    for j in range(H - 1):
                        ops.BSgate(0.4, 0.2) | (q[j + off], q[j + 1 + off])
                        ops.Rgate(0.3 * (j + 1)) | q[j + off]
                    if H >= 2:
                        ops.MZgate(0.5, 0.9) | (q[off], q[1 + off])
            elif intf == "different-halves":
                ops.Interferometer(U) | tuple(q[i] for i in range(H))
                ops.Interferometer(U @ np.diag(np.exp(1j * 0.4 * np.arange(1, H + 1)))) | tuple(q[i + H] for i in range(H))
                if any(s != 0 for s in sq_vals) or True:
                    admissible, reason = False, "different unitaries on the two halves"
            elif intf == "mixing-halves":
                ops.BSgate(0.4, 0.0) | (q[0], q[H])
                admissible, reason = False, "beamsplitter between the halves"
            elif intf == "first-half-only":
                ops.Interferometer(U) | tuple(q[i] for i in range(H))
                if not np.allclose(U, np.eye(H)):
                    admissible, reason = False, "unitary on one half only"
            if meas == "all":
                ops.MeasureFock() | tuple(q[i] for i in range(n))
            elif meas == "subset":
                ops.MeasureFock() | tuple(q[i] for i in range(n - 1))
                admissible, reason = False, "not all modes measured"
            elif meas == "split":
                ops.MeasureFock() | tuple(q[i] for i in range(H))
                ops.MeasureFock() | tuple(q[i + H] for i in range(H))
            elif meas == "gate-after":
                ops.MeasureFock() | tuple(q[i] for i in range(n))
                ops.Rgate(0.3) | q[0]
                admissible, reason = False, "gate after the measurement"
    return prog, admissible, reason, sq_vals


# ----------------------------------------------------------------------------- oracle pieces
def wire_signature(circuit):
    """per mode: sequence of (operation name, position of the mode in the operation's register)"""
    sig = {}
    for c in circuit:
        for pos, r in enumerate(c.reg):
            sig.setdefault(r.ind, []).append((c.op.__class__.__name__, pos, tuple(x.ind for x in c.reg)))
    return sig


def template_program(dev):
    bb = blackbird.loads(dev.layout)
    names = sorted(bb.parameters)
    bb = bb(**{k: 0.123 for k in names})
    return sf.io.to_program(bb)


def match_layout(compiled, dev):
    """returns (ok, message, {template parameter name: compiled value})"""
    bb = blackbird.loads(dev.layout)
    tmpl_ops = bb.operations
    sig_c = wire_signature(compiled.circuit)
    # template wire signature straight from the parsed layout
    sig_t = {}
    for op in tmpl_ops:
        for pos, m in enumerate(op["modes"]):
            sig_t.setdefault(m, []).append((op["op"], pos, tuple(op["modes"])))
    if sig_c != sig_t:
        for m in sorted(set(sig_c) | set(sig_t)):
            if sig_c.get(m) != sig_t.get(m):
                return False, f"wire {m}: compiled {[(a, c) for a, _, c in sig_c.get(m, [])]} vs layout {[(a, c) for a, _, c in sig_t.get(m, [])]}", {}
    # map parameters: k-th occurrence of (op, modes) in compiled <-> in template
    values = {}
    seen = {}
    comp_by_key = {}
    for c in compiled.circuit:
        key = (c.op.__class__.__name__, tuple(r.ind for r in c.reg))
        comp_by_key.setdefault(key, []).append(c)
    for op in tmpl_ops:
        key = (op["op"], tuple(op["modes"]))
        k = seen.get(key, 0)
        seen[key] = k + 1
        c = comp_by_key[key][k]
        for a, v in zip(op.get("args", []), c.op.p):
            name = str(a).strip("{}") if not isinstance(a, (int, float)) else None
            if name and name != str(a):
                val = float(np.real(v))
                if name in values and abs(values[name] - val) > 1e-8:
                    return False, f"layout parameter {name} is used with two different values {values[name]} and {val}", values
                values[name] = val
            elif isinstance(a, (int, float)) and abs(float(np.real(v)) - float(a)) > 1e-8:
                return False, f"{op['op']} on {op['modes']}: fixed layout value {a}, compiled {v}", values
    return True, "", values


def in_range(val, rng):
    for r in rng:
        if isinstance(r, (list, tuple)):
            if r[0] - 1e-9 <= val <= r[1] + 1e-9:
                return True
        elif abs(val - r) < 1e-9:
            return True
    return False


def gaussian_state(circuit, n):
    cmds = [c for c in circuit if c.op.__class__.__name__ != "MeasureFock"]
    sem = opsem.program_map(cmds, n)
    return sem.X @ sem.X.T + sem.Y


def bmatrix(V):
    n = V.shape[0] // 2
    W = 0.5 * np.block([[np.eye(n), 1j * np.eye(n)], [np.eye(n), -1j * np.eye(n)]])
    sigma = W @ V @ W.conj().T
    Q = sigma + 0.5 * np.eye(2 * n)
    Xm = np.block([[np.zeros((n, n)), np.eye(n)], [np.eye(n), np.zeros((n, n))]])
    return (Xm @ (np.eye(2 * n) - np.linalg.inv(Q)))[:n, :n], 1 / np.sqrt(np.linalg.det(Q).real)


def same_photon_statistics(Va, Vb, n):
    """equal up to local phase rotations: |B_ij| equal and all 4-cycles B_ij B_kl products gauge-invariantly equal"""
    Ba, pa = bmatrix(Va)
    Bb, pb = bmatrix(Vb)
    if abs(pa - pb) > 1e-7:
        return False, f"vacuum probability {pa:.6g} vs {pb:.6g}"
    if np.max(np.abs(np.abs(Ba) - np.abs(Bb))) > 1e-7:
        return False, f"|B| differs by {np.max(np.abs(np.abs(Ba) - np.abs(Bb))):.3g} (two-photon statistics)"
    # four-photon amplitudes: hafnian of every 4-subset (with repetition up to 2)
    idx = list(range(n))
    for S in itertools.combinations_with_replacement(idx, 4):
        def haf4(B):
            a, b, c, d = S
            return B[a, b] * B[c, d] + B[a, c] * B[b, d] + B[a, d] * B[b, c]

        if abs(abs(haf4(Ba)) - abs(haf4(Bb))) > 1e-7:
            return False, f"four-photon amplitude on modes {S} differs"
    return True, ""


# ----------------------------------------------------------------------------- one case
def check_case(H, devkw, compiler, sqv, uname, U, intf, meas, order, res, prev_dev=None):
    dev = device(H, **devkw)
    n = 2 * H
    case = {"H": H, "dev": devkw, "compiler": compiler, "sq": list(sqv), "U": [[[float(z.real), float(z.imag)] for z in row] for row in U], "uname": uname, "intf": intf, "meas": meas, "order": None if order is None else list(order)}
    prog, admissible, reason, sq_vals = build_source(H, sqv, uname, U, intf, meas, order)
    # range admissibility
    if admissible and compiler != "Xcov":
        for v in sq_vals:
            if not in_range(v, SQ_RANGES[devkw.get("sq", "set01")]):
                admissible, reason = False, f"squeezing {v} outside the device range"
    compiler_db[compiler].reset_circuit() if hasattr(compiler_db[compiler], "reset_circuit") else None
    try:
        with warnings.catch_warnings():
            warnings.simplefilter("ignore")
            if prev_dev is not None:
                try:
                    p0, *_ = build_source(prev_dev[0], ("S2(1)",) * prev_dev[0], "identity", np.eye(prev_dev[0]), "Interferometer", "all", None)
                    p0.compile(device=device(prev_dev[0], **prev_dev[1]), compiler=compiler)
                except Exception:
                    pass
            out = prog.compile(device=dev, compiler=compiler)
    except (CircuitError, ValueError) as e:
        res.stats[f"rejected:{compiler}"] += 1
        phase_range_reject = (not devkw.get("phase_full", True)) and "invalid value" in str(e) and "phase" in str(e)
        if prev_dev is not None and "reset_circuit" in str(e):
            # a compiler class that was initialised with another device layout refuses the new one with a
            # CircuitError telling the user to reset it: an allowed outcome (circuit error), recorded
            res.stats["device_change_refused_until_reset"] += 1
            return False
        if reason == "either":
            res.stats[f"refused-sandwich:{compiler}"] += 1
            return False
        if admissible and compiler != "Xcov" and not phase_range_reject:
            res.violation(f"C12|{compiler}|rejects-admissible|{intf}|{meas}", f"{compiler} on a {n}-mode device rejected an admissible source (squeezers {sqv}, {uname} unitary as {intf}, measurement {meas}, order {order}): {type(e).__name__}: {str(e)[:150]}", case)
        elif admissible and compiler == "Xcov" and "invalid value" not in str(e) and "squeez" not in str(e).lower():
            res.violation(f"C12|{compiler}|rejects-admissible|{intf}|{meas}", f"Xcov rejected an admissible source (squeezers {sqv}, {uname} unitary as {intf}, {meas}): {type(e).__name__}: {str(e)[:150]}", case)
        return False
    except Exception as e:
        res.violation(f"C12|{compiler}|crash|{type(e).__name__}", f"{compiler} on (squeezers {sqv}, {uname} as {intf}, measurement {meas}, order {order}) raised {type(e).__name__}: {str(e)[:150]} - neither a circuit error nor a compiled circuit", case)
        return False
    if not admissible and compiler == "Xcov" and meas in ("all", "split"):
        admissible = True  # Xcov works on the state: whatever source prepares a state the device can prepare is fine (checked below)
    if not admissible:
        res.violation(f"C12|{compiler}|accepts-inadmissible|{reason.split(' ')[0]}", f"{compiler} compiled a source that the device cannot run ({reason}): squeezers {sqv}, {uname} as {intf}, measurement {meas}", case)
        return True
    ok, msg, values = match_layout(out, dev)
    if not ok:
        res.violation(f"C12|{compiler}|layout-mismatch", f"{compiler} output does not match the device layout: {msg}", case)
        return True
    gp = dev._spec["gate_parameters"]
    for name, val in values.items():
        if name in gp and not in_range(val, [r if isinstance(r, list) else r for r in gp[name]]):
            res.violation(f"C12|{compiler}|parameter-out-of-range|{name.rstrip('0123456789').rstrip('_')}", f"{compiler} output uses {name} = {val:.6g}, the device allows {gp[name]}", case)
            break
    Vs, Vc = gaussian_state(prog.circuit, n), gaussian_state(out.circuit, n)
    if compiler in ("Xunitary", "Xstrict"):
        # exact up to the final (unobservable, but template-matched) phases: compare B up to local phases AND the unitary part
        d = float(np.max(np.abs(Vs - Vc)))
        okp, why = same_photon_statistics(Vs, Vc, n)
        if not okp:
            res.violation(f"C12|{compiler}|statistics", f"{compiler}: compiled circuit has different photon statistics than the source ({why}); squeezers {sqv}, {uname} as {intf}", case)
        elif d > 1e-7:
            res.violation(f"C12|{compiler}|state", f"{compiler}: Gaussian state of the measured modes differs from the source by {d:.3g} (same photon statistics): squeezers {sqv}, {uname} as {intf}", case)
    else:
        okp, why = same_photon_statistics(Vs, Vc, n)
        if not okp:
            res.violation(f"C12|{compiler}|statistics", f"Xcov: compiled circuit has different photon statistics than the source ({why}); squeezers {sqv}, {uname} as {intf}", case)
    return True


def check_nodevice(H, sqv, uname, U, res):
    """Xunitary without a device specification: nothing fixes the squeezer phases, the compiled circuit must prepare exactly
    the source's Gaussian state (the compiler works at the level of the interferometer unitary)"""
    n = 2 * H
    case = {"nodevice": True, "H": H, "sq": list(sqv), "uname": uname, "U": [[[float(z.real), float(z.imag)] for z in row] for row in U]}
    prog, _adm, _reason, _sq = build_source(H, sqv, uname, U, "Interferometer", "all", None)
    compiler_db["Xunitary"].reset_circuit() if hasattr(compiler_db["Xunitary"], "reset_circuit") else None
    try:
        with warnings.catch_warnings():
            warnings.simplefilter("ignore")
            out = prog.compile(compiler="Xunitary")
    except (CircuitError, ValueError):
        res.stats["rejected:Xunitary-no-device"] += 1
        return False
    except Exception as e:
        res.violation(f"C12|Xunitary|no-device|crash|{type(e).__name__}", f"Xunitary without a device on squeezers {sqv}, {uname} unitary raised {type(e).__name__}: {str(e)[:150]}", case)
        return False
    Vs, Vc = gaussian_state(prog.circuit, n), gaussian_state(out.circuit, n)
    d = float(np.max(np.abs(Vs - Vc)))
    if d > 1e-7:
        res.violation("C12|Xunitary|no-device|state", f"Xunitary without a device: the compiled circuit prepares a Gaussian state that differs from the source's by {d:.3g} (squeezers {sqv}, {uname} unitary)", case)
    return True


def work(task):
    H, devkw, compiler, sq_list, intf_list, meas_list, with_orders, prev = task
    res = Res()
    fam = unitaries(H)
    for sqv in sq_list:
        if compiler == "Xunitary" and devkw.get("sq") == "set01" and not devkw.get("modes_dict") and all(v in ("none", "S2(0)", "S2(1)", "S2(.5)", "twice") + PHASED for v in sqv):
            for uname, U in fam:
                res.n += 1
                res.stats["xunitary_without_device"] += 1
                if check_nodevice(H, sqv, uname, U, res):
                    res.nt += 1
        for intf in intf_list:
            us = fam if intf in ("Interferometer",) else fam[:3]
            for uname, U in us:
                for meas in meas_list:
                    ncmd = sum(2 if v in ("twice", "twice(.7)") else (3 if v == "sandwich" else (0 if v == "none" else 1)) for v in sqv)
                    orders = [None]
                    if with_orders and 2 <= ncmd <= 3 and intf == "Interferometer" and uname == "identity":
                        orders = list(itertools.permutations(range(ncmd)))
                    for order in orders:
                        res.n += 1
                        if check_case(H, devkw, compiler, sqv, uname, U, intf, meas, order, res, prev):
                            res.nt += 1
                            res.sample({"device_modes": 2 * H, "compiler": compiler, "squeezers": list(sqv), "unitary": uname, "as": intf, "measurement": meas}, cap=1)
    return res


# ----------------------------------------------------------------------------- Xstrict on template-shaped sources
def work_strict(task):
    H, devkw = task
    res = Res()
    dev = device(H, **devkw)
    n = 2 * H
    bb0 = blackbird.loads(dev.layout)
    names = sorted(bb0.parameters)
    sq_names = [x for x in names if x.startswith("squeezing")]
    ph_names = [x for x in names if not x.startswith("squeezing")]
    for sq_vals in itertools.product([0, 1, 0.5, 1.5], repeat=len(sq_names)):
        for phv in (0.0, 1.3, PI, 2 * PI - 0.01, -0.4, 7.0):
            res.n += 1
            vals = {k: v for k, v in zip(sq_names, sq_vals)}
            vals.update({k: phv for k in ph_names})
            prog = sf.io.to_program(blackbird.loads(dev.layout)(**vals))
            has_mz = len(mesh_pairs(H)) > 0
            ok_ranges = all(in_range(v, SQ_RANGES[devkw.get("sq", "set01")]) for v in sq_vals) and (0 <= phv <= 2 * PI) and (not has_mz or devkw.get("phase_full", True) or phv <= PI)
            case = {"strict": True, "H": H, "dev": devkw, "sq": list(sq_vals), "phase": phv}
            try:
                with warnings.catch_warnings():
                    warnings.simplefilter("ignore")
                    out = prog.compile(device=dev, compiler="Xstrict")
            except (CircuitError, ValueError) as e:
                if ok_ranges:
                    res.violation("C12|Xstrict|rejects-admissible|template", f"Xstrict rejected the device's own template with in-range values {vals}: {str(e)[:120]}", case)
                continue
            res.nt += 1
            if not ok_ranges:
                res.violation("C12|Xstrict|parameter-out-of-range|accepted", f"Xstrict accepted the template with out-of-range values (squeezing {sq_vals}, phases {phv})", case)
                continue
            ok, msg, values = match_layout(out, dev)
            if not ok:
                res.violation("C12|Xstrict|layout-mismatch", msg, case)
    # the template with ONE hard-coded argument changed (squeezing phase 0.0 -> 0.3): must be refused
    for k, variant in itertools.product(range(len(sq_names)), range(3)):
        res.n += 1
        vals = {x: 1 for x in sq_names}
        vals.update({x: 0.3 for x in ph_names})
        prog = sf.io.to_program(blackbird.loads(dev.layout)(**vals))
        seen = -1
        for cmd in prog.circuit:
            if isinstance(cmd.op, ops.S2gate):
                seen += 1
                if seen == k:
                    cmd.op = ops.S2gate(cmd.op.p[0], [0.3, np.float32(0.3), np.int64(1)][variant])
        case = {"strict": True, "H": H, "dev": devkw, "sq": f"phase-of-squeezer-{k}-as-{['float', 'numpy.float32', 'numpy.int64'][variant]}", "phase": 0.3}
        try:
            with warnings.catch_warnings():
                warnings.simplefilter("ignore")
                prog.compile(device=dev, compiler="Xstrict")
        except (CircuitError, ValueError):
            res.nt += 1
            continue
        res.violation("C12|Xstrict|fixed-parameter-ignored" + ("" if variant == 0 else "|numpy-scalar"), f"Xstrict accepted the template with S2gate number {k} given the phase {[0.3, 'numpy.float32(0.3)', 'numpy.int64(1)'][variant]} although the layout hard-codes 0.0", case)
    return res


def _dispatch(task):
    if task[0] == "borealis":
        from mc.checks import c12b

        return c12b.work(task[1])
    if task[0] == "tdm1":
        from mc.checks import c12c

        return c12c.work(task[1])
    return work_strict(task[1]) if task[0] == "strict" else work(task[1])


def run(ctx):
    quick = ctx.tier == "quick"
    tasks = []
    for H in (1, 2) if quick else (1, 2, 3):
        sq_all = list(itertools.product(SQ_VARIANTS, repeat=H)) if H <= 2 else list(itertools.product(["none", "S2(1)", "twice", "wrong-pair"], repeat=H))
        devs = [{"sq": "set01"}, {"sq": "interval", "modes_dict": True}, {"sq": "half", "phase_full": False}]
        for devkw in devs if H <= 2 else devs[:1]:
            for compiler in ("Xunitary", "Xcov"):
                ch = max(1, len(sq_all) // 6)
                for i in range(0, len(sq_all), ch):
                    tasks.append(("x", (H, devkw, compiler, sq_all[i : i + ch], INTF_VARIANTS, MEAS_VARIANTS, True, None)))
            tasks.append(("strict", (H, devkw)))
    # larger interferometers (3 and 4 signal modes: beamsplitters between non-adjacent and between the outer modes), one squeezer
    # variant, every mode measured
    for H in (3, 4):
        for compiler in ("Xunitary", "Xcov"):
            tasks.append(("x", (H, {"sq": "set01"}, compiler, [("S2(1)",) * H], ["Interferometer"], ["all"], False, None)))
    # device A -> device B on the same compiler class
    tasks.append(("x", (2, {"sq": "set01"}, "Xunitary", [("S2(1)", "S2(1)")], ["Interferometer"], ["all"], False, (1, {"sq": "set01"}))))
    tasks.append(("x", (1, {"sq": "set01"}, "Xcov", [("S2(1)",)], ["Interferometer"], ["all"], False, (2, {"sq": "set01"}))))
    from mc.checks import c12b

    bc = c12b.cases(quick)
    for i in range(0, len(bc), 4):
        tasks.append(("borealis", bc[i : i + 4]))
    ctx.cov["borealis_cases"] = len(bc)
    from mc.checks import c12c

    tc = c12c.cases(quick)
    for i in range(0, len(tc), 16):
        tasks.append(("tdm1", tc[i : i + 16]))
    ctx.cov["single_loop_tdm_cases"] = len(tc)
    for r in ctx.pmap(_dispatch, tasks):
        ctx.add(r)
        if ctx.time_left() < 0:
            ctx.close()
            ctx.cap_hit("time budget hit")
            break
    ctx.assumptions += [
        "layout conformance decided by my own wire-by-wire matcher on the parsed layout (blackbird parser trusted), independent of the library's template matching",
        "photon statistics compared through the vacuum probability, |B_ij| and all four-photon hafnian moduli of the pure Gaussian state (gauge invariants under local phases)",
        "Compiler class attributes (_layout/_graph) are reset by the harness before each compile; device A -> device B histories are included explicitly",
    ]


def replay(case):
    res = Res()
    if case.get("nodevice"):
        U = np.array([[complex(a, b) for a, b in row] for row in case["U"]])
        check_nodevice(case["H"], tuple(case["sq"]), case["uname"], U, res)
        return [(s, w) for s, w, _ in res.viol]
    if case.get("borealis"):
        from mc.checks import c12b

        return c12b.replay(case)
    if case.get("tdm_single_loop"):
        from mc.checks import c12c

        return c12c.replay(case)
    if case.get("strict"):
        r = work_strict((case["H"], case["dev"]))
        return [(s, w) for s, w, c in r.viol if c["sq"] == case["sq"] and c["phase"] == case["phase"]]
    U = np.array([[complex(a, b) for a, b in row] for row in case["U"]])
    check_case(case["H"], case["dev"], case["compiler"], tuple(case["sq"]), case["uname"], U, case["intf"], case["meas"], None if case["order"] is None else tuple(case["order"]), res)
    return [(s, w) for s, w, _ in res.viol]
