"""C06, bosonic simulator on non-Gaussian states: post-selected homodyne / heterodyne with peak re-weighting.

States: every cat state of a small alphabet (amplitude, angle, parity; complex representation) in mode 0, entangled with
mode 1 by one of a few two-mode gates.  Measurements: MeasureHomodyne(phi, select=x) and MeasureHeterodyne(select=alpha)
on either mode, every (phi, x) / alpha of a small lattice.  Oracle: every observable of the bosonic post-state (both
modes) against a dense Fock reference at cutoff 30 built from the same history and projected on the quadrature
eigenstate / coherent state of the selected outcome; the measured mode must be left in vacuum.
The weights of the linear combination are complex and are re-weighted by the likelihood of the outcome per peak - a
path no Gaussian state exercises.
"""
import math
import warnings

import numpy as np

import strawberryfields as sf
from strawberryfields import ops

from mc.checks import c16b, physics
from mc.core.ctx import Res
from mc.ref import focksem, fockref as fr

PI = np.pi
C = c16b.CREF
CATS = [(a, phi, p) for a in (0.6, 1.0) for phi in (0.0, 0.7) for p in (0, 1)]
ENT = [("BS(.5,.3)", (0, 1)), ("BS(.5,.3)", (1, 0)), ("S2(.2,.5)", (0, 1))]
HOM = [(phi, x) for phi in (0.0, 0.4, PI / 2) for x in (0.0, 0.3, -0.5)]
HET = [0.0 + 0.0j, 0.3 - 0.5j]


def case_run(cat, ent, meas, mode, res, prop="C06"):
    a, phi, p = cat
    case = {"bosonic_cat": True, "cat": list(cat), "ent": [ent[0], list(ent[1])], "meas": [meas[0]] + [float(np.real(x)) if not isinstance(x, complex) else [x.real, x.imag] for x in meas[1:]], "mode": mode}
    fs = fr.FState(2, C)
    ket = c16b.cat_ket(a, phi, p, C)
    fs.prepare(np.outer(ket, ket.conj()), [0])
    focksem.apply_fock(physics.make_op(ent[0], C), list(ent[1]), fs)
    Pm = np.zeros((C, C), dtype=complex)
    if meas[0] == "hom":
        _, ang, x = meas
        Pm[0, :] = c16b.hermite_fn(x, C) * np.exp(-1j * ang * np.arange(C))
        mop = ops.MeasureHomodyne(ang, select=x)
        tol = 2e-5  # the simulator projects on a finitely squeezed state (eps = 2e-4)
    else:
        _, al = meas
        Pm[0, :] = fr.coherent_ket(al, C).conj()
        mop = ops.MeasureHeterodyne(select=al)
        tol = 1e-7
    fs.gate(Pm, [mode])
    tr = fs.trace()
    if tr < 1e-9:
        return False
    fs.rho = fs.rho / tr
    prog = sf.Program(2)
    try:
        with warnings.catch_warnings():
            warnings.simplefilter("ignore")
            with prog.context as q:
                ops.Catstate(a, phi, p) | q[0]
                physics.make_op(ent[0], C) | tuple(q[m] for m in ent[1])
                mop | q[mode]
            st = sf.Engine("bosonic").run(prog).state
    except Exception as e:  # noqa: BLE001
        res.violation(f"{prop}|{meas[0]}-select|raises|bosonic|cat", f"Catstate{cat} ; {ent[0]}{list(ent[1])} ; {mop} on mode {mode} raised {e!r}", case)
        return True
    R = c16b.reference(fs, 2)
    Q = c16b.query(st, 2)
    # fock_prob of complex-representation bosonic states is a recorded C16 finding (wrong formula for complex means)
    for k in [k for k in R if k[0] == "fock_prob"]:
        del R[k]
    desc = f"the bosonic post-state of Catstate{cat} ; {ent[0]}{list(ent[1])} ; {mop} on mode {mode}"
    c16b.compare(res, Q, R, prop, f"{meas[0]}-select|bosonic|cat", desc, case, tol, 0.0)
    return True


def tasks(quick):
    items = []
    for cat in CATS if not quick else [c for c in CATS if c[0] == 0.6 or c[1] == 0.0]:
        for ent in ENT:
            for mode in (0, 1):
                for h in HOM if not quick else HOM[::2]:
                    items.append((cat, ent, ("hom",) + h, mode))
                for al in HET:
                    items.append((cat, ent, ("het", al), mode))
    return [("bcat", "bosonic", 2, items[i : i + 6]) for i in range(0, len(items), 6)]


def work(items, prop="C06"):
    res = Res()
    for it in items:
        n0 = res.n
        res.n += 1
        if case_run(*it, res, prop):
            res.nt += res.n - n0
        res.sample({"bosonic_cat": True, "cat": list(it[0]), "entangler": it[1][0], "measurement": it[2][0], "mode": it[3]}, cap=1)
    return res


def replay(case, prop="C06"):
    res = Res()
    m = case["meas"]
    meas = ("hom", m[1], m[2]) if m[0] == "hom" else ("het", complex(*m[1]))
    case_run(tuple(case["cat"]), (case["ent"][0], tuple(case["ent"][1])), meas, case["mode"], res, prop)
    return [(s, w) for s, w, c in res.viol if c.get("key") == case.get("key")]
