"""C12, time-domain part: Borealis compilation (loop-offset insertion and phase compensation).

Enumerated: loop-phase certificates from a small alphabet x parameter-array patterns x number of computational
modes x {raw user arrays, arrays prepared by tdm.utils.full_compile} x {offset gates left to the compiler, offset
gates written by the user}.  Reference loop model: the compiled circuit IS a plain time-domain program that contains
the loops' intrinsic phases as explicit Rgates, so it is unrolled by the real TDMProgram.unroll (judged by C13) and
interpreted by the reference semantics; the ideal experiment is the source program on loops without intrinsic phase.
Oracle: compiled circuit follows the layout; every parameter array inside the device range; photon statistics of all
measured pulses equal to the ideal experiment whenever no value had to be moved by pi; where values were moved, they
moved by exactly pi (mod 2 pi) relative to the ideal compensation and lie inside the modulator range.
"""
import inspect
import itertools
import warnings

import numpy as np

import strawberryfields as sf
from strawberryfields import ops
from strawberryfields.compilers import compiler_db
from strawberryfields.program_utils import CircuitError

from mc.checks import c13
from mc.core.ctx import Res

PI = np.pi
DELAYS = [1, 6, 36]
NIDX, NCONC = [43, 42, 36, 0], 44
SQ_ALLOWED = [0, 0.712, 1.019, 1.212]


def layout(T):
    arr = "\n".join(f"float array p{k}[1, {T}] =\n    {{{nm}}}" for k, nm in enumerate(["s", "r0", "bs0", "loop0_phase", "r1", "bs1", "loop1_phase", "r2", "bs2", "loop2_phase"]))
    return (
        "name template_borealis\nversion 1.0\ntarget borealis (shots=100000)\ntype tdm (temporal_modes=331, copies=1)\n\n" + arr + "\n\n\n"
        "Sgate({s}, 0.0) | 43\nRgate({r0}) | 43\nBSgate({bs0}, 1.5707963267948966) | [42, 43]\nRgate({loop0_phase}) | 43\n"
        "Rgate({r1}) | 42\nBSgate({bs1}, 1.5707963267948966) | [36, 42]\nRgate({loop1_phase}) | 42\n"
        "Rgate({r2}) | 36\nBSgate({bs2}, 1.5707963267948966) | [0, 36]\nRgate({loop2_phase}) | 36\nMeasureFock() | 0\n"
    )


def device(loop_phases, T=259, ranges=True):
    spec = {
        "target": "borealis",
        "layout": layout(T),
        "modes": {"temporal_max": 331, "concurrent": 44, "spatial": 1},
        "compiler": ["borealis"],
        "gate_parameters": {
            "s": SQ_ALLOWED,
            "r0": [[-PI / 2, PI / 2]], "bs0": [[0, PI / 2]], "loop0_phase": [loop_phases[0]],
            "r1": [[-PI / 2, PI / 2]], "bs1": [[0, PI / 2]], "loop1_phase": [loop_phases[1]],
            "r2": [[-PI / 2, PI / 2]], "bs2": [[0, PI / 2]], "loop2_phase": [loop_phases[2]],
        },
    }
    if not ranges:
        spec["gate_parameters"] = None  # a device that publishes no ranges: only the layout check remains
    cert = {"target": "borealis", "loop_phases": list(loop_phases), "squeezing_parameters_mean": {"low": 0.712, "high": 1.019, "medium": 1.212},
            "common_efficiency": 0.551, "loop_efficiencies": [0.941, 0.914, 0.876], "relative_channel_efficiencies": [0.9] * 16, "schmidt_number": 1.3}
    return sf.Device(spec=spec, cert=cert)


def user_args(comp, rpat, bspat):
    """un-padded user arrays for `comp` computational modes"""
    def rvals(k):
        if rpat == "zero":
            return [0.0] * comp
        if rpat == "const":
            return [0.4 - 0.1 * k] * comp
        return [(0.3 if (j + k) % 2 == 0 else -0.2) for j in range(comp)]

    def bsvals(k):
        a = [PI / 4 if bspat == "half" else (0.6 if (j % 2) else 0.9) for j in range(comp)]
        for j in range(min(DELAYS[k], comp)):
            a[j] = 0.0  # open the loop for the first pulses
        return a

    return {"Sgate": [1.019] * comp, "loops": {k: {"Rgate": rvals(k), "BSgate": bsvals(k)} for k in range(3)}}


WRONG_FIXED = ["s.phi", "bs0.phi", "bs1.phi", "bs2.phi", "s.value-in-a-gap"]


def _uo(user_offsets):
    """which of the three loop-offset gates the user wrote: all, none, or a pattern"""
    return tuple(user_offsets) if isinstance(user_offsets, (tuple, list)) else (bool(user_offsets),) * 3


def build_program(arg_list, user_offsets, loop_phases, wrong=None):
    """wrong: name of one hard-coded layout argument that the source sets to a different value"""
    prog = sf.TDMProgram(NCONC)
    with warnings.catch_warnings():
        warnings.simplefilter("ignore")
        with prog.context(*arg_list) as (p, q):
            ops.Sgate(p[0], 0.5 if wrong == "s.phi" else 0.0) | q[NIDX[0]]
            for i in range(3):
                ops.Rgate(p[2 * i + 1]) | q[NIDX[i]]
                ops.BSgate(p[2 * i + 2], 0.3 if wrong == f"bs{i}.phi" else PI / 2) | (q[NIDX[i + 1]], q[NIDX[i]])
                if _uo(user_offsets)[i]:
                    ops.Rgate(loop_phases[i]) | q[NIDX[i]]
            ops.MeasureFock() | q[0]
    return prog


def joint(prog_like_args, loop_phases):
    """joint Gaussian state of all measured pulses of the explicit Borealis circuit with the given arrays and loop phases"""
    prog = build_program(prog_like_args, True, loop_phases)
    with warnings.catch_warnings():
        warnings.simplefilter("ignore")
        prog.unroll(shots=1)
    mu, V = c13.circuit_joint(list(prog.circuit), len(prog.reg_refs))
    # rows come as (x_0, p_0, x_1, p_1, ...): reorder to xxpp
    k = len(mu) // 2
    ix = [2 * i for i in range(k)] + [2 * i + 1 for i in range(k)]
    return mu[ix], V[np.ix_(ix, ix)]


def bmatrix(V):
    n = V.shape[0] // 2
    W = 0.5 * np.block([[np.eye(n), 1j * np.eye(n)], [np.eye(n), -1j * np.eye(n)]])
    sigma = W @ V @ W.conj().T
    Q = sigma + 0.5 * np.eye(2 * n)
    Xm = np.block([[np.zeros((n, n)), np.eye(n)], [np.eye(n), np.zeros((n, n))]])
    return (Xm @ (np.eye(2 * n) - np.linalg.inv(Q)))[:n, :n], 1 / np.sqrt(abs(np.linalg.det(Q)))


def same_statistics(Va, Vb):
    Ba, pa = bmatrix(Va)
    Bb, pb = bmatrix(Vb)
    if abs(pa - pb) > 1e-7 * max(1, pa):
        return False, f"vacuum probability {pa:.6g} vs {pb:.6g}"
    d = float(np.max(np.abs(np.abs(Ba) - np.abs(Bb))))
    if d > 1e-7:
        return False, f"|B| differs by {d:.3g} (two-photon statistics)"
    live = [i for i in range(Ba.shape[0]) if np.max(np.abs(Ba[i])) > 1e-6][:7]
    for S in itertools.combinations_with_replacement(live, 4):
        a, b, c, dd = S
        h = lambda B: B[a, b] * B[c, dd] + B[a, c] * B[b, dd] + B[a, dd] * B[b, c]
        if abs(abs(h(Ba)) - abs(h(Bb))) > 1e-7:
            return False, f"four-photon amplitude on pulses {S} differs"
    return True, ""


def check(loop_phases, comp, rpat, bspat, prepared, user_offsets, res, wrong=None, ranges=True):
    from strawberryfields.tdm import utils as tu

    case = {"borealis": True, "loop_phases": list(loop_phases), "comp": comp, "rpat": rpat, "bspat": bspat, "prepared": prepared, "user_offsets": list(_uo(user_offsets)), "wrong": wrong, "ranges": ranges}
    dev = device(loop_phases)
    ua = user_args(comp, rpat, bspat)
    with warnings.catch_warnings():
        warnings.simplefilter("ignore")
        padded = tu.make_squeezing_compatible(tu.vacuum_padding(ua, delays=DELAYS), dev)
        ideal_list = tu.to_args_list(padded, dev)
        if prepared:
            src_list = tu.full_compile(ua, dev, return_list=True)
        else:
            src_list = ideal_list
    T = len(ideal_list[0])
    src_list = [list(map(float, a)) for a in src_list]
    ideal_list = [list(map(float, a)) for a in ideal_list]
    if wrong == "s.value-in-a-gap":
        # one squeezing value between two allowed settings (and between the smallest and largest entry of the array)
        k = max(range(len(src_list[0])), key=lambda j: src_list[0][j])
        src_list[0][k] = 0.9
        if not ranges:
            return True  # nothing to refuse when the device publishes no ranges
    prog = build_program(src_list, user_offsets, loop_phases, wrong)
    if not ranges:
        dev = device(loop_phases, ranges=False)
    compiler_db["borealis"].reset_circuit()
    try:
        with warnings.catch_warnings():
            warnings.simplefilter("ignore")
            import logging

            logging.disable(logging.CRITICAL)
            try:
                out = prog.compile(device=dev, compiler="borealis")
            finally:
                logging.disable(logging.NOTSET)
    except (CircuitError, ValueError) as e:
        in_range_src = all(-PI / 2 - 1e-9 <= v <= PI / 2 + 1e-9 for k in (1, 3, 5) for v in src_list[k])
        res.stats["borealis_rejected"] += 1
        if wrong:
            return True
        if in_range_src and not any(_uo(user_offsets)):
            res.violation("C12|borealis|rejects-admissible", f"borealis compiler rejected an in-range program (loop phases {loop_phases}, {comp} modes, r {rpat}, bs {bspat}, prepared={prepared}): {str(e)[:160]}", case)
        return False
    except Exception as e:
        res.violation(f"C12|borealis|crash|{type(e).__name__}", f"borealis compile raised {type(e).__name__}: {str(e)[:160]}", case)
        return False
    if wrong:
        if wrong == "s.value-in-a-gap":
            res.violation("C12|borealis|accepts-out-of-range|value-in-a-gap", "one squeezing value of the source (0.9) lies between two allowed settings of the device (0.712 and 1.019) and between the smallest and largest entry of its array, yet the program was accepted", case)
        else:
            res.violation("C12|borealis|fixed-parameter-ignored", f"the source sets the layout's hard-coded argument {wrong} to a different value, yet the borealis compiler accepted the program (no CircuitError)", case)
        return True
    # layout conformance: command classes and modes of the compiled rolled circuit == layout order
    got = [(c.op.__class__.__name__, tuple(r.ind for r in c.reg)) for c in out.circuit]
    exp = [("Sgate", (43,)), ("Rgate", (43,)), ("BSgate", (42, 43)), ("Rgate", (43,)), ("Rgate", (42,)), ("BSgate", (36, 42)), ("Rgate", (42,)), ("Rgate", (36,)), ("BSgate", (0, 36)), ("Rgate", (36,)), ("MeasureFock", (0,))]
    if got != exp:
        res.violation("C12|borealis|layout-mismatch", f"compiled Borealis circuit {got} does not follow the layout", case)
        return True
    params = [list(map(float, a)) for a in out.tdm_params]
    # numeric loop offsets in the compiled circuit
    offs = []
    for c in out.circuit:
        if c.op.__class__.__name__ == "Rgate" and not hasattr(c.op.p[0], "free_symbols"):
            offs.append(float(c.op.p[0]))
    if len(offs) != 3 or np.max(np.abs(np.array(offs) - np.array(loop_phases))) > 1e-12:
        res.violation("C12|borealis|offset-values", f"compiled loop-offset gates carry {offs}, certificate says {list(loop_phases)}", case)
        return True
    for k, (lo, hi) in {1: (-PI / 2, PI / 2), 3: (-PI / 2, PI / 2), 5: (-PI / 2, PI / 2), 2: (0, PI / 2), 4: (0, PI / 2), 6: (0, PI / 2)}.items():
        bad = [v for v in params[k] if not (lo - 1e-9 <= v <= hi + 1e-9)]
        if bad:
            res.violation("C12|borealis|parameter-out-of-range", f"compiled array p{k} contains {bad[:3]} outside [{lo:.3f}, {hi:.3f}] (loop phases {loop_phases}, r {rpat})", case)
            return True
    # semantics
    # the ideal experiment: loops without intrinsic phase - unless the user wrote the offset gates into the program,
    # in which case the program means exactly what it says
    uo = _uo(user_offsets)
    if any(uo) and not all(uo):
        # offset gates written for some loops only: what the experiment then "means" is not defined by the documentation
        # (the compensation of a compiler-handled loop has to be undone at the next loop, which the user claimed for
        # himself) - only layout, offset values and ranges are judged, which happened above
        res.stats["borealis_partial_user_offsets_structural_only"] += 1
        return True
    mu_i, V_i = joint(ideal_list, tuple(ph if u else 0.0 for ph, u in zip(loop_phases, uo)))
    mu_c, V_c = joint(params, loop_phases)
    ok, why = same_statistics(V_i, V_c)
    if ok:
        res.stats["borealis_statistics_equal"] += 1
        return True
    # were values moved by pi?  Undo every pi move and compare again
    shifted = 0
    undone = [list(a) for a in params]
    corr_prev = np.zeros(T)
    for loop in range(3):
        # a loop whose offset gate the user wrote is left as written: no correction is applied to it
        corr = np.zeros(T) if uo[loop] else np.array([loop_phases[loop] * int(j / DELAYS[loop]) for j in range(T)])
        idealc = np.array(ideal_list[1 + 2 * loop]) + (0 if uo[loop] else corr - corr_prev)
        for j in range(T):
            d = (params[1 + 2 * loop][j] - idealc[j]) % (2 * PI)
            if min(d, 2 * PI - d) > 1e-7:
                if abs(d - PI) > 1e-7:
                    res.violation("C12|borealis|compensation-value" + ("|partial-user-offsets" if (any(uo) and not all(uo)) else ""), f"compiled r{loop}[{j}] = {params[1 + 2 * loop][j]:.6f} is neither the compensated value {idealc[j]:.6f} nor that value shifted by pi (mod 2 pi)", case)
                    return True
                shifted += 1
                undone[1 + 2 * loop][j] = idealc[j]
        corr_prev = corr
    if shifted == 0:
        res.violation("C12|borealis|statistics" + ("|partial-user-offsets" if (any(uo) and not all(uo)) else ""), f"no phase had to be moved by pi, yet the compiled program's photon statistics differ from the ideal experiment ({why}); loop phases {loop_phases}, r {rpat}, bs {bspat}, prepared={prepared}, user offsets={user_offsets}", case)
        return True
    res.stats["borealis_pi_shifted_cases"] += 1
    mu_u, V_u = joint(undone, loop_phases)
    ok2, why2 = same_statistics(V_i, V_u)
    if not ok2:
        res.violation("C12|borealis|statistics|after-undoing-pi-shifts" + ("|partial-user-offsets" if (any(uo) and not all(uo)) else ""), f"even with the {shifted} pi-shifted values put back, the compiled program differs from the ideal experiment ({why2}); loop phases {loop_phases}, r {rpat}", case)
    return True


def cases(quick):
    certs = [(0.0, 0.0, 0.0), (0.3, 0.0, 0.0), (0.0, 0.3, 0.0), (0.0, 0.0, -1.1), (0.478, 1.337, 0.112)]
    comps = (3, 8) if quick else (3, 8, 14)
    out = []
    for cert in certs:
        for comp in comps:
            for rpat in ("zero", "const", "alt"):
                for bspat in ("half",) if quick else ("half", "mixed"):
                    for prepared in (False, True):
                        for uo in (False, True):
                            out.append((cert, comp, rpat, bspat, prepared, uo))
    # offset gates written by the user for some loops only
    for cert in certs[1:]:
        for comp in comps[:2]:
            for rpat in ("const", "alt"):
                for uo in ((True, False, False), (False, True, False), (False, False, True), (True, True, False), (True, False, True), (False, True, True)):
                    out.append((cert, comp, rpat, "half", False, uo))
    # sources that deviate from the layout in one hard-coded argument: must be refused
    for cert in certs[:1] + certs[-1:]:
        for w in WRONG_FIXED:
            for uo in (False, True):
                for ranges in (True, False):
                    out.append((cert, 3, "const", "half", True, uo, w, ranges))
    return out


def work(task):
    res = Res()
    for c in task:
        res.n += 1
        if check(*c[:6], res, *c[6:]):
            res.nt += 1
            res.sample({"borealis": True, "loop_phases": list(c[0]), "computational_modes": c[1], "r": c[2], "bs": c[3], "prepared_by_full_compile": c[4], "user_offset_gates": c[5]}, cap=1)
    return res


def replay(case):
    res = Res()
    check(tuple(case["loop_phases"]), case["comp"], case["rpat"], case["bspat"], case["prepared"], tuple(case["user_offsets"]) if isinstance(case["user_offsets"], list) else case["user_offsets"], res, case.get("wrong"), case.get("ranges", True))
    return [(s, w) for s, w, _ in res.viol]
