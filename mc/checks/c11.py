"""C11 - Gaussian-merging compilers return a program with the same net action.

Form S: every circuit up to length L over the letter alphabet (Gaussian gates incl. daggered forms, 1/2/3-mode
Interferometers and GaussianTransforms; for 'passive' also LossChannel and PassiveChannel; for 'gaussian_merge' also
non-Gaussian gates and measurements) placed on every ordered tuple of several index sets - contiguous, descending,
non-contiguous and >= 9-mode ones - is compiled by the real gaussian_unitary / passive / gaussian_merge compilers.
Oracle: the compiled circuit, read with its modes in the order it lists them, has the same reference map (X, Y, d)
on the full register as the source and touches only modes the source used; hybrid circuits are judged by running
source and compiled program on the Fock simulator.  Compilation may instead raise CircuitError.
"""
import itertools
import warnings

import numpy as np

import strawberryfields as sf
from strawberryfields import ops
from strawberryfields.program_utils import CircuitError

from mc.core.ctx import Res
from mc.ref import opsem, phase as ph

ID = "C11"
LEVEL = "exploration"
RULE = __doc__ + " Non-trivial: the compiler returned fewer commands than the source or a merged matrix operation."
PI = np.pi

U1 = np.array([[np.exp(0.7j)]])
U2 = np.array([[np.cos(0.5), -np.exp(-0.3j) * np.sin(0.5)], [np.exp(0.3j) * np.sin(0.5), np.cos(0.5)]]) * np.exp(0.2j)
_c, _s = np.cos(0.4), np.sin(0.4)
U3 = np.array([[_c, -_s, 0], [_s, _c, 0], [0, 0, 1]], dtype=complex) @ np.diag(np.exp(1j * np.array([0.1, 0.5, -0.9]))) @ np.array([[1, 0, 0], [0, np.cos(0.8), -np.sin(0.8)], [0, np.sin(0.8), np.cos(0.8)]], dtype=complex)
S1 = ph.squeeze(0.3, 0.5) @ ph.rot(0.4)
S2m = ph.two_mode_squeeze(0.2, 0.3) @ ph.embed(ph.rot(0.5), [0], 2) @ ph.beamsplitter(0.4, 0.2)
S3m = ph.embed(ph.beamsplitter(0.3, 0.1), [1, 2], 3) @ ph.embed(ph.squeeze(0.2, 0.4), [0], 3) @ ph.embed(ph.two_mode_squeeze(0.15, 0.0), [0, 2], 3)
T1 = np.array([[0.8 * np.exp(0.3j)]])
T2 = 0.9 * U2

LET = {
    "D": (lambda: ops.Dgate(0.3, 0.4), 1),
    "D.H": (lambda: ops.Dgate(0.3, 0.4).H, 1),
    "S": (lambda: ops.Sgate(0.25, 0.3), 1),
    "S.H": (lambda: ops.Sgate(0.25, 0.3).H, 1),
    "R": (lambda: ops.Rgate(0.6), 1),
    "R.H": (lambda: ops.Rgate(0.6).H, 1),
    "BS": (lambda: ops.BSgate(0.5, 0.3), 2),
    "BS.H": (lambda: ops.BSgate(0.5, 0.3).H, 2),
    "MZ": (lambda: ops.MZgate(0.4, 0.9), 2),
    "MZ.H": (lambda: ops.MZgate(0.4, 0.9).H, 2),
    "sMZ": (lambda: ops.sMZgate(0.4, 0.9), 2),
    "S2": (lambda: ops.S2gate(0.2, 0.5), 2),
    "S2.H": (lambda: ops.S2gate(0.2, 0.5).H, 2),
    "I1": (lambda: ops.Interferometer(U1), 1),
    "I2": (lambda: ops.Interferometer(U2), 2),
    "I3": (lambda: ops.Interferometer(U3), 3),
    "GT1": (lambda: ops.GaussianTransform(S1), 1),
    "GT2": (lambda: ops.GaussianTransform(S2m), 2),
    "GT3": (lambda: ops.GaussianTransform(S3m), 3),
    "X": (lambda: ops.Xgate(0.3), 1),
    "CX": (lambda: ops.CXgate(0.3), 2),
    "Loss": (lambda: ops.LossChannel(0.6), 1),
    "PC1": (lambda: ops.PassiveChannel(T1), 1),
    "PC2": (lambda: ops.PassiveChannel(T2), 2),
    # non-Gaussian / measurements (gaussian_merge only), small parameters for the Fock comparison
    "K": (lambda: ops.Kgate(0.4), 1),
    "V": (lambda: ops.Vgate(0.05), 1),
    "CK": (lambda: ops.CKgate(0.5), 2),
    "d": (lambda: ops.Dgate(0.12, 0.4), 1),
    "s": (lambda: ops.Sgate(0.1, 0.3), 1),
    "bs": (lambda: ops.BSgate(0.5, 0.3), 2),
    "r": (lambda: ops.Rgate(0.6), 1),
    "s2": (lambda: ops.S2gate(0.08, 0.5), 2),
    "i3": (lambda: ops.Interferometer(U3), 3),
    "Ksub": (lambda: ops.Rgate(0.9), 1),
}
ALPH = {
    "gaussian_unitary": ["D", "D.H", "S", "S.H", "R", "R.H", "BS", "BS.H", "MZ", "MZ.H", "sMZ", "S2", "S2.H", "I1", "I2", "I3", "GT1", "GT2", "GT3", "X", "CX"],
    "passive": ["R", "R.H", "BS", "BS.H", "MZ", "MZ.H", "sMZ", "I1", "I2", "I3", "Loss", "PC1", "PC2"],
    "gaussian_merge": ["D", "S", "S.H", "R", "BS", "BS.H", "MZ", "S2", "I2", "GT2", "X"],
    "gaussian_merge_hybrid": ["d", "s", "r", "bs", "s2", "K", "V", "CK"],
    "gaussian_merge_front": ["d", "r", "bs", "i3"],
}
# (register size, index set): ordered tuples are drawn from the index set
INDEX_SETS = [(3, (0, 1, 2)), (10, (1, 9)), (9, (8, 0)), (10, (3, 7, 9)), (11, (0, 10, 2)), (17, (16, 8, 1))]
FOCK_CUTOFF = 9


class Hang(Exception):
    pass


class time_limit:
    """a compile that does not return within the limit is a violation (the worker's alarm clock)"""

    def __init__(self, seconds):
        self.seconds = seconds

    def _raise(self, *a):
        raise Hang(f"no result after {self.seconds} s")

    def __enter__(self):
        import signal

        self._old = signal.signal(signal.SIGALRM, self._raise)
        signal.setitimer(signal.ITIMER_REAL, self.seconds)

    def __exit__(self, *a):
        import signal

        signal.setitimer(signal.ITIMER_REAL, 0)
        signal.signal(signal.SIGALRM, self._old)


def letters(compiler, idx):
    out = []
    for lab in ALPH[compiler]:
        ar = LET[lab][1]
        if ar > len(idx):
            continue
        for modes in itertools.permutations(idx, ar):
            out.append((lab, modes))
    return out


def build(n, seq):
    prog = sf.Program(n)
    with warnings.catch_warnings():
        warnings.simplefilter("ignore")
        with prog.context as q:
            for lab, modes in seq:
                LET[lab][0]() | tuple(q[m] for m in modes)
    return prog


def fmt(seq):
    return " ; ".join(f"{l}{list(m)}" for l, m in seq)


def sig_modes(seq):
    """placement class of the circuit: ascending/descending order of multi-mode targets, contiguity"""
    used = sorted({m for _, ms in seq for m in ms})
    desc = any(list(ms) != sorted(ms) for _, ms in seq if len(ms) > 1)
    contiguous = used == list(range(len(used)))
    return ("desc" if desc else "asc") + ("" if contiguous else "|sparse")


def families(seq):
    """coarse letter families of a (minimised) circuit: daggered gate, matrix-valued operation, two-mode gate, one-mode gate"""
    f = set()
    for l, ms in seq:
        if l.endswith(".H"):
            f.add("dagger")
        elif l[0] in "IGP" and l[-1].isdigit():
            f.add(f"matrix{len(ms)}")
        else:
            f.add(f"gate{len(ms)}")
    return "+".join(sorted(f))


def check_gaussian(compiler, n, seq, res):
    case = {"compiler": compiler, "n": n, "seq": [[l, list(m)] for l, m in seq]}
    prog = build(n, seq)
    try:
        ref = opsem.program_map(prog.circuit, n)
    except opsem.Unsupported:
        res.stats["no_reference"] += 1
        return False
    try:
        with warnings.catch_warnings():
            warnings.simplefilter("ignore")
            out = prog.compile(compiler=compiler)
    except CircuitError:
        res.stats["circuit_error"] += 1
        return False
    except Exception as e:
        res.violation(f"C11|{compiler}|raises|{type(e).__name__}", f"compiling [{fmt(seq)}] for {compiler} raised {type(e).__name__}: {e}", case)
        return False
    used = {m for _, ms in seq for m in ms}
    touched = {r.ind for c in out.circuit for r in c.reg}
    if not touched <= used:
        res.violation(f"C11|{compiler}|foreign-modes", f"compiled [{fmt(seq)}] acts on modes {sorted(touched - used)} the source never used", case)
    try:
        got = opsem.program_map(out.circuit, n)
    except opsem.Unsupported as e:
        res.violation(f"C11|{compiler}|uninterpretable", f"compiled [{fmt(seq)}] contains {e}", case)
        return False
    scale = max(1.0, float(np.max(np.abs(ref.X))))
    ok, why = ref.equal(got, 1e-9 * scale)
    if not ok:
        mseq = minimise(compiler, n, seq)
        dag = "|dagger" if any(l.endswith(".H") for l, _ in mseq) else ""
        res.violation(f"C11|{compiler}|map|{families(mseq)}|{sig_modes(mseq)}", f"[{fmt(seq)}] on a {n}-mode register compiled for {compiler} into {[str(c)[:60] for c in out.circuit]}: {why}", case)
    return len(out.circuit) < len(prog.circuit) or any(c.op.__class__.__name__ in ("GaussianTransform", "PassiveChannel") for c in out.circuit)


def _fails(compiler, n, seq):
    r = Res()
    prog = build(n, seq)
    try:
        ref = opsem.program_map(prog.circuit, n)
        with warnings.catch_warnings():
            warnings.simplefilter("ignore")
            out = prog.compile(compiler=compiler)
        got = opsem.program_map(out.circuit, n)
    except Exception:
        return False
    ok, _ = ref.equal(got, 1e-9 * max(1.0, float(np.max(np.abs(ref.X)))))
    return not ok


def minimise(compiler, n, seq):
    seq = list(seq)
    changed = True
    while changed and len(seq) > 1:
        changed = False
        for i in range(len(seq)):
            cand = seq[:i] + seq[i + 1 :]
            if _fails(compiler, n, cand):
                seq, changed = cand, True
                break
    return seq


def fock_state(circuit, n):
    """density matrix after applying the circuit to a PURE product of different coherent states (passive gates in a wrong
    order are invisible on the vacuum; displacing through the backend API keeps the fast state-vector mode)"""
    from strawberryfields.backends import load_backend
    from strawberryfields.compilers import compiler_db

    b = load_backend("fock")
    with warnings.catch_warnings():
        warnings.simplefilter("ignore")
        b.begin_circuit(n, cutoff_dim=FOCK_CUTOFF, pure=True)
        for i in range(n):
            b.displacement(0.25 + 0.1 * i, 0.4 * i, i)
        for cmd in compiler_db["fock"]().decompose(list(circuit)):
            cmd.op.apply(cmd.reg, b)
        return b.state()


def check_hybrid(n, seq, res):
    """gaussian_merge on circuits with non-Gaussian gates: source and compiled program on the Fock simulator"""
    case = {"compiler": "gaussian_merge", "n": n, "seq": [[l, list(m)] for l, m in seq], "hybrid": True}
    prog = build(n, seq)
    try:
        with warnings.catch_warnings():
            warnings.simplefilter("ignore")
            with time_limit(20):
                out = prog.compile(compiler="gaussian_merge")
    except CircuitError:
        res.stats["circuit_error"] += 1
        return False
    except Hang as e:
        res.violation("C11|gaussian_merge|does-not-return|hybrid", f"compiling [{fmt(seq)}] for gaussian_merge: {e}", case)
        return False
    except Exception as e:
        res.violation(f"C11|gaussian_merge|raises|{type(e).__name__}|hybrid", f"compiling [{fmt(seq)}] for gaussian_merge raised {type(e).__name__}: {e}", case)
        return False
    # structural: every non-Gaussian command of the source appears exactly once, same object class/modes/parameters, same relative order per mode
    ng = lambda c: c.op.__class__.__name__ in ("Kgate", "Vgate", "CKgate")
    src_ng = [(c.op.__class__.__name__, tuple(r.ind for r in c.reg), tuple(map(float, c.op.p))) for c in prog.circuit if ng(c)]
    out_ng = [(c.op.__class__.__name__, tuple(r.ind for r in c.reg), tuple(map(float, c.op.p))) for c in out.circuit if ng(c)]
    if sorted(src_ng) != sorted(out_ng):
        res.violation("C11|gaussian_merge|non-gaussian-commands", f"compiled [{fmt(seq)}] has non-Gaussian commands {out_ng}, source {src_ng}", case)
        return False
    try:
        a, b = fock_state(prog.circuit, n), fock_state(out.circuit, n)
        da, db = (a.dm(), b.dm())
    except Exception as e:
        res.violation(f"C11|gaussian_merge|run-raises|{type(e).__name__}", f"running [{fmt(seq)}] or its compiled form raised {type(e).__name__}: {e}", case)
        return False
    lost = max(0.0, 1 - float(np.real(a.trace())), 1 - float(np.real(b.trace())))
    tol = 1e-6 + 4 * np.sqrt(lost)
    d = float(np.max(np.abs(da - db)))
    res.stats["hybrid_max_ratio_x1000"] = max(res.stats["hybrid_max_ratio_x1000"], int(1000 * d / tol))
    if d > tol:
        res.violation(f"C11|gaussian_merge|state|{'+'.join(sorted({l for l, _ in seq if l in ('K', 'V', 'CK')}))}", f"[{fmt(seq)}] and its gaussian_merge compilation {[str(c)[:50] for c in out.circuit]} give Fock states differing by {d:.3g} (truncation tolerance {tol:.3g})", case)
    return len(out.circuit) != len(prog.circuit)


ORDER3 = [("r", (0,)), ("r", (1,)), ("r", (2,)), ("bs", (0, 1)), ("bs", (1, 2)), ("bs", (0, 2)), ("K", (0,)), ("K", (1,)), ("K", (2,))]


ORDER3_QUICK = [l for l in ORDER3 if l[0] != "r" or l[1] == (0,)]  # one rotation only: 7 letters


def check_order(n, seq, res):
    """gaussian_merge on longer three-mode circuits with Kerr gates, judged without a simulator: the compile returns (or refuses
    with a circuit error), the Kerr gates survive unchanged, and after replacing every Kerr gate - in the source and in the
    compiled circuit - by the same rotation (a gate that, like the Kerr gate, commutes with rotations of its own mode and with
    nothing else in the alphabet) the two circuits are the same Gaussian map.  A Gaussian gate that changed sides of a Kerr gate
    it does not commute with changes that map."""
    from strawberryfields.program_utils import Command

    case = {"compiler": "gaussian_merge", "n": n, "seq": [[l, list(m)] for l, m in seq], "order": True}
    prog = build(n, seq)
    try:
        with warnings.catch_warnings():
            warnings.simplefilter("ignore")
            with time_limit(20):
                out = prog.compile(compiler="gaussian_merge")
    except CircuitError:
        res.stats["circuit_error"] += 1
        return False
    except Hang as e:
        res.violation("C11|gaussian_merge|does-not-return|hybrid", f"compiling [{fmt(seq)}] for gaussian_merge: {e}", case)
        return False
    except Exception as e:
        res.violation(f"C11|gaussian_merge|raises|{type(e).__name__}|hybrid", f"compiling [{fmt(seq)}] for gaussian_merge raised {type(e).__name__}: {e}", case)
        return False
    src_ng = sorted((tuple(r.ind for r in c.reg), tuple(map(float, c.op.p))) for c in prog.circuit if c.op.__class__.__name__ == "Kgate")
    out_ng = sorted((tuple(r.ind for r in c.reg), tuple(map(float, c.op.p))) for c in out.circuit if c.op.__class__.__name__ == "Kgate")
    if src_ng != out_ng:
        res.violation("C11|gaussian_merge|non-gaussian-commands", f"compiled [{fmt(seq)}] has Kerr gates {out_ng}, source {src_ng}", case)
        return False
    sub = lambda circ: [Command(LET["Ksub"][0](), c.reg) if c.op.__class__.__name__ == "Kgate" else c for c in circ]
    try:
        ref = opsem.program_map(sub(prog.circuit), n)
        got = opsem.program_map(sub(out.circuit), n)
    except opsem.Unsupported as e:
        res.violation("C11|gaussian_merge|uninterpretable", f"compiled [{fmt(seq)}] contains {e}", case)
        return False
    ok, why = ref.equal(got, 1e-9)
    if not ok:
        res.violation("C11|gaussian_merge|order|K", f"[{fmt(seq)}] compiled for gaussian_merge into {[str(c)[:50] for c in out.circuit]}: with every Kerr gate replaced by the same rotation the two circuits are different maps ({why}) - a Gaussian gate changed sides of a Kerr gate", case)
    return len(out.circuit) != len(prog.circuit)


def work(task):
    kind, compiler, n, idx, prefix, L = task
    res = Res()
    if kind == "order":
        for k in range(0, L - len(prefix) + 1):
            for tail in itertools.product(idx, repeat=k):  # for this family the fourth task field carries the alphabet
                seq = tuple(prefix) + tail
                if not any(l == "K" for l, _ in seq) or not any(l == "bs" for l, _ in seq):
                    continue
                res.n += 1
                res.stats["order_family"] += 1
                if check_order(n, seq, res):
                    res.nt += 1
        return res
    alpha = letters(compiler if kind == "gauss" else ("gaussian_merge_front" if kind == "front" else "gaussian_merge_hybrid"), idx)
    for k in range(0, L - len(prefix) + 1):
        for tail in itertools.product(alpha, repeat=k):
            seq = tuple(prefix) + tail
            if not seq:
                continue
            if kind in ("hybrid", "front") and not any(l in ("K", "V", "CK") for l, _ in seq):
                continue
            res.n += 1
            nt = check_gaussian(compiler, n, seq, res) if kind == "gauss" else check_hybrid(n, seq, res)
            if nt:
                res.nt += 1
                res.sample({"compiler": compiler, "register": n, "circuit": fmt(seq)})
    return res


def run(ctx):
    quick = ctx.tier == "quick"
    tasks = []
    for compiler in ("gaussian_unitary", "passive", "gaussian_merge"):
        for n, idx in INDEX_SETS:
            L = 2
            if not quick and idx == (0, 1, 2):
                L = 3
            alpha = letters(compiler, idx)
            for a in alpha:
                tasks.append(("gauss", compiler, n, idx, (a,), L))
    # hybrid circuits: two modes up to length 4 (5 thorough), three modes up to length 3 (thorough)
    hy2 = letters("gaussian_merge_hybrid", (0, 1))
    for a, b in itertools.product(hy2, repeat=2):
        tasks.append(("hybrid", "gaussian_merge", 2, (0, 1), (a, b), 4 if quick else 5))
    for a in hy2:
        tasks.append(("hybrid", "gaussian_merge", 2, (0, 1), (a,), 1))
    if not quick:
        for a in letters("gaussian_merge_hybrid", (0, 1, 2)):
            tasks.append(("hybrid", "gaussian_merge", 3, (0, 1, 2), (a,), 3))
    # three modes with a two-mode non-Gaussian gate in front of Gaussian gates (length 4; thorough 5 with the full front alphabet)
    front = letters("gaussian_merge_front", (0, 1, 2))
    if quick:
        front = [l for l in front if l[0] != "i3" or l[1] == (0, 1, 2)]
    for ck in itertools.permutations((0, 1, 2), 2):
        for a in front:
            tasks.append(("front", "gaussian_merge", 3, (0, 1, 2), (("CK", ck), a), 4 if quick else 5))
    # three modes, Kerr gates between rotations and beamsplitters, up to length 5, judged by substitution (no simulator)
    o3 = ORDER3_QUICK if quick else ORDER3
    for a, b in itertools.product(o3, repeat=2):
        tasks.append(("order", "gaussian_merge", 3, tuple(o3), (a, b), 5))
    for r in ctx.pmap(work, tasks, chunksize=2):
        ctx.add(r)
        if ctx.time_left() < 0:
            ctx.close()
            ctx.cap_hit("time budget hit")
            break
    ctx.cov["index_sets"] = [[n, list(i)] for n, i in INDEX_SETS]
    ctx.assumptions += [
        "pure Gaussian circuits: equality of the reference (X, Y, d) on the full register decides equality for every input state; hybrid circuits (gaussian_merge with Kgate/Vgate/CKgate): differential run of source and compiled program on the Fock simulator at cutoff 9 with small parameters, tolerance 1e-6 + 4 sqrt(lost norm)",
        "index sets {0,1,2}, {1,9}, {8,0}, {3,7,9}, {0,10,2}, {16,8,1} in registers of 3-17 modes; length <= 2 (3 on the contiguous set in thorough); hybrid circuits: 2 modes up to length 4 (5 thorough), 3 modes up to length 3 (thorough)",
        "three-mode circuits over {Rgate on each mode, BSgate on each ascending pair, Kgate on each mode} up to length 5 (quick: one rotation letter only): judged without a simulator - Kerr gates survive unchanged and, with every Kerr gate replaced by one fixed rotation in source and compiled circuit alike, both are the same Gaussian map (assumes the compiler uses no property of the Kerr gate beyond commuting with rotations of its own mode)",
    ]


def replay(case):
    res = Res()
    seq = tuple((l, tuple(m)) for l, m in case["seq"])
    if case.get("order"):
        check_order(case["n"], seq, res)
    elif case.get("hybrid"):
        check_hybrid(case["n"], seq, res)
    else:
        check_gaussian(case["compiler"], case["n"], seq, res)
    return [(s, w) for s, w, _ in res.viol]
