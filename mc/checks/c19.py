"""C19 - GBS application helpers are combinatorially exact and structurally sound.

Form S + N (bounded-exhaustive, no sampling):

1. similarity.py - for EVERY photon number n, EVERY mode count m and EVERY max_count_per_mode c in the bounds:
   orbits(n) against my own partition generator, orbit_cardinality / event_cardinality against exact integer
   arithmetic (math.factorial; event count = coefficient of x^n in (1+x+...+x^c)^m, cross-checked with the sum over
   partitions), orbit_to_sample / event_to_sample under the chooser (every orbit the routine may draw is followed;
   in the small range every permutation of the shuffle too, and the induced distribution over samples is compared
   with the uniform one).  Every sample with <= P photons on <= M modes: sample_to_orbit / sample_to_event.
2. clique.py - every labelled graph on <= N nodes under up to three labellings (0..n-1; non-contiguous sorted;
   non-contiguous inserted in scrambled order), every node subset as seed, node_select in {uniform, degree, every
   weight vector in {1,2}^n}: is_clique, c_0, c_1 against brute force; grow, swap, search, shrink under the chooser
   (choice-DFS with replay: every answer of every np.random.choice is followed) - results are cliques of the input
   graph, every pick is admissible under the documented rule (reference: candidate set, then tie set of maximal
   degree / weight), the candidate list handed to np.random.choice has the size of the reference tie set, and every
   result the documented rule can produce is produced by some answer sequence.
3. subgraph.py - resize on every graph / subset / (min_size <= max_size) pair / weight vector under the chooser;
   search on (a) every sequence of equally sized subgraphs (bookkeeping: max_count, order, duplicates, densities,
   "the densest identified") with every coin flip and (b) every list of one or two subgraphs with resizing.
4. sample.py - postselect, modes_from_counts, to_subgraphs against their one-line definitions.
"""
import itertools
import json
import math
from collections import Counter

import networkx as nx
import numpy as np

from strawberryfields.apps import clique as cq
from strawberryfields.apps import sample as smp
from strawberryfields.apps import similarity as sim
from strawberryfields.apps import subgraph as sg

from mc.core.chooser import Chooser, Draw, default_menu
from mc.core.ctx import Res

ID = "C19"
LEVEL = "exploration"
RULE = (
    "a case = one routine applied to one input; all chooser answer sequences of that input are one case and each executed "
    "sequence is one evaluation. Non-trivial: for random routines (orbit_to_sample, event_to_sample, grow, swap, search, "
    "shrink, resize, subgraph.search) some draw offered >= 2 answers or the result differs from the seed / is non-empty; for "
    "counting routines the exact count is >= 2; for definitions (c_0, c_1, sample_to_*, postselect, modes_from_counts, "
    "to_subgraphs) the expected result is non-empty / not None"
)

WALL = {"quick": 85.0, "thorough": 870.0}
MAX_EXECS = 60000  # per input; never reached inside the bounds (a hit is reported as a cap)
PCOUNT = [1, 1, 2, 3, 5, 7, 11, 15, 22, 30, 42, 56, 77, 101, 135]


# ============================================================================ chooser
class Diverged(Exception):
    pass


class AllChooser(Chooser):
    def _answer(self, fn, args):
        menu = self.menu_fn(fn, args)
        d = Draw(fn, args, menu)
        k = len(self.draws)
        if k < len(self.prefix):
            if self.prefix[k] >= len(menu):
                raise Diverged(f"draw {k}: menu has {len(menu)} answers, replay asks for {self.prefix[k]}")
            d.chosen = self.prefix[k]
        self.draws.append(d)
        return menu[d.chosen]


_PERMS = {}
SHUFFLE_ALL_MAX = 6
UNOWNED = Counter()


def _perms_all(n):
    if n not in _PERMS:
        _PERMS[n] = [list(p) for p in itertools.permutations(range(n))]
    return _PERMS[n]


def _perms_fixed(n):
    key = ("f", n)
    if key not in _PERMS:
        out = []
        for p in (list(range(n)), list(range(n))[::-1], list(range(1, n)) + [0] if n else []):
            if p not in out:
                out.append(p)
        _PERMS[key] = out
    return _PERMS[key]


def _choice_menu(a):
    """ALL admissible answers of np.random.choice(a, p=p): every element with non-zero probability (numpy's own
    argument errors are reproduced so that the library sees the same exceptions)."""
    if a["size"] is not None:
        UNOWNED["choice-with-size"] += 1
        return default_menu("choice", a)
    arr = np.arange(a["a"]) if np.isscalar(a["a"]) else np.asarray(a["a"])
    if arr.ndim != 1:
        raise ValueError("a must be 1-dimensional")
    if len(arr) == 0:
        raise ValueError("a cannot be empty unless no samples are taken")
    p = a["p"]
    if p is None:
        return list(arr)
    p = np.asarray(p, dtype=float)
    if p.shape != arr.shape:
        raise ValueError("a and p must have same size")
    if np.any(np.isnan(p)) or np.any(p < 0):
        raise ValueError("probabilities are not non-negative")
    if abs(p.sum() - 1.0) > 1e-8:
        raise ValueError("probabilities do not sum to 1")
    return [arr[i] for i in range(len(arr)) if p[i] > 0]


def menu_all(fn, a):
    if fn == "choice":
        return _choice_menu(a)
    if fn == "shuffle":
        return _perms_all(a["n"]) if a["n"] <= SHUFFLE_ALL_MAX else _perms_fixed(a["n"])
    UNOWNED[fn] += 1
    return default_menu(fn, a)


def menu_fixed(fn, a):
    if fn == "choice":
        return _choice_menu(a)
    if fn == "shuffle":
        return _perms_fixed(a["n"])
    UNOWNED[fn] += 1
    return default_menu(fn, a)


def menu_identity(fn, a):
    if fn == "choice":
        return _choice_menu(a)
    if fn == "shuffle":
        return [list(range(a["n"]))]
    UNOWNED[fn] += 1
    return default_menu(fn, a)


MENUS = {"all": menu_all, "fixed3": menu_fixed, "identity": menu_identity}


def runs(fn, only=None, menu=menu_all, cap=MAX_EXECS):
    """Stateless DFS with replay over every sequence of chooser answers; yields (answers, draws, outcome) with
    outcome = ("ok", value) | ("exc", exception).  only=[...] executes exactly that answer prefix once."""
    if only is not None:
        stack = [list(only)]
    else:
        stack = [[]]
    n = 0
    while stack:
        prefix = stack.pop()
        ch = AllChooser(prefix, menu)
        with ch:
            try:
                out = ("ok", fn())
            except Diverged:
                raise
            except Exception as e:  # noqa: BLE001 - every library exception is an observation
                out = ("exc", e)
        n += 1
        yield [d.chosen for d in ch.draws], ch.draws, out
        if only is not None:
            return
        if n >= cap:
            yield None, None, None
            return
        for i in range(len(prefix), len(ch.draws)):
            for alt in range(1, len(ch.draws[i].menu)):
                stack.append([d.chosen for d in ch.draws[:i]] + [alt])


def had_choice(draws):
    return any(len(d.menu) > 1 for d in draws)


# ============================================================================ exact combinatorics (reference)
def partitions(n, maxpart=None):
    def rec(n, mx):
        if n == 0:
            yield ()
            return
        for k in range(min(n, mx), 0, -1):
            for rest in rec(n - k, k):
                yield (k,) + rest

    return list(rec(n, n if maxpart is None else maxpart))


def exact_orbit_card(orbit, modes):
    if len(orbit) > modes:
        return 0
    d = math.factorial(modes - len(orbit))
    for v in Counter(orbit).values():
        d *= math.factorial(v)
    q, r = divmod(math.factorial(modes), d)
    if r:
        raise RuntimeError("reference multinomial is not an integer")
    return q


def event_table(n, c, mmax):
    """T[m] = number of m-mode samples with n photons and at most c per mode (coefficient extraction, exact)."""
    poly = [1] + [0] * n
    T = [poly[n]]
    for _ in range(mmax):
        new = [0] * (n + 1)
        for k in range(n + 1):
            s = 0
            for j in range(0, min(c, k) + 1):
                s += poly[k - j]
            new[k] = s
        poly = new
        T.append(poly[n])
    return T


def rtype(r):
    if isinstance(r, (bool, np.bool_)):
        return "other-result"
    if isinstance(r, (int, np.integer)):
        return "int-result"
    if isinstance(r, (float, np.floating)):
        return "float-result"
    return "other-result"


def same_number(r, exact):
    try:
        if isinstance(r, (np.integer,)):
            r = int(r)
        if isinstance(r, (np.floating,)):
            r = float(r)
        return isinstance(r, (int, float)) and not isinstance(r, bool) and r == exact  # python compares int/float exactly
    except Exception:  # noqa: BLE001
        return False


_BRUTE = {}


def brute_samples(modes, c):
    """all tuples in {0..c}^modes grouped by photon number (brute force)."""
    key = (modes, c)
    if key not in _BRUTE:
        d = {}
        for s in itertools.product(range(c + 1), repeat=modes):
            d.setdefault(sum(s), []).append(s)
        _BRUTE[key] = d
    return _BRUTE[key]


def orbit_of(sample):
    out = []
    cnt = Counter(int(x) for x in sample)
    for v in sorted(cnt, reverse=True):
        if v > 0:
            out += [v] * cnt[v]
    return out


# ---------------------------------------------------------------------------- similarity checks
def chk_orbits(res, n):
    res.n += 1
    res.stats["exec:similarity.orbits"] += 1
    case = {"kind": "orbits", "n": n}
    exp = partitions(n)
    if n < len(PCOUNT) and len(exp) != PCOUNT[n]:
        raise RuntimeError("reference partition generator disagrees with the known partition numbers")
    if len(exp) >= 2:
        res.nt += 1
    limit = 4 * len(exp) + 8  # a generator that never stops must not hang the check
    try:
        got = [list(o) for o in itertools.islice(sim.orbits(n), limit)]
    except Exception as e:  # noqa: BLE001
        res.violation(f"C19|orbits|raises|{type(e).__name__}", f"orbits({n}) raised {e!r}", case)
        return
    if len(got) >= limit:
        res.violation("C19|orbits|too-many", f"orbits({n}) yielded at least {limit} orbits, there are {len(exp)} partitions", case)
        return
    seen = Counter()
    for o in got:
        # the library writes the single orbit of zero photons as [0]; the count (one orbit) is what the property asks for
        if not (n == 0 and list(o) == [0]) and any((not isinstance(x, (int, np.integer))) or x <= 0 for x in o):
            res.violation("C19|orbits|non-positive-part", f"orbits({n}) yielded {o}: an orbit / integer partition has positive parts only (sample_to_orbit strips zeros; the orbit of the vacuum sample is [])", case)
        if sum(o) != n:
            res.violation("C19|orbits|wrong-sum", f"orbits({n}) yielded {o} with sum {sum(o)}", case)
        if any(a < b for a, b in zip(o, o[1:])):
            res.violation("C19|orbits|not-descending", f"orbits({n}) yielded {o}, not sorted in non-increasing order", case)
        seen[tuple(sorted((int(x) for x in o if x > 0), reverse=True))] += 1
    for k, v in seen.items():
        if v > 1:
            res.violation("C19|orbits|duplicate", f"orbits({n}) yielded partition {list(k)} {v} times", case)
            break
    missing = [list(p) for p in exp if p not in seen]
    foreign = [list(k) for k in seen if sum(k) == n and k not in set(exp)]
    if missing:
        res.violation("C19|orbits|missing-partition", f"orbits({n}) yields {len(got)} orbits, the {len(exp)} partitions of {n} include {missing[0]} which is never generated", case)
    if foreign:
        res.violation("C19|orbits|foreign", f"orbits({n}) yielded {foreign[0]} which is not a partition of {n}", case)


def chk_orbit_card(res, orbit, modes):
    orbit = list(orbit)
    res.n += 1
    res.stats["exec:similarity.orbit_cardinality"] += 1
    exact = exact_orbit_card(orbit, modes)
    if exact >= 2:
        res.nt += 1
    case = {"kind": "orbit_cardinality", "orbit": orbit, "modes": modes}
    arg = list(orbit)
    try:
        r = sim.orbit_cardinality(arg, modes)
    except Exception as e:  # noqa: BLE001
        res.violation(f"C19|orbit_cardinality|raises|{type(e).__name__}", f"orbit_cardinality({orbit}, {modes}) raised {e!r}", case)
        return
    if arg != orbit:
        # two-step history on one list object: the second answer must still be the exact count
        m2 = max(len(orbit), 1)
        try:
            r2 = sim.orbit_cardinality(arg, m2)
        except Exception as e:  # noqa: BLE001
            r2 = repr(e)
        res.violation("C19|orbit_cardinality|mutates-input", f"orbit_cardinality({orbit}, {modes}) changed the caller's list to {arg}; asking the same list again for {m2} modes gives {r2!r}, exact count {exact_orbit_card(orbit, m2)}", case)
    if not same_number(r, exact):
        if len(orbit) > modes:
            res.violation("C19|orbit_cardinality|exact-count|orbit-longer-than-modes", f"orbit_cardinality({orbit}, {modes}) = {r!r}; no {modes}-mode sample has {len(orbit)} occupied modes, the count is 0", case)
        else:
            res.violation(f"C19|orbit_cardinality|exact-count|{rtype(r)}", f"orbit_cardinality({orbit}, {modes}) = {r!r}; exact count modes!/((modes-len)! prod mult!) = {exact}", case)


def chk_event_card(res, n, c, modes, exact, overlong):
    res.n += 1
    res.stats["exec:similarity.event_cardinality"] += 1
    if exact >= 2:
        res.nt += 1
    case = {"kind": "event_cardinality", "n": n, "c": c, "modes": modes}
    try:
        r = sim.event_cardinality(n, c, modes)
    except Exception as e:  # noqa: BLE001
        res.violation(f"C19|event_cardinality|raises|{type(e).__name__}", f"event_cardinality({n}, {c}, {modes}) raised {e!r}", case)
        return
    if not same_number(r, exact):
        cls = "event-has-orbit-longer-than-modes" if overlong else "all-orbits-fit"
        lib = _lib_cards(n, c, modes)
        if lib is not None and _is_sum_of(r, lib):
            # the summation itself is right: the deviation is the one of orbit_cardinality on the orbits of the event
            res.violation(f"C19|event_cardinality|exact-count|{cls}", f"event_cardinality(photon_number={n}, max_count_per_mode={c}, modes={modes}) = {r!r}; exact number of samples = {exact} (the value equals the sum of orbit_cardinality over the orbits of the event, so the deviation is inherited from orbit_cardinality)", case)
        else:
            res.violation("C19|event_cardinality|own-summation", f"event_cardinality(photon_number={n}, max_count_per_mode={c}, modes={modes}) = {r!r}; exact number of samples = {exact}; not even the sum of orbit_cardinality over the partitions of {n} with parts <= {c}" + (f" (= {sum(lib)!r})" if lib is not None else ""), case)


def _lib_cards(n, c, modes):
    """the library's own orbit_cardinality over MY partitions of n with parts <= c (None if it raises)."""
    try:
        return [sim.orbit_cardinality(list(p), modes) for p in partitions(n, c)]
    except Exception:  # noqa: BLE001
        return None


def _is_sum_of(r, terms):
    """r is the sum of the terms: exactly when all terms are integers; when orbit_cardinality returned floats
    (modes > 170) up to the rigorous rounding bound of a floating-point summation in any order."""
    if all(isinstance(t, (int, np.integer)) and not isinstance(t, bool) for t in terms):
        return same_number(r, sum(int(t) for t in terms))
    try:
        from fractions import Fraction

        exact = sum(Fraction(float(t)) for t in terms)
        return abs(Fraction(float(r)) - exact) <= len(terms) * Fraction(1, 2**52) * abs(exact)
    except Exception:  # noqa: BLE001
        return False


def chk_sample_to(res, sample):
    sample = list(sample)
    res.n += 1
    res.stats["exec:similarity.sample_to_orbit"] += 1
    exp = orbit_of(sample)
    if exp:
        res.nt += 1
    try:
        arg = list(sample)
        r = sim.sample_to_orbit(arg)
        if not isinstance(r, list) or [int(x) for x in r] != exp:
            res.violation("C19|sample_to_orbit|definition", f"sample_to_orbit({sample}) = {r!r}, definition gives {exp}", {"kind": "sample_to", "sample": sample})
        if arg != sample:
            res.violation("C19|sample_to_orbit|mutates-input", f"sample_to_orbit({sample}) changed its argument to {arg}", {"kind": "sample_to", "sample": sample})
    except Exception as e:  # noqa: BLE001
        res.violation(f"C19|sample_to_orbit|raises|{type(e).__name__}", f"sample_to_orbit({sample}) raised {e!r}", {"kind": "sample_to", "sample": sample})
    for c in range(0, max(sample) + 2):
        res.n += 1
        res.stats["exec:similarity.sample_to_event"] += 1
        expe = sum(sample) if all(x <= c for x in sample) else None
        try:
            r = sim.sample_to_event(list(sample), c)
        except Exception as e:  # noqa: BLE001
            res.violation(f"C19|sample_to_event|raises|{type(e).__name__}", f"sample_to_event({sample}, {c}) raised {e!r}", {"kind": "sample_to", "sample": sample})
            continue
        if (r is None) != (expe is None) or (r is not None and not same_number(r, expe)):
            res.violation("C19|sample_to_event|definition", f"sample_to_event({sample}, {c}) = {r!r}, definition gives {expe}", {"kind": "sample_to", "sample": sample})


def _draw_probs(d):
    """probabilities of the menu entries of one np.random.choice draw (p=None means uniform)."""
    if d.args["p"] is None:
        return [1.0 / len(d.menu)] * len(d.menu)
    return [float(x) for x in d.args["p"] if x > 0]


def _is_sample(s, modes):
    return isinstance(s, list) and len(s) == modes and all(isinstance(x, (int, np.integer)) and x >= 0 for x in s)


def chk_orbit_to_sample(res, orbit, modes, menu_name, only=None):
    orbit = list(orbit)
    fits = len(orbit) <= modes
    full = menu_name == "all" and modes <= SHUFFLE_ALL_MAX
    hits = Counter()
    complete = only is None
    choice = False

    def call():
        arg = list(orbit)
        return sim.orbit_to_sample(arg, modes), arg

    for answers, draws, out in runs(call, only, MENUS[menu_name]):
        if answers is None:
            complete = False
            res.stats["dfs_cap_hit"] += 1
            break
        res.n += 1
        res.stats["exec:similarity.orbit_to_sample"] += 1
        case = {"kind": "orbit_to_sample", "orbit": orbit, "modes": modes, "menu": menu_name, "answers": answers}
        choice = choice or had_choice(draws)
        if out[0] == "exc":
            if fits:
                complete = False
                res.violation(f"C19|orbit_to_sample|raises|{type(out[1]).__name__}", f"orbit_to_sample({orbit}, {modes}) raised {out[1]!r}", case)
            continue
        s, arg = out[1]
        if not fits:
            res.violation("C19|orbit_to_sample|sample-from-impossible-orbit", f"orbit_to_sample({orbit}, {modes}) returned {s!r} although the orbit occupies more than {modes} modes", case)
            continue
        if not _is_sample(s, modes):
            res.violation("C19|orbit_to_sample|wrong-length", f"orbit_to_sample({orbit}, {modes}) returned {s!r}, not a {modes}-mode sample", case)
            complete = False
            continue
        if orbit_of(s) != orbit:
            res.violation("C19|orbit_to_sample|wrong-orbit", f"orbit_to_sample({orbit}, {modes}) returned {s!r} whose orbit is {orbit_of(s)}", case)
        if arg != orbit:
            res.violation("C19|orbit_to_sample|mutates-input", f"orbit_to_sample({orbit}, {modes}) changed its orbit argument to {arg}", case)
        hits[tuple(int(x) for x in s)] += 1
    if choice:
        res.nt += 1
    if complete and full and fits:
        case = {"kind": "orbit_to_sample", "orbit": orbit, "modes": modes, "menu": menu_name, "answers": None}
        brute = set(itertools.permutations(orbit + [0] * (modes - len(orbit))))
        if len(brute) != exact_orbit_card(orbit, modes):
            raise RuntimeError("reference orbit cardinality disagrees with brute force")
        if set(hits) != brute:
            res.violation("C19|orbit_to_sample|does-not-cover-orbit", f"orbit_to_sample({orbit}, {modes}) over all {math.factorial(modes)} shuffles produced {len(hits)} distinct samples, the orbit has {len(brute)}", case)
        elif len(set(hits.values())) > 1:
            res.violation("C19|orbit_to_sample|not-uniform", f"orbit_to_sample({orbit}, {modes}): over all equally likely shuffles the samples are hit {sorted(set(hits.values()))} times", case)


def chk_event_to_sample(res, n, c, modes, menu_name, only=None):
    full = menu_name == "all" and modes <= SHUFFLE_ALL_MAX
    fitting = [p for p in partitions(n, c) if len(p) <= modes]
    cards = {p: exact_orbit_card(p, modes) for p in fitting}
    total = sum(cards.values())
    overlong = any(len(p) > modes for p in partitions(n, c))
    prob = Counter()
    complete = only is None
    choice = False
    first = True
    structured = True

    def call():
        return sim.event_to_sample(n, c, modes)

    for answers, draws, out in runs(call, only, MENUS[menu_name]):
        if answers is None:
            complete = False
            res.stats["dfs_cap_hit"] += 1
            break
        res.n += 1
        res.stats["exec:similarity.event_to_sample"] += 1
        case = {"kind": "event_to_sample", "n": n, "c": c, "modes": modes, "menu": menu_name, "answers": answers}
        choice = choice or had_choice(draws)
        desc = f"event_to_sample(photon_number={n}, max_count_per_mode={c}, modes={modes}) under chooser answers {answers}"
        if first and draws and draws[0].fn == "choice" and total > 0:
            first = False
            p = sorted(_draw_probs(draws[0]))
            exp = sorted(cards[q] / total for q in fitting)
            if len(p) != len(exp) or any(abs(a - b) > 1e-9 for a, b in zip(p, exp)):
                lib = _lib_cards(n, c, modes)
                inherited = False
                if lib is not None and sum(lib) > 0:
                    lp = sorted(float(x) / float(sum(lib)) for x in lib if x > 0)
                    inherited = len(lp) == len(p) and all(abs(a - b) <= 1e-9 for a, b in zip(p, lp))
                if not inherited:
                    res.violation("C19|event_to_sample|orbit-distribution|own", f"{desc}: orbit probabilities {p[:6]} differ from cardinality/|E| = {exp[:6]} and are not even orbit_cardinality/sum over the orbits of the event", dict(case, answers=[]))
                elif len(p) != len(exp):
                    res.violation("C19|event_to_sample|orbit-distribution|impossible-orbit-offered", f"{desc}: draws among {len(p)} orbits with non-zero probability, only {len(exp)} orbits of the event fit into {modes} modes", dict(case, answers=[]))
                else:
                    res.violation("C19|event_to_sample|orbit-distribution|weights", f"{desc}: orbit probabilities {p[:6]} differ from cardinality/|E| = {exp[:6]} (uniform sampling from the event needs exact weights; the values equal orbit_cardinality/sum, so the deviation is inherited from orbit_cardinality)", dict(case, answers=[]))
        if out[0] == "exc":
            if total > 0:
                complete = False
                cls = "event-has-orbit-longer-than-modes" if overlong else "all-orbits-fit"
                res.violation(f"C19|event_to_sample|raises|{type(out[1]).__name__}|{cls}", f"{desc} raised {out[1]!r} although the event contains {total} samples", case)
            continue
        s = out[1]
        if total == 0:
            res.violation("C19|event_to_sample|sample-from-empty-event", f"{desc} returned {s!r} although the event is empty", case)
            continue
        if not _is_sample(s, modes):
            res.violation("C19|event_to_sample|wrong-length", f"{desc} returned {s!r}, not a {modes}-mode sample", case)
            complete = False
            continue
        if sum(s) != n or max(s) > c:
            res.violation("C19|event_to_sample|wrong-event", f"{desc} returned {s!r}: {sum(s)} photons, max {max(s)} per mode", case)
        if full:
            if len(draws) == 2 and draws[0].fn == "choice" and draws[1].fn == "shuffle":
                d = draws[0]
                prob[tuple(int(x) for x in s)] += _draw_probs(d)[d.chosen] / len(draws[1].menu)
            else:
                structured = False
    if choice or total >= 2:
        res.nt += 1
    if complete and full and total > 0 and structured:
        case = {"kind": "event_to_sample", "n": n, "c": c, "modes": modes, "menu": menu_name, "answers": None}
        brute = set(brute_samples(modes, c).get(n, []))
        if len(brute) != total:
            raise RuntimeError("reference event cardinality disagrees with brute force")
        if set(prob) != brute:
            res.violation("C19|event_to_sample|does-not-cover-event", f"event_to_sample({n}, {c}, {modes}) over all answers produced {len(prob)} distinct samples, the event has {len(brute)}", case)
        else:
            if len(prob) > 3:
                res.sample({"routine": "similarity.event_to_sample", "event": {"photons": n, "max_per_mode": c, "modes": modes}, "distinct_samples_over_all_answers": len(prob), "exact_cardinality": total, "probability_of_each": sorted(set(round(v, 12) for v in prob.values()))}, cap=1)
        if set(prob) == brute and any(abs(v - 1.0 / total) > 1e-9 for v in prob.values()):
            res.violation("C19|event_to_sample|not-uniform", f"event_to_sample({n}, {c}, {modes}): sample probabilities range {min(prob.values()):.6g}..{max(prob.values()):.6g}, uniform is {1.0 / total:.6g}", case)


# ============================================================================ graphs
LABELS = [0, 2, 5, 7, 11, 12]
SCRAMBLED = {0: [], 1: [0], 2: [2, 0], 3: [5, 0, 2], 4: [5, 0, 7, 2], 5: [7, 0, 11, 2, 5], 6: [7, 0, 11, 2, 12, 5]}


def node_order(n, lab):
    if lab == 0:
        return list(range(n))
    if lab == 1:
        return LABELS[:n]
    return list(SCRAMBLED[n])


def labellings(n):
    return [0] if n <= 1 else [0, 1, 2]


class GC:
    """one labelled graph: positions 0..n-1, pair k of itertools.combinations is an edge iff bit k of mask."""

    def __init__(self, n, mask, lab):
        self.n, self.mask, self.lab = n, mask, lab
        self.spec = {"n": n, "mask": mask, "lab": lab}
        self.order = node_order(n, lab)
        self.nodes = frozenset(self.order)
        self.edges = []
        for k, (i, j) in enumerate(itertools.combinations(range(n), 2)):
            if mask >> k & 1:
                self.edges.append((self.order[i], self.order[j]))
        G = nx.Graph()
        G.add_nodes_from(self.order)
        G.add_edges_from(self.edges)
        self.G = G
        adj = {v: set() for v in self.order}
        for a, b in self.edges:
            adj[a].add(b)
            adj[b].add(a)
        self.adj = {v: frozenset(s) for v, s in adj.items()}
        self.desc = f"graph(nodes in insertion order {self.order}, edges {self.edges})"

    def subsets(self):
        for k in range(self.n + 1):
            for s in itertools.combinations(self.order, k):
                yield frozenset(s)


def sel_list(n, kinds=("uniform", "degree", "w"), arr=False):
    out = []
    if "uniform" in kinds:
        out.append(("uniform",))
    if "degree" in kinds:
        out.append(("degree",))
    if "w" in kinds:
        for w in itertools.product((1, 2), repeat=n):
            out.append(("w", w, bool(arr)))
    return out


def sel_json(sel):
    return sel[0] if sel[0] != "w" else {"w": list(sel[1]), "arr": sel[2]}


def sel_from_json(j):
    if isinstance(j, str):
        return (j,)
    return ("w", tuple(j["w"]), bool(j["arr"]))


def mk_sel(sel):
    if sel[0] != "w":
        return sel[0]
    return np.array(sel[1]) if sel[2] else list(sel[1])


def sel_desc(sel):
    if sel[0] != "w":
        return repr(sel[0])
    return ("np.array(%s)" if sel[2] else "%s") % list(sel[1])


def fs(nodes):
    return frozenset(int(x) for x in nodes)


def as_nodes(gc, result):
    """result must be a duplicate-free list of nodes of the graph; returns the frozenset or None."""
    try:
        R = fs(result)
    except Exception:  # noqa: BLE001
        return None
    if len(R) != len(result) or not R <= gc.nodes:
        return None
    return R


def is_clique_ref(gc, S):
    return all(b in gc.adj[a] for a, b in itertools.combinations(S, 2))


def ref_c0(gc, C):
    return [v for v in gc.order if v not in C and C <= gc.adj[v]]


def ref_c1(gc, C):
    out = []
    for v in gc.order:
        if v in C:
            continue
        nb = C & gc.adj[v]
        if len(nb) == len(C) - 1:
            (u,) = C - nb
            out.append((u, v))
    return out


class Ref:
    """Nondeterministic reference model of the documented selection rules on one graph for one node_select."""

    def __init__(self, gc, sel):
        self.gc = gc
        self.kind = sel[0]
        self.sig = {"uniform": "uniform", "degree": "degree", "w": "weights"}[sel[0]]
        if sel[0] == "degree":
            self.score = {v: len(gc.adj[v]) for v in gc.order}
        elif sel[0] == "w":
            self.score = {gc.order[i]: sel[1][i] for i in range(gc.n)}  # weight i belongs to the i-th node of graph.nodes
        else:
            self.score = None
        self._grow, self._search, self._shrink = {}, {}, {}

    def hi(self, cands, key=lambda v: v):
        if self.score is None or not cands:
            return list(cands)
        mx = max(self.score[key(c)] for c in cands)
        return [c for c in cands if self.score[key(c)] == mx]

    def lo(self, cands):
        if self.score is None or not cands:
            return list(cands)
        mn = min(self.score[c] for c in cands)
        return [c for c in cands if self.score[c] == mn]

    # clique -------------------------------------------------------------
    def adm_grow(self, C):
        return self.hi(ref_c0(self.gc, C))

    def adm_swap(self, C):
        return self.hi(ref_c1(self.gc, C), key=lambda p: p[1])

    def grow_reach(self, C):
        r = self._grow.get(C)
        if r is None:
            a = self.adm_grow(C)
            r = frozenset([C]) if not a else frozenset().union(*[self.grow_reach(C | {v}) for v in a])
            self._grow[C] = r
        return r

    def swap_reach(self, C):
        a = self.adm_swap(C)
        return frozenset([C]) if not a else frozenset((C - {u}) | {v} for u, v in a)

    def search_reach(self, C, it):
        r = self._search.get((C, it))
        if r is None:
            out = set()
            for g in self.grow_reach(C):
                for s in self.swap_reach(g):
                    if s == g or it - 1 == 0:
                        out.add(s)
                    else:
                        out |= self.search_reach(s, it - 1)
            r = frozenset(out)
            self._search[(C, it)] = r
        return r

    def _mindeg(self, S):
        d = {v: len(self.gc.adj[v] & S) for v in S}
        mn = min(d.values())
        return [v for v in self.gc.order if v in S and d[v] == mn]

    def adm_shrink(self, S):
        if is_clique_ref(self.gc, S):
            return []
        return self.lo(self._mindeg(S))

    def shrink_reach(self, S):
        r = self._shrink.get(S)
        if r is None:
            a = self.adm_shrink(S)
            r = frozenset([S]) if not a else frozenset().union(*[self.shrink_reach(S - {v}) for v in a])
            self._shrink[S] = r
        return r

    # subgraph.resize --------------------------------------------------------
    def adm_up(self, S):
        d = {v: len(self.gc.adj[v] & S) for v in self.gc.order if v not in S}
        if not d:
            return []
        mx = max(d.values())
        return self.hi([v for v in d if d[v] == mx])

    def adm_down(self, S):
        if not S:
            return []
        return self.lo(self._mindeg(S))

    def levels(self, S, target):
        """size -> set of node sets reachable from S by admissible single-node steps."""
        lv = {len(S): {S}}
        k = len(S)
        while k < target:
            lv[k + 1] = {T | {v} for T in lv[k] for v in self.adm_up(T)}
            k += 1
        k = len(S)
        while k > target:
            lv[k - 1] = {T - {v} for T in lv[k] for v in self.adm_down(T)}
            k -= 1
        return lv


def srt(S):
    return sorted(int(x) for x in S)


# ---------------------------------------------------------------------------- clique checks
def chk_defs(res, gc, S):
    """is_clique, c_0, c_1 against brute force; non-cliques must be rejected by c_0, c_1, grow, swap, search."""
    S = frozenset(S)
    seed = srt(S)
    case = {"kind": "clique_defs", "g": gc.spec, "subset": seed}
    clique = is_clique_ref(gc, S)
    res.n += 1
    res.stats["exec:clique.is_clique"] += 1
    try:
        r = cq.is_clique(gc.G.subgraph(seed))
        if bool(r) != clique:
            res.violation("C19|is_clique|definition", f"is_clique(subgraph {seed} of {gc.desc}) = {r!r}, brute force says {clique}", case)
    except Exception as e:  # noqa: BLE001
        res.violation(f"C19|is_clique|raises|{type(e).__name__}", f"is_clique(subgraph {seed} of {gc.desc}) raised {e!r}", case)
    if clique:
        for name, fn, exp in (("c_0", cq.c_0, ref_c0(gc, S)), ("c_1", cq.c_1, ref_c1(gc, S))):
            res.n += 1
            res.stats[f"exec:clique.{name}"] += 1
            if exp:
                res.nt += 1
            try:
                r = fn(list(seed), gc.G)
                got = [int(x) for x in r] if name == "c_0" else [(int(a), int(b)) for a, b in r]
            except Exception as e:  # noqa: BLE001
                res.violation(f"C19|{name}|raises|{type(e).__name__}", f"{name}({seed}, {gc.desc}) raised {e!r}", case)
                continue
            if len(got) != len(set(got)) or set(got) != set(exp):
                res.violation(f"C19|{name}|definition", f"{name}({seed}, {gc.desc}) = {got}, brute force over the documented definition gives {exp}", case)
    else:
        calls = (
            ("c_0", lambda: cq.c_0(list(seed), gc.G)),
            ("c_1", lambda: cq.c_1(list(seed), gc.G)),
            ("grow", lambda: cq.grow(list(seed), gc.G)),
            ("swap", lambda: cq.swap(list(seed), gc.G)),
            ("search", lambda: cq.search(list(seed), gc.G, 1)),
        )
        for name, f in calls:
            for _a, _d, out in runs(f, only=[]):
                res.n += 1
                res.stats[f"exec:clique.{name}:non-clique-seed"] += 1
                if out[0] == "ok":
                    res.violation(f"C19|{name}|non-clique-accepted", f"{name}({seed}, {gc.desc}) returned {out[1]!r} although the seed is not a clique (documented: must be a clique; is_clique guards the call)", case)


def _cmp_menu(res, draw, adm, sig, desc, case, nodes_menu=False):
    """the candidate list the code handed to np.random.choice against the reference tie set."""
    if nodes_menu and not np.isscalar(draw.args["a"]):
        try:
            code = fs(draw.args["a"])
        except Exception:  # noqa: BLE001
            code = None
        if code != frozenset(adm) or len(draw.args["a"]) != len(adm):
            res.violation(sig, f"{desc()}: np.random.choice was offered the candidates {list(draw.args['a'])}, the documented rule admits {srt(adm)}", case)
    elif len(draw.menu) != len(adm):
        res.violation(sig, f"{desc()}: np.random.choice was offered {len(draw.menu)} candidates, the documented rule admits {len(adm)}: {adm}", case)


class InputMutated(Exception):
    """a helper changed the caller's node list or graph"""


def kept(gc, seed, f):
    """call f(fresh copy of seed); the caller's list and the graph must come back unchanged."""
    arg = [list(x) for x in seed] if seed and isinstance(seed[0], (list, tuple)) else list(seed)
    before = [list(x) for x in arg] if arg and isinstance(arg[0], list) else list(arg)
    n0, e0 = gc.G.number_of_nodes(), gc.G.number_of_edges()
    out = f(arg)
    if arg != before:
        raise InputMutated(f"argument list {before} came back as {arg}")
    if (gc.G.number_of_nodes(), gc.G.number_of_edges()) != (n0, e0):
        raise InputMutated("the input graph was modified")
    return out


def chk_grow(res, gc, S, sel, ref, only=None):
    C = frozenset(S)
    seed = srt(S)
    base = {"kind": "grow", "g": gc.spec, "seed": seed, "sel": sel_json(sel)}
    reach = ref.grow_reach(C)
    seen, complete, badpick, nontriv = set(), only is None, False, False

    def call():
        calls = []
        orig = cq.c_0

        def rec(clique, graph):
            calls.append(fs(clique))
            return orig(clique, graph)

        cq.c_0 = rec
        try:
            return kept(gc, seed, lambda a: cq.grow(a, gc.G, node_select=mk_sel(sel))), calls
        finally:
            cq.c_0 = orig

    for answers, draws, out in runs(call, only):
        if answers is None:
            complete = False
            res.stats["dfs_cap_hit"] += 1
            break
        res.n += 1
        res.stats["exec:clique.grow"] += 1
        case = dict(base, answers=answers)
        desc = lambda: f"clique.grow({seed}, {gc.desc}, node_select={sel_desc(sel)}) under chooser answers {answers}"  # noqa: E731
        nontriv = nontriv or had_choice(draws)
        if out[0] == "exc":
            complete = False
            res.violation(f"C19|grow|raises|{type(out[1]).__name__}", f"{desc()} raised {out[1]!r}", case)
            continue
        result, calls = out[1]
        R = as_nodes(gc, result)
        if R is None:
            complete = False
            res.violation("C19|grow|result-not-a-node-list", f"{desc()} returned {result!r}: not a duplicate-free list of nodes of the graph", case)
            continue
        nontriv = nontriv or R != C
        if not is_clique_ref(gc, R):
            res.violation("C19|grow|not-a-clique", f"{desc()} returned {srt(R)} which is not a clique of the input graph", case)
        elif ref_c0(gc, R):
            res.violation("C19|grow|not-maximal", f"{desc()} returned {srt(R)} although C_0 = {ref_c0(gc, R)} is not empty", case)
        if not C <= R:
            res.violation("C19|grow|seed-lost", f"{desc()} returned {srt(R)} which does not contain the seed", case)
        chain = len(calls) >= 1 and calls[0] == C and calls[-1] == R and all(len(b) == len(a) + 1 and a < b for a, b in zip(calls, calls[1:]))
        ok = True
        if chain:
            aligned = len(draws) == len(calls) - 1
            for i, (a, b) in enumerate(zip(calls, calls[1:])):
                adm = ref.adm_grow(a)
                (p,) = b - a
                if p not in adm:
                    ok = False
                    res.violation(f"C19|grow|pick-not-admissible|{ref.sig}", f"{desc()}: at clique {srt(a)} node {p} was added, the documented rule ({ref.sig}) admits only {adm}", case)
                if aligned:
                    _cmp_menu(res, draws[i], adm, f"C19|grow|candidate-list|{ref.sig}", desc, case, nodes_menu=ref.kind == "uniform")
        elif R not in reach:
            ok = False
            res.violation(f"C19|grow|pick-not-admissible|{ref.sig}", f"{desc()} returned {srt(R)}, which no sequence of admissible picks ({ref.sig}) produces: {sorted(map(srt, reach))}", case)
        badpick = badpick or not ok
        seen.add(R)
    if nontriv:
        res.nt += 1
        if len(seen) > 1:
            res.sample({"routine": "clique.grow", "seed": seed, "graph": gc.desc, "node_select": sel_desc(sel), "results_over_all_answers": sorted(map(srt, seen))}, cap=1)
    if complete and not badpick and seen != set(reach):
        res.violation(f"C19|grow|tie-option-never-taken|{ref.sig}", f"clique.grow({seed}, {gc.desc}, node_select={sel_desc(sel)}): over all chooser answers the results are {sorted(map(srt, seen))}, the documented rule with uniformly settled ties also reaches {sorted(map(srt, set(reach) - seen))}", dict(base, answers=None))


def chk_swap(res, gc, S, sel, ref, only=None):
    C = frozenset(S)
    seed = srt(S)
    base = {"kind": "swap", "g": gc.spec, "seed": seed, "sel": sel_json(sel)}
    adm = ref.adm_swap(C)
    reach = ref.swap_reach(C)
    seen, complete, badpick, nontriv = set(), only is None, False, False

    def call():
        return kept(gc, seed, lambda a: cq.swap(a, gc.G, node_select=mk_sel(sel)))

    for answers, draws, out in runs(call, only):
        if answers is None:
            complete = False
            res.stats["dfs_cap_hit"] += 1
            break
        res.n += 1
        res.stats["exec:clique.swap"] += 1
        case = dict(base, answers=answers)
        desc = lambda: f"clique.swap({seed}, {gc.desc}, node_select={sel_desc(sel)}) under chooser answers {answers}"  # noqa: E731
        nontriv = nontriv or had_choice(draws)
        if out[0] == "exc":
            complete = False
            res.violation(f"C19|swap|raises|{type(out[1]).__name__}", f"{desc()} raised {out[1]!r}", case)
            continue
        R = as_nodes(gc, out[1])
        if R is None:
            complete = False
            res.violation("C19|swap|result-not-a-node-list", f"{desc()} returned {out[1]!r}: not a duplicate-free list of nodes of the graph", case)
            continue
        nontriv = nontriv or R != C
        if not is_clique_ref(gc, R):
            res.violation("C19|swap|not-a-clique", f"{desc()} returned {srt(R)} which is not a clique of the input graph", case)
        if len(R) != len(C):
            res.violation("C19|swap|size-changed", f"{desc()} returned {srt(R)}: documented to return a clique of equal size", case)
        if R not in reach:
            badpick = True
            res.violation(f"C19|swap|pick-not-admissible|{ref.sig}", f"{desc()} returned {srt(R)}; C_1 = {ref_c1(gc, C)}, admissible swaps ({ref.sig}) = {adm}, so the result must be one of {sorted(map(srt, reach))}", case)
        if len(draws) == 1 and adm:
            _cmp_menu(res, draws[0], adm, f"C19|swap|candidate-list|{ref.sig}", desc, case)
        seen.add(R)
    if nontriv:
        res.nt += 1
    if complete and not badpick and seen != set(reach):
        res.violation(f"C19|swap|tie-option-never-taken|{ref.sig}", f"clique.swap({seed}, {gc.desc}, node_select={sel_desc(sel)}): over all chooser answers the results are {sorted(map(srt, seen))}, the documented rule also reaches {sorted(map(srt, set(reach) - seen))}", dict(base, answers=None))


def chk_search(res, gc, S, iters, sel, ref, only=None):
    C = frozenset(S)
    seed = srt(S)
    base = {"kind": "search", "g": gc.spec, "seed": seed, "iters": iters, "sel": sel_json(sel)}
    reach = ref.search_reach(C, iters)
    seen, complete, badpick, nontriv = set(), only is None, False, False

    def call():
        phases = []
        og, os_ = cq.grow, cq.swap

        def rg(clique, graph, node_select="uniform"):
            out = og(clique, graph, node_select=node_select)
            phases.append(("grow", clique, out))
            return out

        def rs(clique, graph, node_select="uniform"):
            out = os_(clique, graph, node_select=node_select)
            phases.append(("swap", clique, out))
            return out

        cq.grow, cq.swap = rg, rs
        try:
            return kept(gc, seed, lambda a: cq.search(a, gc.G, iters, node_select=mk_sel(sel))), phases
        finally:
            cq.grow, cq.swap = og, os_

    for answers, draws, out in runs(call, only):
        if answers is None:
            complete = False
            res.stats["dfs_cap_hit"] += 1
            break
        res.n += 1
        res.stats["exec:clique.search"] += 1
        case = dict(base, answers=answers)
        desc = lambda: f"clique.search({seed}, {gc.desc}, iterations={iters}, node_select={sel_desc(sel)}) under chooser answers {answers}"  # noqa: E731
        nontriv = nontriv or had_choice(draws)
        if out[0] == "exc":
            complete = False
            res.violation(f"C19|search|raises|{type(out[1]).__name__}", f"{desc()} raised {out[1]!r}", case)
            continue
        result, phases = out[1]
        R = as_nodes(gc, result)
        if R is None:
            complete = False
            res.violation("C19|search|result-not-a-node-list", f"{desc()} returned {result!r}: not a duplicate-free list of nodes of the graph", case)
            continue
        nontriv = nontriv or R != C
        if not is_clique_ref(gc, R):
            res.violation("C19|search|not-a-clique", f"{desc()} returned {srt(R)} which is not a clique of the input graph", case)
        if len(R) < len(C):
            res.violation("C19|search|smaller-than-input", f"{desc()} returned {srt(R)}, smaller than the input clique", case)
        ok = True
        for name, cin, cout in phases:
            a, b = as_nodes(gc, cin), as_nodes(gc, cout)
            if a is None or b is None or not is_clique_ref(gc, a):
                continue
            rr = ref.grow_reach(a) if name == "grow" else ref.swap_reach(a)
            if b not in rr:
                ok = False
                res.violation(f"C19|search|pick-not-admissible|{ref.sig}", f"{desc()}: the {name} phase went from {srt(a)} to {srt(b)}, admissible picks ({ref.sig}) lead to {sorted(map(srt, rr))}", case)
        if ok and R not in reach:
            ok = False
            res.violation(f"C19|search|pick-not-admissible|{ref.sig}", f"{desc()} returned {srt(R)}; grow/swap phases with admissible picks ({ref.sig}) and the documented stopping rule end in {sorted(map(srt, reach))}", case)
        badpick = badpick or not ok
        seen.add(R)
    if nontriv:
        res.nt += 1
    if complete and not badpick and seen != set(reach):
        res.violation(f"C19|search|tie-option-never-taken|{ref.sig}", f"clique.search({seed}, {gc.desc}, iterations={iters}, node_select={sel_desc(sel)}): results over all chooser answers {sorted(map(srt, seen))}, the documented rule also reaches {sorted(map(srt, set(reach) - seen))}", dict(base, answers=None))


def chk_shrink(res, gc, S, sel, ref, only=None):
    S = frozenset(S)
    seed = srt(S)
    base = {"kind": "shrink", "g": gc.spec, "seed": seed, "sel": sel_json(sel)}
    reach = ref.shrink_reach(S)
    seen, complete, badpick, nontriv = set(), only is None, False, False

    def call():
        calls = []
        orig = cq.is_clique

        def rec(graph):
            calls.append(fs(graph.nodes()))
            return orig(graph)

        cq.is_clique = rec
        try:
            return kept(gc, seed, lambda a: cq.shrink(a, gc.G, node_select=mk_sel(sel))), calls
        finally:
            cq.is_clique = orig

    for answers, draws, out in runs(call, only):
        if answers is None:
            complete = False
            res.stats["dfs_cap_hit"] += 1
            break
        res.n += 1
        res.stats["exec:clique.shrink"] += 1
        case = dict(base, answers=answers)
        desc = lambda: f"clique.shrink({seed}, {gc.desc}, node_select={sel_desc(sel)}) under chooser answers {answers}"  # noqa: E731
        nontriv = nontriv or had_choice(draws)
        if out[0] == "exc":
            complete = False
            res.violation(f"C19|shrink|raises|{type(out[1]).__name__}", f"{desc()} raised {out[1]!r}", case)
            continue
        result, calls = out[1]
        R = as_nodes(gc, result)
        if R is None:
            complete = False
            res.violation("C19|shrink|result-not-a-node-list", f"{desc()} returned {result!r}: not a duplicate-free list of nodes of the graph", case)
            continue
        nontriv = nontriv or R != S
        if not R <= S:
            res.violation("C19|shrink|not-contained-in-input", f"{desc()} returned {srt(R)} which is not contained in the input subgraph", case)
        if not is_clique_ref(gc, R):
            res.violation("C19|shrink|not-a-clique", f"{desc()} returned {srt(R)} which is not a clique of the input graph", case)
        chain = len(calls) >= 1 and calls[0] == S and calls[-1] == R and all(len(a) == len(b) + 1 and b < a for a, b in zip(calls, calls[1:]))
        ok = True
        if chain:
            aligned = len(draws) == len(calls) - 1
            for i, (a, b) in enumerate(zip(calls, calls[1:])):
                adm = ref.adm_shrink(a)
                (p,) = a - b
                if p not in adm:
                    ok = False
                    res.violation(f"C19|shrink|pick-not-admissible|{ref.sig}", f"{desc()}: from subgraph {srt(a)} node {p} was removed; nodes of minimal degree within the subgraph: {ref._mindeg(a)}, admissible under the documented rule ({ref.sig}: lowest weight among them): {adm}", case)
                if aligned:
                    _cmp_menu(res, draws[i], adm, f"C19|shrink|candidate-list|{ref.sig}", desc, case)
        elif R not in reach:
            ok = False
            res.violation(f"C19|shrink|pick-not-admissible|{ref.sig}", f"{desc()} returned {srt(R)}, which no sequence of admissible removals ({ref.sig}) produces: {sorted(map(srt, reach))}", case)
        badpick = badpick or not ok
        seen.add(R)
    if nontriv:
        res.nt += 1
    if complete and not badpick and seen != set(reach):
        res.violation(f"C19|shrink|tie-option-never-taken|{ref.sig}", f"clique.shrink({seed}, {gc.desc}, node_select={sel_desc(sel)}): results over all chooser answers {sorted(map(srt, seen))}, the documented rule also reaches {sorted(map(srt, set(reach) - seen))}", dict(base, answers=None))


# ---------------------------------------------------------------------------- subgraph checks
def density_ref(gc, T):
    k = len(T)
    if k < 2:
        return 0.0
    m = sum(1 for a, b in itertools.combinations(T, 2) if b in gc.adj[a])
    return 2.0 * m / (k * (k - 1))


def chk_resize(res, gc, S, lo, hi, sel, ref, only=None):
    S = frozenset(S)
    s = len(S)
    seed = srt(S)
    base = {"kind": "resize", "g": gc.spec, "sub": seed, "lo": lo, "hi": hi, "sel": sel_json(sel)}
    lv = {}
    if hi > s:
        lv.update(ref.levels(S, hi))
    if lo < s:
        lv.update(ref.levels(S, lo))
    lv[s] = {S}
    seen = {k: set() for k in range(lo, hi + 1)}
    complete, badpick, nontriv = only is None, False, False
    n_up, n_down = max(0, hi - s), max(0, s - lo)

    def call():
        return kept(gc, seed, lambda a: sg.resize(a, gc.G, lo, hi, mk_sel(sel)))

    for answers, draws, out in runs(call, only):
        if answers is None:
            complete = False
            res.stats["dfs_cap_hit"] += 1
            break
        res.n += 1
        res.stats["exec:subgraph.resize"] += 1
        case = dict(base, answers=answers)
        desc = lambda: f"subgraph.resize({seed}, {gc.desc}, min_size={lo}, max_size={hi}, node_select={sel_desc(sel)}) under chooser answers {answers}"  # noqa: E731
        nontriv = nontriv or had_choice(draws)
        if out[0] == "exc":
            complete = False
            res.violation(f"C19|resize|raises|{type(out[1]).__name__}", f"{desc()} raised {out[1]!r}", case)
            continue
        r = out[1]
        if not isinstance(r, dict) or set(r.keys()) != set(range(lo, hi + 1)):
            complete = False
            res.violation("C19|resize|sizes", f"{desc()} returned sizes {list(r.keys()) if isinstance(r, dict) else r!r}, requested {list(range(lo, hi + 1))}", case)
            continue
        sets = {}
        for k, v in r.items():
            T = as_nodes(gc, v)
            if T is None:
                res.violation("C19|resize|not-a-node-subset", f"{desc()}: entry {k} is {v!r}, not a duplicate-free list of nodes of the graph", case)
            elif len(T) != k:
                res.violation("C19|resize|wrong-size", f"{desc()}: entry {k} is {srt(T)} with {len(T)} nodes", case)
            else:
                sets[k] = T
        if len(sets) != len(r):
            complete = False
            continue
        nontriv = nontriv or any(k != s for k in sets)
        if s in sets and sets[s] != S:
            res.violation("C19|resize|start-changed", f"{desc()}: entry {s} is {srt(sets[s])}, the input subgraph has that size already", case)
        aligned = len(draws) == n_up + n_down
        ok = True
        for direction, rng, adm_fn, off in (("grow", range(s + 1, hi + 1), ref.adm_up, 0), ("shrink", range(s - 1, lo - 1, -1), ref.adm_down, n_up)):
            prev = S
            for j, k in enumerate(rng):
                cur = sets.get(k)
                if cur is None:
                    prev = None
                    continue
                if prev is not None:
                    adm = adm_fn(prev)
                    diff = (cur - prev) if direction == "grow" else (prev - cur)
                    nested = prev < cur if direction == "grow" else cur < prev
                    if not nested or len(diff) != 1 or next(iter(diff)) not in adm:
                        ok = False
                        res.violation(f"C19|resize|pick-not-admissible|{direction}|{ref.sig}", f"{desc()}: {direction} step from {srt(prev)} to {srt(cur)}; admissible nodes under the documented rule ({'highest' if direction == 'grow' else 'lowest'} degree relative to the subgraph, then {ref.sig}): {adm}", case)
                    if aligned:
                        _cmp_menu(res, draws[off + j], adm, f"C19|resize|candidate-list|{direction}|{ref.sig}", desc, case)
                elif cur not in lv[k]:
                    ok = False
                    res.violation(f"C19|resize|pick-not-admissible|{direction}|{ref.sig}", f"{desc()}: entry {k} = {srt(cur)} is not reachable from the input by admissible {direction} steps: {sorted(map(srt, lv[k]))}", case)
                prev = cur
        badpick = badpick or not ok
        for k, T in sets.items():
            seen[k].add(T)
    if nontriv:
        res.nt += 1
        if hi - lo >= 1 and len(seen[hi]) > 1:
            res.sample({"routine": "subgraph.resize", "subgraph": seed, "graph": gc.desc, "min_size": lo, "max_size": hi, "node_select": sel_desc(sel), "results_by_size_over_all_answers": {k: sorted(map(srt, v)) for k, v in seen.items()}}, cap=2)
    if complete and not badpick:
        for k in range(lo, hi + 1):
            if seen[k] != lv[k]:
                d = "grow" if k > s else "shrink"
                res.violation(f"C19|resize|tie-option-never-taken|{d}|{ref.sig}", f"subgraph.resize({seed}, {gc.desc}, {lo}, {hi}, node_select={sel_desc(sel)}): size {k} over all chooser answers gives {sorted(map(srt, seen[k]))}, the documented rule also reaches {sorted(map(srt, lv[k] - seen[k]))}", dict(base, answers=None))
                break


def chk_sg_search(res, gc, subs, lo, hi, max_count, sel, only=None):
    subs = [srt(x) for x in subs]
    base = {"kind": "sg_search", "g": gc.spec, "subs": subs, "lo": lo, "hi": hi, "max_count": max_count, "sel": sel_json(sel)}
    nontriv = False

    def call():
        found = []
        orig = sg.resize

        def rec(subgraph, graph, min_size, max_size, node_select="uniform"):
            r = orig(subgraph, graph, min_size, max_size, node_select)
            found.append({k: list(v) for k, v in r.items()})
            return r

        sg.resize = rec
        try:
            return kept(gc, [list(x) for x in subs], lambda a: sg.search(a, gc.G, lo, hi, max_count=max_count, node_select=mk_sel(sel))), found
        finally:
            sg.resize = orig

    for answers, draws, out in runs(call, only):
        if answers is None:
            res.stats["dfs_cap_hit"] += 1
            break
        res.n += 1
        res.stats["exec:subgraph.search"] += 1
        res.stats["coin_flips_seen"] += sum(1 for d in draws if np.isscalar(d.args.get("a")) and d.args["a"] == 2)
        case = dict(base, answers=answers)
        desc = lambda: f"subgraph.search({subs}, {gc.desc}, min_size={lo}, max_size={hi}, max_count={max_count}, node_select={sel_desc(sel)}) under chooser answers {answers}"  # noqa: E731
        nontriv = nontriv or had_choice(draws)
        if out[0] == "exc":
            res.violation(f"C19|sg.search|raises|{type(out[1]).__name__}", f"{desc()} raised {out[1]!r}", case)
            continue
        dense, found = out[1]
        want = list(range(lo, hi + 1)) if subs else []
        if not isinstance(dense, dict) or set(dense.keys()) != set(want):
            res.violation("C19|sg.search|sizes", f"{desc()} returned sizes {list(dense.keys()) if isinstance(dense, dict) else dense!r}, requested {want}", case)
            continue
        for k, lst in dense.items():
            if not isinstance(lst, list):
                res.violation("C19|sg.search|not-a-list", f"{desc()}: size {k} holds {lst!r}", case)
                continue
            nontriv = nontriv or len(lst) > 1
            if not 1 <= len(lst) <= max_count:
                res.violation("C19|sg.search|max_count", f"{desc()}: size {k} holds {len(lst)} subgraphs, max_count = {max_count}", case)
            entries = []
            bad = False
            for t in lst:
                T = as_nodes(gc, t[1]) if isinstance(t, tuple) and len(t) == 2 and isinstance(t[0], (int, float, np.integer, np.floating)) else None
                if T is None or len(T) != k:
                    bad = True
                    res.violation("C19|sg.search|not-a-subgraph-of-size", f"{desc()}: size {k} holds {t!r}, not a duplicate-free list of {k} nodes of the graph", case)
                    continue
                entries.append((float(t[0]), T))
                dref = density_ref(gc, T)
                dnx = nx.density(gc.G.subgraph(list(T)))
                if abs(float(t[0]) - dref) > 1e-12 or abs(dnx - dref) > 1e-12:
                    res.violation("C19|sg.search|density", f"{desc()}: size {k} records density {t[0]!r} for {srt(T)}; recomputed 2m/(k(k-1)) = {dref!r}, nx.density = {dnx!r}", case)
            if bad:
                continue
            if any(a[0] < b[0] for a, b in zip(entries, entries[1:])):
                res.violation("C19|sg.search|not-sorted", f"{desc()}: size {k} list {[(d, srt(T)) for d, T in entries]} is not in non-increasing order of density", case)
            if len({T for _, T in entries}) != len(entries):
                res.violation("C19|sg.search|duplicate", f"{desc()}: size {k} list {[(d, srt(T)) for d, T in entries]} repeats a subgraph", case)
            if len(found) == len(subs):
                ident = []
                for f in found:
                    T = as_nodes(gc, f.get(k, [None]))
                    if T is not None and T not in ident:
                        ident.append(T)
                if any(T not in ident for _, T in entries):
                    res.violation("C19|sg.search|foreign-subgraph", f"{desc()}: size {k} list {[srt(T) for _, T in entries]} holds a subgraph that resize never produced in this run: {[srt(T) for T in ident]}", case)
                exp = sorted((density_ref(gc, T) for T in ident), reverse=True)[:max_count]
                got = sorted((d for d, _ in entries), reverse=True)
                if len(got) != len(exp) or any(abs(a - b) > 1e-12 for a, b in zip(got, exp)):
                    res.violation("C19|sg.search|not-the-densest", f"{desc()}: size {k} keeps densities {got}; the {max_count} densest of the distinct subgraphs identified ({[(density_ref(gc, T), srt(T)) for T in ident]}) have densities {exp}", case)
    if nontriv:
        res.nt += 1


# ---------------------------------------------------------------------------- sample.py checks
def chk_samplepy(res, modes, maxc):
    samples = [list(s) for s in itertools.product(range(maxc + 1), repeat=modes)]
    for s in samples:
        res.n += 1
        res.stats["exec:sample.modes_from_counts"] += 1
        exp = [i for i, c in enumerate(s) for _ in range(c)]
        if exp:
            res.nt += 1
        case = {"kind": "samplepy", "fn": "modes_from_counts", "sample": s}
        try:
            r = smp.modes_from_counts(list(s))
            if not isinstance(r, list) or [int(x) for x in r] != exp:
                res.violation("C19|modes_from_counts|definition", f"modes_from_counts({s}) = {r!r}, definition gives {exp}", case)
        except Exception as e:  # noqa: BLE001
            res.violation(f"C19|modes_from_counts|raises|{type(e).__name__}", f"modes_from_counts({s}) raised {e!r}", case)
    top = modes * maxc
    for lo in range(0, top + 2):
        for hi in range(0, top + 2):
            res.n += 1
            res.stats["exec:sample.postselect"] += 1
            exp = [s for s in samples if lo <= sum(s) <= hi]
            if exp:
                res.nt += 1
            case = {"kind": "samplepy", "fn": "postselect", "modes": modes, "maxc": maxc, "lo": lo, "hi": hi}
            try:
                r = smp.postselect([list(s) for s in samples], lo, hi)
                if not isinstance(r, list) or [list(x) for x in r] != exp:
                    res.violation("C19|postselect|definition", f"postselect(all {len(samples)} samples of {modes} modes with <= {maxc} per mode, {lo}, {hi}) returned {len(r)} samples, the filter min <= sum <= max keeps {len(exp)} (order preserved)", case)
            except Exception as e:  # noqa: BLE001
                res.violation(f"C19|postselect|raises|{type(e).__name__}", f"postselect(..., {lo}, {hi}) raised {e!r}", case)
    for lab in labellings(modes):
        gc = GC(modes, (1 << (modes * (modes - 1) // 2)) - 1 if modes > 1 else 0, lab)
        for batch in [samples] + [[s] for s in samples]:
            res.n += 1
            res.stats["exec:sample.to_subgraphs"] += 1
            exp = [frozenset(gc.order[i] for i, c in enumerate(s) if c > 0) for s in batch]
            if any(exp):
                res.nt += 1
            case = {"kind": "samplepy", "fn": "to_subgraphs", "modes": modes, "lab": lab, "batch": batch if len(batch) == 1 else None, "maxc": maxc}
            try:
                r = smp.to_subgraphs([list(s) for s in batch], gc.G)
                good = isinstance(r, list) and len(r) == len(batch)
                if good:
                    for x, e in zip(r, exp):
                        if not isinstance(x, list) or len(set(x)) != len(x) or fs(x) != e:
                            good = False
                            bad = (x, e)
                            break
                else:
                    bad = (r if not isinstance(r, list) else len(r), len(batch))
                if not good:
                    res.violation("C19|to_subgraphs|definition", f"to_subgraphs({'all samples' if len(batch) > 1 else batch}, graph with nodes {gc.order}): got {bad[0]!r}, nodes with a click are {srt(bad[1]) if isinstance(bad[1], frozenset) else bad[1]}", case)
            except Exception as e:  # noqa: BLE001
                res.violation(f"C19|to_subgraphs|raises|{type(e).__name__}", f"to_subgraphs on graph with nodes {gc.order} raised {e!r}", case)


# ============================================================================ workers
def work(task):
    kind = task[0]
    res = Res()
    if kind == "counts":
        _, n, mlo, mhi = task
        parts = partitions(n)
        if mlo == 1:
            chk_orbits(res, n)
        tables = {c: event_table(n, c, mhi) for c in range(n + 1)}
        for m in range(mlo, mhi + 1):
            for orb in parts:
                chk_orbit_card(res, orb, m)
                chk_orbit_to_sample(res, orb, m, "fixed3")
            for c in range(n + 1):
                pc = partitions(n, c)
                exact = sum(exact_orbit_card(p, m) for p in pc)
                if exact != tables[c][m]:
                    raise RuntimeError("reference event cardinalities disagree (partition sum vs generating function)")
                chk_event_card(res, n, c, m, exact, any(len(p) > m for p in pc))
                chk_event_to_sample(res, n, c, m, "identity")
    elif kind == "small":
        _, m, P = task
        for s in itertools.product(range(P + 1), repeat=m):
            if sum(s) <= P:
                chk_sample_to(res, s)
        for k in range(P + 1):
            for orb in partitions(k):
                chk_orbit_to_sample(res, orb, m, "all")
    elif kind == "small_event":
        _, n, c, m = task
        chk_event_to_sample(res, n, c, m, "all")
    elif kind == "clique":
        _, n, lab, mlo, mhi, iters, kinds = task
        for mask in range(mlo, mhi):
            gc = GC(n, mask, lab)
            sels = sel_list(n, kinds=kinds, arr=(lab == 1))
            refs = {sel: Ref(gc, sel) for sel in sels}
            res.stats["graphs:clique"] += 1
            for S in gc.subsets():
                chk_defs(res, gc, S)
                clique = is_clique_ref(gc, S)
                for sel in sels:
                    ref = refs[sel]
                    if clique:
                        chk_grow(res, gc, S, sel, ref)
                        chk_swap(res, gc, S, sel, ref)
                        for it in iters:
                            chk_search(res, gc, S, it, sel, ref)
                    if sel[0] != "degree":
                        chk_shrink(res, gc, S, sel, ref)
    elif kind == "resize":
        _, n, lab, mlo, mhi, kinds, windows = task
        for mask in range(mlo, mhi):
            gc = GC(n, mask, lab)
            res.stats["graphs:resize"] += 1
            for sel in sel_list(n, kinds=kinds, arr=(lab == 1)):
                ref = Ref(gc, sel)
                for S in gc.subsets():
                    for lo in range(1, n):
                        for hi in range(lo, n):
                            if windows == "full" and (lo, hi) != (1, n - 1):
                                continue
                            chk_resize(res, gc, S, lo, hi, sel, ref)
    elif kind == "book":
        _, n, mlo, mhi, L, counts = task
        for mask in range(mlo, mhi):
            gc = GC(n, mask, 0)
            res.stats["graphs:search-bookkeeping"] += 1
            for k in range(1, n):
                pool = [list(c) for c in itertools.combinations(gc.order, k)]
                for ln in range(0, L + 1):
                    for seq in itertools.product(pool, repeat=ln):
                        for mc in counts:
                            chk_sg_search(res, gc, list(seq), k, k, mc, ("uniform",))
    elif kind == "sgfull":
        _, n, lab, mlo, mhi, pairs_sels, counts = task
        for mask in range(mlo, mhi):
            gc = GC(n, mask, lab)
            res.stats["graphs:search-with-resizing"] += 1
            subs = [srt(S) for S in gc.subsets()]
            allsel = sel_list(n, kinds=("uniform", "w"), arr=(lab == 1))
            for lo in range(1, n):
                for hi in range(lo, n):
                    for mc in counts:
                        for sel in allsel:
                            for a in subs:
                                chk_sg_search(res, gc, [a], lo, hi, mc, sel)
                            if pairs_sels == "all" or (pairs_sels == "uniform" and sel[0] == "uniform"):
                                for a in subs:
                                    for b in subs:
                                        chk_sg_search(res, gc, [a, b], lo, hi, mc, sel)
    elif kind == "samplepy":
        _, m, maxc = task
        chk_samplepy(res, m, maxc)
    else:
        raise RuntimeError(f"unknown task {task!r}")
    if UNOWNED:
        res.stats["unowned_random_calls"] += sum(UNOWNED.values())
        UNOWNED.clear()
    return res


def case_size(case):
    g = case.get("g")
    if g:
        prim = g["n"] * 1000 + bin(g["mask"]).count("1") * 10 + g["lab"]
    else:
        prim = case.get("modes", 0) + case.get("n", 0) + sum(case.get("orbit", [])) + sum(case.get("sample", []))
    return (prim, len(json.dumps(case, default=str)))


def mask_chunks(n, size):
    total = 1 << (n * (n - 1) // 2)
    return [(a, min(total, a + size)) for a in range(0, total, size)]


def chk_search_many_iterations(res):
    """clique.search with far more iterations than the interpreter's recursion limit, default answer at every random pick:
    every labelled graph on <= 3 nodes, every clique seed, node_select uniform / degree"""
    iters = 3000
    for n in (1, 2, 3):
        for mask in range(1 << (n * (n - 1) // 2)):
            gc = GC(n, mask, 0)
            for S in gc.subsets():
                if not is_clique_ref(gc, S):
                    continue
                for sel in ("uniform", "degree"):
                    res.n += 1
                    res.nt += 1
                    case = {"kind": "search_many", "g": gc.spec, "seed": srt(S), "sel": sel}
                    for answers, draws, out in runs(lambda: cq.search(list(srt(S)), gc.G, iters, node_select=sel), only=[], menu=menu_identity):
                        if out[0] == "exc":
                            res.violation(f"C19|search|raises|{type(out[1]).__name__}|many-iterations", f"clique.search({srt(S)}, {gc.desc}, iterations={iters}, node_select={sel!r}) raised {type(out[1]).__name__} (with {iters // 4} iterations it returns a clique)", case)
                        else:
                            R = as_nodes(gc, out[1])
                            if R is None or not is_clique_ref(gc, R):
                                res.violation("C19|search|not-a-clique|many-iterations", f"clique.search({srt(S)}, {gc.desc}, iterations={iters}) returned {out[1]!r}", case)
    return res


def run(ctx):
    quick = ctx.tier == "quick"
    wall = max(WALL[ctx.tier], ctx.budget)  # the run-wide budget (VERIF_BUDGET_S) governs; WALL is the floor of the first build

    def left():
        return min(ctx.time_left(), wall - ctx.elapsed())

    NMAX, MMAX = (10, 64) if quick else (12, 200)
    P_SMALL, M_SMALL = (4, 5) if quick else (5, 6)
    G_CLIQUE = 4 if quick else 5
    G_RESIZE = 4 if quick else 5
    ITERS = (1, 2, 3)
    ITERS5 = (1, 3)
    bounds = {
        "similarity": {"photon_numbers": [0, NMAX], "modes": [1, MMAX], "max_count_per_mode": "0..n", "shuffle answers in this range": "orbit_to_sample: 3 fixed permutations (identity, reversal, rotation); event_to_sample: every orbit answer x identity permutation"},
        "similarity_small": {"photons<=": P_SMALL, "modes<=": M_SMALL, "shuffle answers": "all modes! permutations", "orbit answers": "all with p > 0"},
        "clique": {"nodes<=": G_CLIQUE, "labellings": "0..n-1 | 0,2,5,7,11 sorted (weights as np.ndarray) | same labels inserted in scrambled order", "seeds": "every node subset (cliques for grow/swap/search/c_0/c_1, non-cliques must be rejected; every subset for shrink)", "node_select": "uniform, degree, every vector in {1,2}^n (5 nodes: uniform and degree on labelling 0..4, every weight vector on the scrambled non-contiguous labelling)", "search iterations": {"nodes<=4": list(ITERS), "5 nodes": list(ITERS5)}},
        "sample.py": {"modes<=": 4, "counts per mode<=": 3},
    }
    phases = []
    # 1. similarity ---------------------------------------------------------------------------------------------
    t = []
    for n in range(NMAX, -1, -1):
        step = 4 if n >= 9 else 16
        for a in range(1, MMAX + 1, step):
            t.append(("counts", n, a, min(MMAX, a + step - 1)))
    phases.append(("similarity counts", t, 1))
    t = [("small", m, P_SMALL) for m in range(M_SMALL, 0, -1)]
    t += [("small_event", n, c, m) for m in range(M_SMALL, 0, -1) for n in range(P_SMALL, -1, -1) for c in range(0, n + 1)]
    phases.append(("similarity small range (all permutations)", t, 1))
    # 4. sample.py ----------------------------------------------------------------------------------------------
    phases.append(("sample.py", [("samplepy", m, 3) for m in range(1, 5)], 1))
    # 2. clique -------------------------------------------------------------------------------------------------
    t = []
    n_graphs = {}
    for n in range(G_CLIQUE, -1, -1):
        # 5 nodes: contiguous labels with uniform / degree, scrambled non-contiguous labels with every weight vector
        plan = [(lab, ("uniform", "degree", "w")) for lab in labellings(n)] if n < 5 else [(0, ("uniform", "degree")), (2, ("w",))]
        n_graphs[n] = (1 << (n * (n - 1) // 2)) * len(plan)
        for lab, kinds in plan:
            for a, b in mask_chunks(n, 4 if n >= 5 else 8):
                t.append(("clique", n, lab, a, b, ITERS if n < 5 else ITERS5, kinds))
    bounds["clique"]["labelled graphs x labellings by node count"] = n_graphs
    phases.append(("clique", t, 1))
    # 3. subgraph -----------------------------------------------------------------------------------------------
    t = []
    rz_graphs = {}
    for n in range(G_RESIZE, 1, -1):
        plan = [(lab, ("uniform", "w"), "all") for lab in labellings(n)] if n < 5 else [(0, ("uniform",), "all"), (2, ("w",), "full")]
        rz_graphs[n] = {"graphs x labellings": (1 << (n * (n - 1) // 2)) * len(plan), "windows": "all 1 <= min <= max < n for every node_select on every labelling" if n < 5 else "labelling 0..4: uniform, all windows; scrambled non-contiguous labelling: every weight vector, window (1, n-1) in which every step is visible"}
        for lab, kinds, windows in plan:
            for a, b in mask_chunks(n, 4 if n >= 5 else 8):
                t.append(("resize", n, lab, a, b, kinds, windows))
    bounds["subgraph.resize"] = {"nodes<=": G_RESIZE, "by node count": rz_graphs, "subgraphs": "every node subset incl. empty", "node_select": "uniform, every vector in {1,2}^n"}
    phases.append(("subgraph.resize", t, 1))
    t = []
    book = {}
    for n, L in ((4, 3), (3, 4), (2, 4)) if quick else ((4, 4), (3, 4), (2, 4)):
        book[n] = {"sequence length<=": L, "max_count": [1, 2, 3]}
        for a, b in mask_chunks(n, 2 if n >= 5 else 4):
            t.append(("book", n, a, b, L, (1, 2, 3)))
    bounds["subgraph.search bookkeeping"] = {"by node count": book, "input": "every sequence of node subsets of one size k = min_size = max_size, 1 <= k < n, contiguous labels, every coin flip"}
    phases.append(("subgraph.search bookkeeping", t, 1))
    t = []
    full = {}
    for n in (3, 2) if quick else (4, 3, 2):
        pairs_sels = "none" if n >= 4 else ("all" if n <= 2 or not quick else "uniform")
        labs = labellings(n) if n <= 3 else [0, 2]
        full[n] = {"lists": "every single subgraph" + {"all": " and every ordered pair of subgraphs", "uniform": " (every node_select) and every ordered pair of subgraphs (node_select uniform)", "none": " (no pairs)"}[pairs_sels], "labellings": labs, "max_count": [1, 2], "windows": "all", "node_select": "uniform, every vector in {1,2}^n"}
        for lab in labs:
            for a, b in mask_chunks(n, 1):
                t.append(("sgfull", n, lab, a, b, pairs_sels, (1, 2)))
    bounds["subgraph.search with resizing"] = {"by node count": full}
    phases.append(("subgraph.search with resizing", t, 1))

    timing = {}
    best = {}  # signature -> (size, what, case): the smallest failing input per signature is the one reported

    picked = {}

    def take(r):
        viol, r.viol = r.viol, []
        for smp_ in r.samples:
            picked.setdefault(smp_.get("routine"), smp_)
        r.samples = []
        ctx.add(r)
        for sig, what, case in viol:
            k = case_size(case)
            if sig not in best or k < best[sig][0]:
                best[sig] = (k, what, case)

    for name, tasks, chunk in phases:
        t0 = ctx.elapsed()
        if left() < 0:
            ctx.cap_hit(f"time budget exhausted before phase '{name}' ({len(tasks)} work units not run)")
            continue
        done = 0
        for r in ctx.pmap(work, tasks, chunksize=chunk):
            take(r)
            done += 1
            if left() < 0 and done < len(tasks):
                ctx.close()
                ctx.cap_hit(f"time budget hit in phase '{name}' after {done}/{len(tasks)} work units")
                break
        timing[name] = round(ctx.elapsed() - t0, 1)
    ctx.add(chk_search_many_iterations(Res()))
    for sig in sorted(best):
        ctx.violation(sig, best[sig][1], best[sig][2], count=0)
    ctx.samples.extend(list(picked.values())[:6])
    if ctx.stats.get("dfs_cap_hit"):
        ctx.cap_hit(f"{ctx.stats['dfs_cap_hit']} inputs exceeded {MAX_EXECS} chooser answer sequences")
    if ctx.stats.get("unowned_random_calls"):
        ctx.cap_hit(f"{ctx.stats['unowned_random_calls']} random draws through calls the check does not own (answered by default only)")
    # closed-form cross-checks of the enumeration
    if ctx.exhaustive:
        exp_orbit_calls = sum(len(partitions(n)) for n in range(NMAX + 1)) * MMAX
        if ctx.stats["exec:similarity.orbit_cardinality"] != exp_orbit_calls:
            raise RuntimeError(f"orbit_cardinality evaluated {ctx.stats['exec:similarity.orbit_cardinality']} times, closed form {exp_orbit_calls}")
        exp_event_calls = sum(n + 1 for n in range(NMAX + 1)) * MMAX
        if ctx.stats["exec:similarity.event_cardinality"] != exp_event_calls:
            raise RuntimeError(f"event_cardinality evaluated {ctx.stats['exec:similarity.event_cardinality']} times, closed form {exp_event_calls}")
        if ctx.stats["graphs:clique"] != sum(n_graphs.values()):
            raise RuntimeError(f"clique graphs enumerated {ctx.stats['graphs:clique']}, closed form {sum(n_graphs.values())}")
        if ctx.stats["graphs:resize"] != sum(v["graphs x labellings"] for v in rz_graphs.values()):
            raise RuntimeError("resize graphs enumerated differ from closed form")
        exp_small = sum(math.comb(m + P_SMALL, P_SMALL) for m in range(1, M_SMALL + 1))
        if ctx.stats["exec:similarity.sample_to_orbit"] != exp_small:
            raise RuntimeError(f"samples enumerated {ctx.stats['exec:similarity.sample_to_orbit']}, closed form {exp_small}")
    ctx.cov["bounds"] = bounds
    ctx.cov["phase_wall_s"] = timing
    ctx.cov["executions_by_routine"] = {k[5:]: int(v) for k, v in sorted(ctx.stats.items()) if k.startswith("exec:")}
    ctx.assumptions += [
        "np.random.choice(a, p) may return every element of a with p > 0 and nothing else; np.random.shuffle may produce every permutation, each with equal probability; np.random.choice without p is uniform",
        "node weight i belongs to the i-th node of graph.nodes (the library builds its weight table that way; it is the only reading that works for non-contiguous labels)",
        "picks inside grow / shrink are observed through the documented helper calls (c_0 per growth step, is_clique per shrink step); when the call trace is not a chain the check falls back to membership of the result in the reference reachable set",
        "in the large similarity range the shuffle is answered by 3 fixed permutations only; all permutations are followed for <= %d modes" % M_SMALL,
        "reference oracles: math.factorial multinomials, generating-function coefficients, itertools brute force over samples, pure-python adjacency sets for graphs",
    ]


# ============================================================================ replay
def replay(case):
    res = Res()
    k = case["kind"]
    only = case.get("answers")
    if k == "search_many":
        r = chk_search_many_iterations(Res())
        return [(s_, w) for s_, w, c in r.viol if c["g"] == case["g"] and c["seed"] == case["seed"] and c["sel"] == case["sel"]]
    if k == "orbits":
        chk_orbits(res, case["n"])
    elif k == "orbit_cardinality":
        chk_orbit_card(res, case["orbit"], case["modes"])
    elif k == "event_cardinality":
        n, c, m = case["n"], case["c"], case["modes"]
        pc = partitions(n, c)
        chk_event_card(res, n, c, m, sum(exact_orbit_card(p, m) for p in pc), any(len(p) > m for p in pc))
    elif k == "sample_to":
        chk_sample_to(res, case["sample"])
    elif k == "orbit_to_sample":
        chk_orbit_to_sample(res, case["orbit"], case["modes"], case["menu"], only)
    elif k == "event_to_sample":
        chk_event_to_sample(res, case["n"], case["c"], case["modes"], case["menu"], only)
    elif k == "samplepy":
        chk_samplepy(res, case["modes"] if "modes" in case else len(case["sample"]), case.get("maxc", 3))
    else:
        gc = GC(case["g"]["n"], case["g"]["mask"], case["g"]["lab"])
        if k == "clique_defs":
            chk_defs(res, gc, case["subset"])
        else:
            sel = sel_from_json(case["sel"])
            ref = Ref(gc, sel)
            if k == "grow":
                chk_grow(res, gc, case["seed"], sel, ref, only)
            elif k == "swap":
                chk_swap(res, gc, case["seed"], sel, ref, only)
            elif k == "search":
                chk_search(res, gc, case["seed"], case["iters"], sel, ref, only)
            elif k == "shrink":
                chk_shrink(res, gc, case["seed"], sel, ref, only)
            elif k == "resize":
                chk_resize(res, gc, case["sub"], case["lo"], case["hi"], sel, ref, only)
            elif k == "sg_search":
                chk_sg_search(res, gc, case["subs"], case["lo"], case["hi"], case["max_count"], sel, only)
            else:
                raise RuntimeError(f"unknown case kind {k}")
    return [(s, w) for s, w, _ in res.viol]
