"""C05 - see physics.py (shared explorer) and DESIGN.md section 4."""
from mc.checks import physics

ID = "C05"
LEVEL = "model_checking"
RULE = physics.__doc__


def configs(tier):
    if tier == "quick":
        return [
            ("gaussian", 1, 0, 3, 0), ("gaussian", 2, 0, 2, 1), ("gaussian", 3, 0, 2, 0),
            ("bosonic", 2, 0, 2, 1), ("bosonic", 3, 0, 1, 1),
            ("fock_pure", 1, 5, 3, 0), ("fock_pure", 2, 5, 2, 0), ("fock_pure", 3, 5, 1, 1),
            ("fock_mixed", 2, 5, 2, 0), ("fock_mixed", 3, 5, 1, 1),
        ]
    return [
        ("gaussian", 1, 0, 4, 0), ("gaussian", 2, 0, 3, 1), ("gaussian", 3, 0, 2, 1),
        ("bosonic", 1, 0, 3, 0), ("bosonic", 2, 0, 3, 0), ("bosonic", 3, 0, 2, 1),
        ("fock_pure", 1, 5, 4, 0), ("fock_pure", 2, 5, 3, 0), ("fock_pure", 3, 5, 2, 1), ("fock_pure", 2, 7, 2, 1),
        ("fock_mixed", 1, 5, 3, 0), ("fock_mixed", 2, 5, 2, 1), ("fock_mixed", 3, 5, 1, 1), ("fock_mixed", 2, 7, 2, 0),
    ]


def bcat_work(items):
    from mc.checks import c06b

    return c06b.work(items, ID)


# weakly squeezed entangled states: at cutoff 10 the truncated quadrature eigenstate is accurate to the 1e-6 of the oracle
FOCK_MEAS_HISTS = [
    (("S2(.2,.5)", (0, 1)),),
    (("S2(.2,.5)", (1, 0)),),
    (("Th(.3)", (0,)), ("BS(.5,.3)", (0, 1))),
]


def fock_meas_work(task):
    """conditional update of the unmeasured mode on the Fock simulator (photon counting with every answer of the menu, homodyne
    post-selected on positive, zero and negative values): the family of C06 (mc/checks/c06.py: check_fock) on entangled two-mode
    states, reported under this property"""
    from mc.checks import c06
    from mc.core.ctx import Res

    hist, pure = task
    r = Res()
    c06.check_fock(2, hist, pure, r, c06.CUT)
    r.nt = r.n
    r.viol = [(s.replace("C06|", "C05|fock-measurement|", 1), w, c) for s, w, c in r.viol]
    return r


def run(ctx):
    n0 = ctx.n
    for r in ctx.pmap(fock_meas_work, [(h, pure) for h in FOCK_MEAS_HISTS for pure in (True, False)]):
        ctx.add(r)
    ctx.stats["fock_measurement_conditional_update_cases"] = ctx.n - n0
    physics.explore(ctx, ID, configs(ctx.tier))
    physics.explore_register(ctx, ID, ctx.tier == "quick")
    # the conditional update of the unmeasured mode on NON-Gaussian states of the bosonic simulator (complex weights and means,
    # re-weighted per peak): cat states entangled with a second mode, post-selected homodyne / heterodyne on either mode,
    # against a dense Fock reference (family shared with C06, mc/checks/c06b.py)
    from mc.checks import c06b

    n0 = ctx.n
    for r in ctx.pmap(bcat_work, [t[3] for t in c06b.tasks(ctx.tier == "quick")]):
        ctx.add(r)
        if ctx.time_left() < 0:
            ctx.close()
            ctx.cap_hit("time budget hit in the bosonic cat-state family")
            break
    ctx.stats["bosonic_cat_conditional_update_cases"] = ctx.n - n0


def replay(case):
    if str(case.get("kind", "")).startswith("fock") and "hist" in case and "meas" in case:
        from mc.checks import c06

        return [(s.replace("C06|", "C05|fock-measurement|", 1), w) for s, w in c06.replay(case)]
    if case.get("bosonic_cat"):
        from mc.checks import c06b

        return c06b.replay(case, ID)
    return physics.replay_case(ID, case)
