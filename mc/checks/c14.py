"""C14 - saving and loading a program preserves its meaning.

Form S: (A) every operation class exported by ops.__all__ x parameter kinds (int, float, negative, tiny, numpy
scalar, array, complex where allowed, free symbol, measured symbol, expressions of both) x dagger x target-mode
order; (B) every sequence up to length 3 over a small alphabet (ordering, feed-forward after a measurement,
post-selection, dark counts); (C) program options (name, target after compile, shots, cutoff_dim); (D) time-domain
programs with their per-bin arrays; each written with to_blackbird().serialize() and to_xir().serialize(), loaded
back with sf.io.loads, and by executing generate_code.  Oracle: the loaded program has the same normalised command
list (class, parameters - numbers to 1e-12, symbols by name -, modes in order, select, dark_counts, dagger) and
options, and the same reference map where defined.  A writer that raises is acceptable; silently writing something
else is the violation.
"""
import itertools
import warnings

import numpy as np
import sympy

import strawberryfields as sf
from strawberryfields import ops
from strawberryfields.parameters import par_funcs as pf

from mc.core.ctx import Res
from mc.ref import opsem

ID = "C14"
LEVEL = "exploration"
RULE = __doc__ + " Non-trivial: cases where the writer produced text and the reader produced a program."
PI = np.pi
IRS = ("blackbird", "xir")

U2 = np.array([[np.cos(0.4), -np.exp(-0.3j) * np.sin(0.4)], [np.exp(0.3j) * np.sin(0.4), np.cos(0.4)]])
S2 = np.array([[1.2, 0.1], [0.3, 0.8583333333333334]])
VG = np.array([[1.3, 0.2], [0.2, 1.1]])
A2 = np.array([[0.0, 1.0], [1.0, 0.0]])
KET = np.array([0.6, 0.8j, 0.0])
DM = np.diag([0.5, 0.3, 0.2]).astype(complex)

# parameter kinds for a real-valued slot
KINDS = {
    "int": lambda P, q: 1,
    "float": lambda P, q: 0.3,
    "negative": lambda P, q: -0.7,
    "tiny": lambda P, q: 1e-12,
    "npfloat": lambda P, q: np.float64(0.25),
    "pi/3": lambda P, q: PI / 3,
    "free": lambda P, q: P.params("a"),
    "free-expr": lambda P, q: 2 * P.params("a") + pf.sin(P.params("b")),
    "measured": lambda P, q: q[0].par,
    "measured-expr": lambda P, q: -0.5 * q[0].par + 1,
    "mixed-expr": lambda P, q: P.params("a") * q[0].par,
}
# class -> (factory(x) with one varied real slot, arity, daggerable)
REAL_OPS = {
    "Dgate.r": (lambda x: ops.Dgate(x, 0.4), 1, True),
    "Dgate.phi": (lambda x: ops.Dgate(0.3, x), 1, True),
    "Xgate": (lambda x: ops.Xgate(x), 1, True),
    "Zgate": (lambda x: ops.Zgate(x), 1, True),
    "Sgate.r": (lambda x: ops.Sgate(x, 0.3), 1, True),
    "Sgate.phi": (lambda x: ops.Sgate(0.2, x), 1, True),
    "Rgate": (lambda x: ops.Rgate(x), 1, True),
    "Pgate": (lambda x: ops.Pgate(x), 1, True),
    "Vgate": (lambda x: ops.Vgate(x), 1, True),
    "Kgate": (lambda x: ops.Kgate(x), 1, True),
    "BSgate.theta": (lambda x: ops.BSgate(x, 0.2), 2, True),
    "BSgate.phi": (lambda x: ops.BSgate(0.4, x), 2, True),
    "MZgate": (lambda x: ops.MZgate(x, 0.2), 2, True),
    "S2gate": (lambda x: ops.S2gate(x, 0.1), 2, True),
    "CXgate": (lambda x: ops.CXgate(x), 2, True),
    "CZgate": (lambda x: ops.CZgate(x), 2, True),
    "CKgate": (lambda x: ops.CKgate(x), 2, True),
    "Coherent": (lambda x: ops.Coherent(x, 0.1), 1, False),
    "Squeezed": (lambda x: ops.Squeezed(x, 0.1), 1, False),
    "DisplacedSqueezed": (lambda x: ops.DisplacedSqueezed(0.2, x, 0.1, 0.3), 1, False),
    "Thermal": (lambda x: ops.Thermal(x), 1, False),
    "LossChannel": (lambda x: ops.LossChannel(x), 1, False),
    "ThermalLossChannel": (lambda x: ops.ThermalLossChannel(0.5, x), 1, False),
    "MeasureHomodyne.phi": (lambda x: ops.MeasureHomodyne(x), 1, False),
}
# fixed (non-lattice) operations: label -> (factory(), arity)
FIXED = {
    "Vacuum": (lambda: ops.Vacuum(), 1),
    "Fock(2)": (lambda: ops.Fock(2), 1),
    "Catstate": (lambda: ops.Catstate(0.8, 0.3, 1), 1),
    "GKP": (lambda: ops.GKP([0.1, 0.2], 0.4), 1),
    "Fourier": (lambda: ops.Fouriergate(), 1),
    "Fourier.H": (lambda: ops.Fouriergate().H, 1),
    "Ket": (lambda: ops.Ket(KET), 1),
    "DensityMatrix": (lambda: ops.DensityMatrix(DM), 1),
    "Interferometer": (lambda: ops.Interferometer(U2), 2),
    "Interferometer(mesh)": (lambda: ops.Interferometer(U2, mesh="triangular"), 2),
    "GaussianTransform": (lambda: ops.GaussianTransform(S2), 1),
    "Gaussian(V)": (lambda: ops.Gaussian(VG), 1),
    "Gaussian(V,r)": (lambda: ops.Gaussian(VG, np.array([0.3, -0.2])), 1),
    "GraphEmbed": (lambda: ops.GraphEmbed(A2, mean_photon_per_mode=0.5), 2),
    "BipartiteGraphEmbed": (lambda: ops.BipartiteGraphEmbed(A2, mean_photon_per_mode=0.5), 2),
    "PassiveChannel": (lambda: ops.PassiveChannel(0.8 * U2), 2),
    "MSgate": (lambda: ops.MSgate(0.3, 0.1, 1.2, 0.9, avg=True), 1),
    "MSgate(single)": (lambda: ops.MSgate(0.3, 0.1, 1.2, 0.9, avg=False), 1),
    "sMZgate": (lambda: ops.sMZgate(0.3, 0.2), 2),
    "MeasureX": (lambda: ops.MeasureHomodyne(0.0), 1),
    "MeasureP(select)": (lambda: ops.MeasureHomodyne(PI / 2, select=0.3), 1),
    "MeasureX(select=0)": (lambda: ops.MeasureHomodyne(0.0, select=0.0), 1),
    "MeasureHD(select=0)": (lambda: ops.MeasureHeterodyne(select=0j), 1),
    "MeasureFock(select=00)": (lambda: ops.MeasureFock(select=[0, 0]), 2),
    "MeasureFock(dark=0)": (lambda: ops.MeasureFock(dark_counts=[0, 0]), 2),
    "MeasureHD": (lambda: ops.MeasureHeterodyne(), 1),
    "MeasureHD(select)": (lambda: ops.MeasureHeterodyne(select=0.2 - 0.1j), 1),
    "MeasureFock": (lambda: ops.MeasureFock(), 2),
    "MeasureFock(select)": (lambda: ops.MeasureFock(select=[1, 0]), 2),
    "MeasureFock(dark)": (lambda: ops.MeasureFock(dark_counts=[0.1, 0.2]), 2),
    "MeasureThreshold": (lambda: ops.MeasureThreshold(), 2),
    "MeasureThreshold(select)": (lambda: ops.MeasureThreshold(select=[1, 0]), 2),
}


# ----------------------------------------------------------------------------- normal form of a program
def norm_param(p):
    if isinstance(p, sympy.Basic):
        if not p.free_symbols:
            return ("num", round(float(p), 12))
        # canonical string with symbols replaced by their printed names
        return ("sym", sympy.srepr(sympy.nsimplify(sympy.sympify(str(p).replace("{", "").replace("}", "")), rational=False).evalf(12)))
    if isinstance(p, np.ndarray):
        if p.dtype == object:
            return ("objarr", tuple(norm_param(x) for x in p.ravel()))
        return ("arr", p.shape, tuple(np.round(p.astype(complex).ravel(), 12).tolist()))
    if isinstance(p, (list, tuple)):
        return ("arr", (len(p),), tuple(np.round(np.asarray(p, dtype=complex).ravel(), 12).tolist()))
    if isinstance(p, (bool, np.bool_)):
        return ("bool", bool(p))
    if isinstance(p, complex) or isinstance(p, np.complexfloating):
        return ("num", complex(round(p.real, 12), round(p.imag, 12)))
    if isinstance(p, str):
        return ("str", p)
    if p is None:
        return ("none",)
    return ("num", round(float(p), 12))


def norm_sel(x):
    if x is None:
        return None
    return tuple(np.round(np.atleast_1d(np.asarray(x, dtype=complex)), 12).tolist())


NOT_GROUP = ("MZgate", "sMZgate")  # gates whose inverse is not obtained by negating the first parameter


def normal_form(prog):
    """daggered gates of the one-parameter families are put in their documented equivalent form G(-p0, ...)"""
    out = []
    for c in prog.circuit:
        op = c.op
        ps = list(op.p)
        dag = bool(getattr(op, "dagger", False))
        if dag and ps and op.__class__.__name__ not in NOT_GROUP:
            ps[0] = -ps[0]
            dag = False
        out.append((op.__class__.__name__, tuple(norm_param(p) for p in ps), tuple(r.ind for r in c.reg), dag, norm_sel(getattr(op, "select", None)), norm_sel(getattr(op, "dark_counts", None))))
    return out


def options(prog):
    return {"name": prog.name, "target": prog.target, "shots": prog.run_options.get("shots"), "cutoff_dim": prog.backend_options.get("cutoff_dim")}


def diff_forms(a, b):
    if len(a) != len(b):
        return "command-count", f"{len(a)} commands written, {len(b)} loaded"
    for k, (x, y) in enumerate(zip(a, b)):
        for field, i in (("class", 0), ("modes", 2), ("dagger", 3), ("select", 4), ("dark_counts", 5), ("parameters", 1)):
            if x[i] != y[i]:
                if field == "parameters" and len(x[1]) == len(y[1]) and all(_close(p, r) for p, r in zip(x[1], y[1])):
                    continue
                return field, f"command {k} ({x[0]}): {field} {x[i]} became {y[i]}"
    return None, ""


def _close(p, r):
    if p == r:
        return True
    if p[0] == "num" and r[0] == "num":
        return abs(complex(p[1]) - complex(r[1])) < 1e-10
    if p[0] == "arr" and r[0] == "arr" and len(p[2]) == len(r[2]):
        return np.allclose(np.array(p[2]), np.array(r[2]), atol=1e-10)
    return False


def roundtrip(prog, ir):
    """returns (loaded program or None, stage at which an exception occurred or None, exception)"""
    with warnings.catch_warnings():
        warnings.simplefilter("ignore")
        try:
            text = (sf.io.to_blackbird(prog) if ir == "blackbird" else sf.io.to_xir(prog)).serialize()
        except Exception as e:
            return None, "write", e
        try:
            return sf.io.loads(text, ir=ir), None, None
        except Exception as e:
            return None, "read", e


def judge(prog, label, res, case, n):
    before = normal_form(prog)
    nontrivial = False
    for ir in IRS:
        res.n += 1
        loaded, stage, exc = roundtrip(prog, ir)
        if loaded is None:
            res.stats[f"{ir}:{stage}-raises:{type(exc).__name__}"] += 1
            res.stats[f"example:{ir}:{stage}:{type(exc).__name__}:{label}:{str(exc)[:70]}"] += 1
            continue
        nontrivial = True
        after = normal_form(loaded)
        field, msg = diff_forms(before, after)
        if field:
            sub = label
            if field == "dagger":
                sub = next((x[0] for x, y in zip(before, after) if x[3] != y[3]), "?")
            if field == "parameters":
                for x, y in zip(before, after):
                    if any(p[0] in ("sym", "objarr") and r[0] == "str" for p, r in zip(x[1], y[1])):
                        sub = "symbol-becomes-string"
            res.violation(f"C14|{ir}|{field}|{sub}", f"{ir} round trip of {[str(c) for c in prog.circuit]}: {msg}", dict(case, ir=ir))
            continue
        oa, ob = options(prog), options(loaded)
        for k in oa:
            if oa[k] != ob[k] and not (k == "name" and oa[k] is None):
                res.violation(f"C14|{ir}|option-{k}", f"{ir} round trip changed {k}: {oa[k]!r} -> {ob[k]!r}", dict(case, ir=ir))
        try:
            env = {"free": {"a": 0.37, "b": -0.2}}
            try:
                sa, sb = opsem.program_map(prog.circuit, n, env=env), opsem.program_map(loaded.circuit, n, env=env)
            except opsem.Unsupported:
                # operations without a direct reference meaning (graph embeddings): the meaning of their real decomposition
                from strawberryfields.compilers import compiler_db

                dec = compiler_db["gaussian"]()
                sa, sb = opsem.program_map(dec.decompose(list(prog.circuit)), n, env=env), opsem.program_map(dec.decompose(list(loaded.circuit)), n, env=env)
            ok, why = sa.equal(sb, 1e-9)
            if not ok:
                res.violation(f"C14|{ir}|map|{label}", f"{ir} round trip of {[str(c) for c in prog.circuit]} changed the reference map: {why}", dict(case, ir=ir))
        except (opsem.Unsupported, Exception):
            pass
    return nontrivial


# ----------------------------------------------------------------------------- (A) single operations
def build_single(kind, cls, dag, modes, n=3):
    f, ar, _ = REAL_OPS[cls]
    P = sf.Program(n)
    with P.context as q:
        if "measured" in kind or "mixed" in kind:
            ops.MeasureHomodyne(0.0) | q[0]
        x = KINDS[kind](P, q)
        op = f(x)
        if dag:
            op = op.H
        op | tuple(q[m] for m in modes)
    return P


def work_single(task):
    cls = task
    res = Res()
    f, ar, can_dag = REAL_OPS[cls]
    for kind in KINDS:
        for dag in ((False, True) if can_dag else (False,)):
            for modes in [(1, 2)[:ar], (2, 1)[:ar]]:
                if ar == 1 and modes == (2,):
                    continue
                case = {"kind": "single", "cls": cls, "param": kind, "dagger": dag, "modes": list(modes)}
                try:
                    with warnings.catch_warnings():
                        warnings.simplefilter("ignore")
                        P = build_single(kind, cls, dag, modes)
                except Exception:
                    res.stats["not-constructible"] += 1
                    continue
                tag = "numeric" if kind in ("int", "float", "negative", "pi/3", "npfloat", "tiny") else kind
                if judge(P, tag, res, case, 3):
                    res.nt += 1
                    res.sample({"op": cls, "parameter": kind, "dagger": dag, "modes": list(modes)}, cap=1)
    return res


def work_fixed(task):
    lab = task
    res = Res()
    f, ar = FIXED[lab]
    # 3-mode register, and a 12-mode register with two-digit mode indices (10 sorts before 2 as a string)
    for modes, nreg in [((0, 1)[:ar], 3), ((1, 0)[:ar], 3), ((10, 2)[:ar], 12), ((11, 10)[:ar], 12)]:
        if ar == 1 and modes == (1,):
            modes = (2,)
        if ar > 2:
            if nreg == 12:
                continue
        case = {"kind": "fixed", "label": lab, "modes": list(modes), "register": nreg}
        P = sf.Program(nreg)
        try:
            with warnings.catch_warnings():
                warnings.simplefilter("ignore")
                with P.context as q:
                    f() | tuple(q[m] for m in modes)
        except Exception:
            res.stats["not-constructible"] += 1
            continue
        if judge(P, lab.split("(")[0], res, case, nreg):
            res.nt += 1
    return res


# ----------------------------------------------------------------------------- (B) sequences, (C) options
SEQ = {
    "S0": lambda P, q: ops.Sgate(0.3, 0.1) | q[0],
    "S1.H": lambda P, q: ops.Sgate(0.2, 0.0).H | q[1],
    "BS01": lambda P, q: ops.BSgate(0.4, 0.2) | (q[0], q[1]),
    "BS10": lambda P, q: ops.BSgate(0.4, 0.2) | (q[1], q[0]),
    "MX0": lambda P, q: ops.MeasureHomodyne(0.0, select=0.2) | q[0],
    "D1(m0)": lambda P, q: ops.Dgate(q[0].par, 0.0) | q[1],
    "R1(a)": lambda P, q: ops.Rgate(P.params("a")) | q[1],
    "Coh0": lambda P, q: ops.Coherent(0.3, 0.2) | q[0],
    "MF": lambda P, q: ops.MeasureFock() | (q[1], q[0]),
}


def work_seq(task):
    prefix, L = task
    res = Res()
    labs = list(SEQ)
    for k in range(0, L - len(prefix) + 1):
        for tail in itertools.product(labs, repeat=k):
            seq = tuple(prefix) + tail
            if "D1(m0)" in seq and ("MX0" not in seq or seq.index("MX0") > seq.index("D1(m0)")):
                continue
            case = {"kind": "seq", "seq": list(seq)}
            P = sf.Program(2)
            try:
                with warnings.catch_warnings():
                    warnings.simplefilter("ignore")
                    with P.context as q:
                        for l in seq:
                            SEQ[l](P, q)
            except Exception:
                continue
            if judge(P, "sequence", res, case, 2):
                res.nt += 1
    return res


def work_options(_):
    res = Res()
    for name in (None, "my_prog", "prog with space"):
        for target in (None, "gaussian", "fock"):
            for shots in (None, 7):
                for cutoff in (None, 5):
                    case = {"kind": "options", "name": name, "target": target, "shots": shots, "cutoff": cutoff}
                    P = sf.Program(2, name=name)
                    with P.context as q:
                        ops.Sgate(0.3, 0.1) | q[0]
                        ops.BSgate(0.4, 0.2) | (q[0], q[1])
                        ops.MeasureFock() | q
                    if target:
                        kw = {}
                        if shots:
                            kw["shots"] = shots
                        if cutoff:
                            kw["cutoff_dim"] = cutoff
                        with warnings.catch_warnings():
                            warnings.simplefilter("ignore")
                            P = P.compile(compiler=target, **kw)
                    elif shots or cutoff:
                        continue
                    if judge(P, "options", res, case, 2):
                        res.nt += 1
    # measured parameters of modes with one- and two-digit indices (symbol conversion on the load path)
    for m in (0, 1, 2, 9, 10, 11, 12):
        case = {"kind": "options", "measured_index": m}
        P = sf.Program(13)
        with P.context as q:
            ops.MeasureHomodyne(0.0) | q[1]
            if m != 1:
                ops.MeasureHomodyne(0.0) | q[m]
            ops.Dgate(0.5 * q[m].par + 0.1, 0.2) | q[3]
            ops.Zgate(q[m].par) | q[4]
        if judge(P, f"measured-index-{'two' if m >= 10 else 'one'}-digit", res, case, 13):
            res.nt += 1
    # generate_code
    extra = {"MPsel": lambda P, q: ops.MeasureHomodyne(PI / 2, select=0.3) | q[1], "MFsel": lambda P, q: ops.MeasureFock(dark_counts=[0.1, 0.2]) | (q[0], q[1])}
    for seq in (("S0", "BS01", "MF"), ("S1.H", "BS10"), ("Coh0", "MX0", "D1(m0)"), ("S0", "MPsel"), ("S0", "BS01", "MFsel")):
        res.n += 1
        P = sf.Program(2)
        with P.context as q:
            for l in seq:
                (SEQ.get(l) or extra[l])(P, q)
        case = {"kind": "generate_code", "seq": list(seq)}
        try:
            with warnings.catch_warnings():
                warnings.simplefilter("ignore")
                code = sf.io.generate_code(P)
            ns = {}
            exec(code.replace("eng.run", "pass # eng.run").replace("results =", "results = None #"), ns)  # noqa: S102
            Q = ns.get("prog")
        except Exception as e:
            res.stats[f"generate_code-raises:{type(e).__name__}"] += 1
            continue
        if Q is None:
            continue
        field, msg = diff_forms(normal_form(P), normal_form(Q))
        if field:
            res.violation(f"C14|generate_code|{field}", f"generate_code of {[str(c) for c in P.circuit]}: {msg}", case)
        res.nt += 1
    return res


# ----------------------------------------------------------------------------- (E) generate_code: numeric lattice and TDM arrays
def _regen(P):
    with warnings.catch_warnings():
        warnings.simplefilter("ignore")
        code = sf.io.generate_code(P)
    # the generated script uses np.pi without importing numpy (recorded finding, judged once in work_codegen): numpy is
    # supplied here so that the numbers themselves can be judged
    ns = {"np": np}
    exec(code.replace("eng.run", "pass # eng.run").replace("results =", "results = None #"), ns)  # noqa: S102
    return ns.get("prog"), code


def work_codegen(task):
    """every multiple k pi/12, |k| <= 60, exactly and with offsets of +-1e-9 (inside the generator's snapping tolerance)
    and +-1e-4 (outside it), and ordinary values, in the first and second slot of a gate and in TDM arrays: the
    regenerated program carries the same numbers (to the 2.6e-6 the generator's documented rounding to multiples of pi/12 may move them)"""
    ks = task
    res = Res()
    TOL = 3e-6
    if 0 in ks:
        # the generated text must run as it stands
        res.n += 1
        P = sf.Program(1)
        with P.context as q:
            ops.Rgate(PI / 2) | q[0]
        with warnings.catch_warnings():
            warnings.simplefilter("ignore")
            code = sf.io.generate_code(P)
        try:
            exec(code, {})  # noqa: S102
        except NameError as e:
            res.violation("C14|generate_code|script-not-executable|NameError", f"the script generated for Rgate(pi/2) does not run as it stands: {e} (it writes np.pi but never imports numpy)", {"kind": "codegen-exec"})
        except Exception as e:  # noqa: BLE001
            res.violation(f"C14|generate_code|script-not-executable|{type(e).__name__}", f"the script generated for Rgate(pi/2) does not run as it stands: {e!r}", {"kind": "codegen-exec"})
    for k in ks:
        for off in (0.0, 1e-9, -1e-9, 1e-4, -1e-4):
            v = k * PI / 12 + off
            res.n += 1
            res.nt += 1
            case = {"kind": "codegen-lattice", "k": k, "off": off}
            P = sf.Program(2)
            with P.context as q:
                ops.Rgate(v) | q[0]
                ops.BSgate(0.3, v) | (q[0], q[1])
            try:
                Q, code = _regen(P)
                got = [float(Q.circuit[0].op.p[0]), float(Q.circuit[1].op.p[1])]
            except Exception as e:  # noqa: BLE001
                res.violation(f"C14|generate_code|raises|{type(e).__name__}", f"generate_code / executing the generated code for the value {k} pi/12 + {off} raised {e!r}", case)
                continue
            if max(abs(g - v) for g in got) > TOL:
                kind = "exact-multiple" if off == 0 else ("near-multiple" if abs(off) < 1e-6 else "ordinary")
                sign = "negative" if v < 0 else "positive"
                res.violation(f"C14|generate_code|numeric-value|{kind}|{sign}", f"generate_code writes the gate parameter {v!r} (= {k} pi/12 {off:+g}) so that the regenerated program carries {got}", case)
        # the same values inside the per-bin arrays of a time-domain program
        res.n += 1
        case = {"kind": "codegen-tdm", "k": k}
        arr = [k * PI / 12, 0.3, -k * PI / 12 + 1e-9]
        P = sf.TDMProgram(N=2)
        try:
            with warnings.catch_warnings():
                warnings.simplefilter("ignore")
                with P.context(arr, [0.1, 0.2, 0.3]) as (pp, q):
                    ops.Rgate(pp[0]) | q[1]
                    ops.BSgate(pp[1], 0.0) | (q[1], q[0])
                    ops.MeasureHomodyne(0.0) | q[0]
            Q, code = _regen(P)
            got = [float(x) for x in Q.tdm_params[0]]
        except Exception as e:  # noqa: BLE001
            res.stats[f"generate_code-tdm-raises:{type(e).__name__}"] += 1
            continue
        res.nt += 1
        if len(got) != len(arr) or max(abs(g - a) for g, a in zip(got, arr)) > TOL:
            res.violation("C14|generate_code|tdm-array-value", f"generate_code writes the TDM array {arr} so that the regenerated program carries {got}", case)
    return res


# ----------------------------------------------------------------------------- (D) TDM programs
def work_tdm(_):
    res = Res()
    # number of loop variables: 2, and 11 / 12 / 23 (names p10, p11, ... p2 do not sort numerically as strings)
    # variant 1: a daggered gate and an expression whose parameters are loop variables; variant 2: run / backend options set
    fam = [(N, T, shift, 2, 0) for N in ([2], [3], [1, 2]) for T in (2, 3) for shift in ("default", 1)] + [(N, 2, "default", nv, 0) for N in ([2], [1, 2]) for nv in (10, 11, 12, 23)]
    fam += [(N, 2, "default", 2, var) for N in ([2], [1, 2]) for var in (1, 2)]
    for N, T, shift, nv, var in fam:
        if True:
            if True:
                res_case = {"kind": "tdm", "N": N, "T": T, "shift": shift, "loop_variables": nv, "variant": var}
                arrs = [[round(0.2 + 0.15 * t, 6) for t in range(T)], [round(0.7 - 0.1 * t, 6) for t in range(T)]] + [[round(0.05 * k + 0.01 * t, 6) for t in range(T)] for k in range(2, nv)]
                P = sf.TDMProgram(N=N)
                C = sum(N)
                with P.context(*arrs, shift=shift) as (p, q):
                    ops.Sgate(0.5, p[1]) | q[C - 1]
                    if C >= 2:
                        ops.BSgate(p[0], 0.2) | (q[C - 2], q[C - 1])
                    ops.Rgate(0.3).H | q[C - 1]
                    for k in range(2, nv):
                        ops.Rgate(p[k]) | q[C - 1]
                    if var == 1:
                        ops.Rgate(p[0]).H | q[C - 1]
                        ops.Rgate(2 * p[1]) | q[C - 1]
                    ops.MeasureHomodyne(p[1]) | q[0]
                    if len(N) > 1:
                        # a numeric measurement angle in a TDM program makes the XIR reader raise (loud, counted): kept in one family only
                        ops.MeasureHomodyne(0.1 if T == 3 else p[0]) | q[N[0]]
                if var == 2:
                    P.run_options["shots"] = 3
                    P.backend_options["cutoff_dim"] = 5
                for ir in IRS:
                    res.n += 1
                    loaded, stage, exc = roundtrip(P, ir)
                    if loaded is None:
                        res.stats[f"tdm:{ir}:{stage}-raises:{type(exc).__name__}"] += 1
                        continue
                    res.nt += 1
                    for k, v in options(P).items():
                        if k in ("shots", "cutoff_dim") and options(loaded)[k] != v:
                            res.violation(f"C14|{ir}|tdm|option-{k}", f"{ir} round trip of a TDM program (N={N}) with {k}={v!r} gives {k}={options(loaded)[k]!r}", dict(res_case, ir=ir))
                    field, msg = diff_forms(normal_form(P), normal_form(loaded))
                    if field:
                        res.violation(f"C14|{ir}|tdm|{field}", f"{ir} round trip of a TDM program (N={N}, T={T}): {msg}", dict(res_case, ir=ir))
                        continue
                    if not isinstance(loaded, sf.TDMProgram):
                        res.violation(f"C14|{ir}|tdm|type", f"{ir} round trip of a TDM program returned a {type(loaded).__name__}", dict(res_case, ir=ir))
                        continue
                    if [list(map(float, a)) for a in loaded.tdm_params] != arrs or list(loaded.N) != list(N):
                        res.violation(f"C14|{ir}|tdm|arrays", f"{ir} round trip of a TDM program changed the per-bin arrays or N: {loaded.tdm_params}, N={loaded.N}", dict(res_case, ir=ir))
                    if getattr(loaded, "shift", "default") != shift and not (len(N) == 1 and shift == 1):  # shift 1 on one band is the default rule
                        res.violation(f"C14|{ir}|tdm|shift", f"{ir} round trip of a TDM program with shift={shift!r} gives shift={getattr(loaded, 'shift', None)!r}", dict(res_case, ir=ir))
    return res


def _dispatch(task):
    kind, arg = task
    return {"single": work_single, "fixed": work_fixed, "seq": work_seq, "options": work_options, "tdm": work_tdm, "codegen": work_codegen}[kind](arg)


def run(ctx):
    quick = ctx.tier == "quick"
    tasks = [("single", c) for c in REAL_OPS] + [("fixed", l) for l in FIXED]
    L = 2 if quick else 3
    for a in SEQ:
        tasks.append(("seq", ((a,), L)))
    tasks += [("options", None), ("tdm", None)]
    ks = list(range(-60, 61))
    tasks += [("codegen", ks[i : i + 8]) for i in range(0, len(ks), 8)]
    for r in ctx.pmap(_dispatch, tasks):
        ctx.add(r)
    ctx.cov["operation_classes"] = sorted({c.split(".")[0] for c in REAL_OPS} | {l.split("(")[0] for l in FIXED})
    ctx.assumptions += ["a writer or reader that raises is counted (stats) and not reported: only silent changes of meaning are violations", "symbolic parameters are compared through a canonical sympy form after stripping the {name} decoration of free parameters"]


def replay(case):
    k = case["kind"]
    if k == "single":
        r = work_single(case["cls"])
        sel = lambda c: c.get("param") == case["param"] and c.get("dagger") == case["dagger"] and c.get("modes") == case["modes"] and c.get("ir") == case.get("ir")
    elif k == "fixed":
        r = work_fixed(case["label"])
        sel = lambda c: c.get("modes") == case["modes"] and c.get("ir") == case.get("ir")
    elif k == "seq":
        r = work_seq((tuple(case["seq"]), len(case["seq"])))
        sel = lambda c: c.get("seq") == case["seq"] and c.get("ir") == case.get("ir")
    elif k == "codegen-exec":
        r = work_codegen([0])
        sel = lambda c: c.get("kind") == "codegen-exec"
    elif k in ("codegen-lattice", "codegen-tdm"):
        r = work_codegen([case["k"]])
        sel = lambda c: all(c.get(x) == case.get(x) for x in case)
    elif k in ("options", "generate_code"):
        r = work_options(None)
        sel = lambda c: all(c.get(x) == case.get(x) for x in case)
    else:
        r = work_tdm(None)
        sel = lambda c: all(c.get(x) == case.get(x) for x in case)
    return [(s, w) for s, w, c in r.viol if sel(c)]
