"""C03, programs with non-Gaussian gates: optimisation judged by a differential run on the Fock simulator.

Every program up to length 3 over 21 letters on 2 modes (displacement, squeezing, rotation, beamsplitter; Kerr gate with
two different strengths and daggered; cubic phase gate and its dagger; cross-Kerr in both mode orders and daggered) that
contains at least one non-Gaussian gate is optimised by the real Program.optimize and by compile(optimize=True) for the
Fock target.  Oracle: the Fock state (cutoff 7) of the optimised program equals that of the source program - merged gates
of one family multiply exactly in the truncated space (diagonal Kerr gates, one truncated generator for the cubic phase) -
the source program is left unchanged, and every non-Gaussian command that survives keeps its mode.
"""
import itertools
import warnings

import numpy as np

import strawberryfields as sf
from strawberryfields import ops

from mc.core.ctx import Res

CUT = 7
LET = {
    "D": (lambda: ops.Dgate(0.2, 0.3), 1), "S": (lambda: ops.Sgate(0.15, 0.2), 1), "R": (lambda: ops.Rgate(0.4), 1), "BS": (lambda: ops.BSgate(0.4, 0.2), 2),
    "K": (lambda: ops.Kgate(0.3), 1), "K.H": (lambda: ops.Kgate(0.3).H, 1), "K'": (lambda: ops.Kgate(0.5), 1),
    "V": (lambda: ops.Vgate(0.05), 1), "V.H": (lambda: ops.Vgate(0.05).H, 1),
    "CK": (lambda: ops.CKgate(0.4), 2), "CK.H": (lambda: ops.CKgate(0.4).H, 2),
}
NONG = ("K", "K.H", "K'", "V", "V.H", "CK", "CK.H")


def letters():
    out = []
    for lab, (_, ar) in LET.items():
        for modes in itertools.permutations(range(2), ar):
            if lab == "CK.H" and modes == (1, 0):
                continue
            out.append((lab, modes))
    return out


def build(seq):
    prog = sf.Program(2)
    with warnings.catch_warnings():
        warnings.simplefilter("ignore")
        with prog.context as q:
            ops.Coherent(0.3, 0.1) | q[0]
            ops.Squeezed(0.2, 0.4) | q[1]
            for lab, modes in seq:
                LET[lab][0]() | tuple(q[m] for m in modes)
    return prog


def fock_dm(prog):
    with warnings.catch_warnings():
        warnings.simplefilter("ignore")
        return np.array(sf.Engine("fock", backend_options={"cutoff_dim": CUT}).run(prog).state.dm())


def fmt(seq):
    return " ; ".join(f"{l}{list(m)}" for l, m in seq)


def snap(prog):
    return tuple((id(c), id(c.op), c.op.__class__.__name__, tuple(repr(x) for x in c.op.p), getattr(c.op, "dagger", None), tuple(r.ind for r in c.reg)) for c in prog.circuit)


def check(seq, res):
    case = {"nongaussian": True, "seq": [[l, list(m)] for l, m in seq]}
    fams = "+".join(sorted({l.split(".")[0].rstrip("'") for l, _ in seq if l in NONG}))
    src = build(seq)
    before = snap(src)
    ref = fock_dm(build(seq))
    for route in ("optimize", "compile-optimize"):
        try:
            with warnings.catch_warnings():
                warnings.simplefilter("ignore")
                out = src.optimize() if route == "optimize" else src.compile(compiler="fock", optimize=True)
            got = fock_dm(out)
        except Exception as e:  # noqa: BLE001
            res.violation(f"C03|nongaussian|{route}|raises|{type(e).__name__}", f"{route} of [{fmt(seq)}] raised {e!r}", dict(case, route=route))
            continue
        if snap(src) != before:
            res.violation(f"C03|nongaussian|{route}|source-modified|{fams}", f"{route} of [{fmt(seq)}] changed the source program: {[str(c) for c in src.circuit]}", dict(case, route=route))
        d = float(np.max(np.abs(got - ref)))
        if d > 1e-9:
            res.violation(f"C03|nongaussian|{route}|state|{fams}", f"{route} of [{fmt(seq)}] gives {[str(c) for c in out.circuit][2:]}; its Fock state differs from the source program's by {d:.3g}", dict(case, route=route))
    return len(out.circuit) < len(src.circuit) if "out" in dir() else False


def work(task):
    prefix, L = task
    res = Res()
    alpha = letters()
    for k in range(0, L - len(prefix) + 1):
        for tail in itertools.product(alpha, repeat=k):
            seq = tuple(prefix) + tail
            if not any(l in NONG for l, _ in seq):
                continue
            res.n += 1
            if check(seq, res):
                res.nt += 1
                res.sample({"nongaussian": True, "program": fmt(seq)}, cap=1)
    return res


def tasks(quick):
    alpha = letters()
    L = 3
    out = [((a,), 1) for a in alpha]
    out += [((a, b), L) for a in alpha for b in alpha] if not quick else [((a, b), 2) for a in alpha for b in alpha] + [((a, b), 3) for a in alpha for b in alpha if a[0] in NONG and b[0] in NONG]
    return out


def replay(case):
    res = Res()
    check(tuple((l, tuple(m)) for l, m in case["seq"]), res)
    return [(s, w) for s, w, c in res.viol if c.get("route") == case.get("route")]
