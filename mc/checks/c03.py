"""C03 - circuit optimisation never changes what a program computes.

Form S: every program of length <= L over the letter alphabet below (each letter = operation x
ordered target tuple) on registers of 2 and 3 modes.  Oracle: the reference affine map (X, Y, d) of
the optimised circuit on the measurement-extended register equals that of the source (this decides
"for every input state" exactly), the source program's snapshot is unchanged, and the same for
compile(optimize=True) vs compile(optimize=False).
"""
import itertools
import warnings

import numpy as np

import strawberryfields as sf
from strawberryfields import ops

from mc.core.ctx import Res
from mc.ref import opsem

ID = "C03"
LEVEL = "exploration"
RULE = (
    "all command sequences up to length L over the letter alphabet (operation x ordered target tuple); a case is "
    "non-trivial when the optimiser changed the command list (merge or cancellation happened); sequences are distinct by construction"
)

U2 = np.array([[np.cos(0.4), -np.exp(-0.3j) * np.sin(0.4)], [np.exp(0.3j) * np.sin(0.4), np.cos(0.4)]]) * np.exp(0.2j)
U1 = np.array([[np.exp(0.6j)]])
S1 = np.array([[np.cosh(0.3) - np.sinh(0.3) * np.cos(0.5), -np.sinh(0.3) * np.sin(0.5)], [-np.sinh(0.3) * np.sin(0.5), np.cosh(0.3) + np.sinh(0.3) * np.cos(0.5)]])
VG = np.array([[1.3, 0.2], [0.2, 1.1]])

# label -> (arity, factory(prog, q) -> op).  `q` is the register (for measured parameters), prog for free ones.
ONE = {
    "D(.3,.2)": lambda P, q: ops.Dgate(0.3, 0.2),
    "D(-.3,.2)": lambda P, q: ops.Dgate(-0.3, 0.2),
    "D(.3,.5)": lambda P, q: ops.Dgate(0.3, 0.5),
    "D(.3,.2).H": lambda P, q: ops.Dgate(0.3, 0.2).H,
    "S(.2,.1)": lambda P, q: ops.Sgate(0.2, 0.1),
    "S(-.2,.1)": lambda P, q: ops.Sgate(-0.2, 0.1),
    "S(.2,.1).H": lambda P, q: ops.Sgate(0.2, 0.1).H,
    "S(.25,.7)": lambda P, q: ops.Sgate(0.25, 0.7),
    "R(.4)": lambda P, q: ops.Rgate(0.4),
    "R(-.4)": lambda P, q: ops.Rgate(-0.4),
    "R(.4).H": lambda P, q: ops.Rgate(0.4).H,
    "R(.9)": lambda P, q: ops.Rgate(0.9),
    "X(.3)": lambda P, q: ops.Xgate(0.3),
    "X(.3).H": lambda P, q: ops.Xgate(0.3).H,
    "Z(-.3)": lambda P, q: ops.Zgate(-0.3),
    "Z(.3)": lambda P, q: ops.Zgate(0.3),
    "P(.5)": lambda P, q: ops.Pgate(0.5),
    "P(.5).H": lambda P, q: ops.Pgate(0.5).H,
    "F": lambda P, q: ops.Fouriergate(),
    "F.H": lambda P, q: ops.Fouriergate().H,
    "Loss(.5)": lambda P, q: ops.LossChannel(0.5),
    "Loss(.8)": lambda P, q: ops.LossChannel(0.8),
    "Loss(1)": lambda P, q: ops.LossChannel(1.0),
    "TLoss(.5,.3)": lambda P, q: ops.ThermalLossChannel(0.5, 0.3),
    "TLoss(.8,.3)": lambda P, q: ops.ThermalLossChannel(0.8, 0.3),
    "TLoss(.8,.6)": lambda P, q: ops.ThermalLossChannel(0.8, 0.6),
    "MS(.3)": lambda P, q: ops.MSgate(0.3, 0.0, 1.2, 1.0, avg=True),
    "MS(.4)": lambda P, q: ops.MSgate(0.4, 0.0, 1.2, 1.0, avg=True),
    "PC(.7)": lambda P, q: ops.PassiveChannel(np.array([[0.7]])),
    "PC(.5i)": lambda P, q: ops.PassiveChannel(np.array([[0.5j]])),
    "Vac": lambda P, q: ops.Vacuum(),
    "Coh(.3,.5)": lambda P, q: ops.Coherent(0.3, 0.5),
    "Sq(.25,.4)": lambda P, q: ops.Squeezed(0.25, 0.4),
    "Th(.3)": lambda P, q: ops.Thermal(0.3),
    "I1(U)": lambda P, q: ops.Interferometer(U1),
    "I1(U^-1)": lambda P, q: ops.Interferometer(U1.conj().T),
    "GT1(S)": lambda P, q: ops.GaussianTransform(S1),
    "GT1(S^-1)": lambda P, q: ops.GaussianTransform(np.linalg.inv(S1)),
    "G1(V)": lambda P, q: ops.Gaussian(VG),
    # one-mode graph embeddings (a product of adjacency matrices is not the composition of the embeddings)
    "GE(.7)": lambda P, q: ops.GraphEmbed(np.array([[0.7]])),
    "GE(.6)": lambda P, q: ops.GraphEmbed(np.array([[0.6]])),
    "GE(2)": lambda P, q: ops.GraphEmbed(np.array([[2.0]])),
    "GE(.5)": lambda P, q: ops.GraphEmbed(np.array([[0.5]])),
    # a channel that is nearly, but not exactly, the identity; a channel with a free transmissivity
    "Loss(1-4e-6)": lambda P, q: ops.LossChannel(0.999996),
    "Loss(a)": lambda P, q: ops.LossChannel(P.params("a")),
    "D(a)": lambda P, q: ops.Dgate(P.params("a"), 0.2),
    "D(-a)": lambda P, q: ops.Dgate(-P.params("a"), 0.2),
    "MX": lambda P, q: ops.MeasureHomodyne(0.0),
    "MP(sel)": lambda P, q: ops.MeasureHomodyne(np.pi / 2, select=0.3),
    "MHD": lambda P, q: ops.MeasureHeterodyne(),
}
# gates on mode 1 whose parameter is the measured value of mode 0
FEED = {
    "D(m0)": lambda P, q: ops.Dgate(q[0].par, 0.2),
    "D(2*m0)": lambda P, q: ops.Dgate(2 * q[0].par, 0.2),
    "D(-m0)": lambda P, q: ops.Dgate(-q[0].par, 0.2),
    "X(m0)": lambda P, q: ops.Xgate(q[0].par),
    "Z(m0).H": lambda P, q: ops.Zgate(q[0].par).H,
}
TWO = {
    "BS(.4,.1)": lambda P, q: ops.BSgate(0.4, 0.1),
    "BS(.4,.1).H": lambda P, q: ops.BSgate(0.4, 0.1).H,
    "MZ(.3,.5)": lambda P, q: ops.MZgate(0.3, 0.5),
    "CX(.4)": lambda P, q: ops.CXgate(0.4),
    "CX(-.4)": lambda P, q: ops.CXgate(-0.4),
    "CZ(.4).H": lambda P, q: ops.CZgate(0.4).H,
    "S2(.2,.1)": lambda P, q: ops.S2gate(0.2, 0.1),
    "S2(.2,.1).H": lambda P, q: ops.S2gate(0.2, 0.1).H,
    "I2(U)": lambda P, q: ops.Interferometer(U2),
    "I2(U^-1)": lambda P, q: ops.Interferometer(U2.conj().T),
}
CORE_ONE = ["D(.3,.2)", "D(-.3,.2)", "D(.3,.2).H", "S(.2,.1)", "S(.2,.1).H", "R(.4)", "R(-.4)", "X(.3)", "X(.3).H", "F", "F.H",
            "Loss(.5)", "Loss(1)", "TLoss(.5,.3)", "MS(.3)", "Vac", "Coh(.3,.5)", "I1(U)", "I1(U^-1)", "GT1(S)", "MX"]
CORE_TWO = ["BS(.4,.1)", "BS(.4,.1).H", "CX(.4)"]
ENV = {"free": {"a": 0.37}}


def letters(n, core=False):
    out = []
    one = CORE_ONE if core else list(ONE)
    two = CORE_TWO if core else list(TWO)
    for lab in one:
        for m in range(n):
            out.append((lab, (m,)))
    for lab in FEED:
        if core and lab not in ("D(m0)", "D(-m0)"):
            continue
        for m in range(1, n):
            out.append((lab, (m,)))
    for lab in two:
        for pair in itertools.permutations(range(n), 2):
            out.append((lab, pair))
    return out


def build(n, seq):
    prog = sf.Program(n)
    q = prog.register
    with warnings.catch_warnings():
        warnings.simplefilter("ignore")
        with prog.context:
            for lab, modes in seq:
                f = ONE.get(lab) or FEED.get(lab) or TWO.get(lab)
                op = f(prog, q)
                op | tuple(q[m] for m in modes)
    return prog


def snapshot(prog):
    snap = []
    for c in prog.circuit:
        op = c.op
        ps = []
        for x in op.p:
            if isinstance(x, np.ndarray):
                ps.append((id(x), x.tobytes()))
            else:
                ps.append((id(x), repr(x)))
        snap.append((id(c), id(op), op.__class__.__name__, tuple(ps), len(op.p), getattr(op, "dagger", None),
                     repr(getattr(op, "select", None)), tuple((id(r), r.ind, r.active) for r in c.reg)))
    return (tuple(snap), len(prog.reg_refs), tuple(sorted(prog.free_params)))


def check_case(n, seq, res, compilers=(), do_min=True):
    """Evaluate one program; returns True if non-trivial."""
    case = {"n": n, "seq": [[l, list(m)] for l, m in seq], "compilers": list(compilers)}
    try:
        prog = build(n, seq)
    except Exception as e:  # building a legal program must not fail
        res.violation("C03|build-error|" + type(e).__name__, f"building {seq} raised {e!r}", case)
        return False
    try:
        ref = opsem.program_map(prog.circuit, n, env=ENV)
    except opsem.Unsupported:
        # operations without a direct reference meaning (graph embeddings): the meaning of their real decomposition
        # (judged by C02) stands in for it
        try:
            ref = opsem.program_map(executed(prog.circuit), n, env=ENV)
            res.stats["reference_through_decomposition"] += 1
        except Exception:
            res.stats["skipped_no_reference"] += 1
            return False
    before = snapshot(prog)
    nontrivial = False
    variants = [("optimize", lambda: prog.optimize())]
    for cname in compilers:
        variants.append((cname, None))
    for vname, fn in variants:
        try:
            with warnings.catch_warnings():
                warnings.simplefilter("ignore")
                if fn is not None:
                    out = fn()
                    base_sem = ref
                    # what the optimised program *executes*: decomposed to backend primitives, vs the source decomposed
                    ex_src = executed(prog.circuit)
                    ex_out = executed(out.circuit)
                    if ex_src is not None:
                        if ex_out is None:
                            _viol(res, n, seq, compilers, do_min, "optimize", "output-not-decomposable", f"optimised {seq} cannot be decomposed", case)
                        else:
                            ok, why = opsem.program_map(ex_src, n, env=ENV).equal(opsem.program_map(ex_out, n, env=ENV), 1e-9)
                            if not ok:
                                _viol(res, n, seq, compilers, do_min, "optimize", "executed-map", f"optimised program executes a different map than {[l + str(list(m)) for l, m in seq]}: {why}; decomposed output {[str(c) for c in ex_out]}", case)
                else:
                    try:
                        plain = prog.compile(compiler=vname)
                    except Exception:
                        res.stats[f"compile_{vname}_rejected"] += 1
                        continue
                    base_sem = opsem.program_map(plain.circuit, n, env=ENV)
                    out = prog.compile(compiler=vname, optimize=True)
        except Exception as e:
            _viol(res, n, seq, compilers, do_min, vname, "raises", f"{vname} of {seq} raised {type(e).__name__}: {e}", case)
            continue
        if len(out.circuit) != len(prog.circuit) or any(a.op is not b.op for a, b in zip(out.circuit, prog.circuit)):
            nontrivial = True
        try:
            try:
                got = opsem.program_map(out.circuit, n, env=ENV)
            except opsem.Unsupported:
                got = opsem.program_map(executed(out.circuit), n, env=ENV)
        except (opsem.Unsupported, TypeError) as e:
            _viol(res, n, seq, compilers, do_min, vname, "output-uninterpretable", f"{vname} output of {seq} has no reference meaning: {e}", case)
            continue
        ok, why = base_sem.equal(got, 1e-9)
        if not ok:
            _viol(res, n, seq, compilers, do_min, vname, "map", f"{vname} changed the map of {[l + str(list(m)) for l, m in seq]}: {why}; output {[str(c) for c in out.circuit]}", case)
        after = snapshot(prog)
        if after != before:
            _viol(res, n, seq, compilers, do_min, vname, "source-mutated", f"{vname} modified the source program {seq}", case)
            before = after
    return nontrivial


def executed(circuit):
    """The primitive command list an engine would execute (real per-target decomposition)."""
    from strawberryfields.compilers import compiler_db

    for cname in ("gaussian", "bosonic"):
        try:
            return compiler_db[cname]().decompose(list(circuit))
        except Exception:
            continue
    return None


def _viol(res, n, seq, compilers, do_min, vname, kind, what, case):
    """Record a violation under the signature of its minimised (one-at-a-time deletion) sub-program."""
    mseq = list(seq)
    if do_min:
        changed = True
        while changed and len(mseq) > 1:
            changed = False
            for i in range(len(mseq)):
                cand = mseq[:i] + mseq[i + 1 :]
                r = Res()
                check_case(n, cand, r, compilers, do_min=False)
                if any(sg.startswith(f"C03|{vname}|{kind}|") for sg, _, _ in r.viol):
                    mseq = cand
                    changed = True
                    break
    res.violation(f"C03|{vname}|{kind}|{sig_ops(mseq)}", what, case)


def sig_ops(seq):
    """signature basis: operation labels without parameters-insensitive details, order preserved, modes made relative."""
    ms = []
    for _, m in seq:
        for x in m:
            if x not in ms:
                ms.append(x)
    return ";".join(f"{_tag(l)}@{','.join(str(ms.index(x)) for x in m)}" for l, m in seq)


def _tag(label):
    """operation family of a letter: class abbreviation, dagger flag, measured/free parameter marker (no values)."""
    t = label.split("(")[0].replace(".H", "")
    if "m0" in label:
        t += "[meas]"
    if "(a)" in label or "(-a)" in label:
        t += "[free]"
    if label.endswith(".H"):
        t += ".H"
    return t


def work(task):
    n, prefix, L, core, compilers = task
    res = Res()
    alpha = letters(n, core)
    for k in range(0, L - len(prefix) + 1):
        for tail in itertools.product(alpha, repeat=k):
            seq = tuple(prefix) + tail
            if not seq:
                continue
            res.n += 1
            comp = compilers if len(seq) <= 2 else ()
            if check_case(n, seq, res, comp):
                res.nt += 1
                res.sample({"n": n, "program": [l + str(list(m)) for l, m in seq]})
    return res


def run(ctx):
    quick = ctx.tier == "quick"
    plans = []
    if quick:
        plans += [(2, 2, False, ("gaussian", "bosonic")), (2, 3, True, ()), (3, 2, True, ())]
    else:
        plans += [(2, 3, False, ("gaussian", "bosonic", "fock")), (2, 4, True, ()), (3, 3, True, ("gaussian",))]
    total_expected = 0
    for n, L, core, comp in plans:
        alpha = letters(n, core)
        total_expected += sum(len(alpha) ** k for k in range(1, L + 1))
        # tasks: one per prefix of length min(L, 2) (and shorter complete programs handled by the empty/one-letter prefixes)
        tasks = []
        plen = min(L, 2)
        for k in range(1, plen):
            for pre in itertools.product(alpha, repeat=k):
                tasks.append((n, pre, k, core, comp))  # exactly this program
        for pre in itertools.product(alpha, repeat=plen):
            tasks.append((n, pre, L, core, comp))
        for r in ctx.pmap(work, tasks, chunksize=8):
            ctx.add(r)
        ctx.stats[f"plan n={n} L={L} core={core} letters={len(alpha)}"] = sum(len(alpha) ** k for k in range(1, L + 1))
    ctx.cov["space_size_closed_form"] = total_expected
    if ctx.n != total_expected:
        raise RuntimeError(f"enumerated {ctx.n} programs, closed form says {total_expected}")
    # programs with non-Gaussian gates: differential run on the Fock simulator
    from mc.checks import c03b

    n0 = ctx.n
    for r in ctx.pmap(c03b.work, c03b.tasks(quick), chunksize=4):
        ctx.add(r)
        if ctx.time_left() < 0:
            ctx.close()
            ctx.cap_hit("time budget hit in the non-Gaussian part")
            break
    ctx.cov["nongaussian_programs"] = ctx.n - n0
    ctx.assumptions += [
        "reference meaning of each operation transcribed from its docstring (mc/ref/opsem.py); equality of affine maps (X,Y,d) on the measurement-extended register decides equality for every input state",
        "parameters from a finite lattice containing exact inverse pairs, T=1, U U^-1, equal and different secondary parameters",
        "programs with non-Gaussian gates (Kgate, Vgate, CKgate, also daggered) are judged by a differential run on the Fock simulator at cutoff 7 (c03b)",
    ]


def replay(case):
    res = Res()
    if case.get("nongaussian"):
        from mc.checks import c03b

        return c03b.replay(case)
    seq = [(l, tuple(m)) for l, m in case["seq"]]
    check_case(case["n"], seq, res, tuple(case.get("compilers", ())))
    return [(s, w) for s, w, _ in res.viol]
