"""C20 - trainable-GBS and chemistry numerics are self-consistent.

Form S on a finite declared lattice (the inputs are continuous; every listed point is visited, none is sampled).

A. apps.train  - adjacency matrices (all labelled graphs on 2..4 nodes with >= 1 edge + 3 weighted symmetric matrices),
   n_mean in {.5, 1.5}, embeddings Exp(n) / ExpFeatures(F), parameter vectors on {-.4, 0, .3}^d, threshold F/T.
   Reference: the zero-mean pure Gaussian state whose A-matrix is W A_init W, built with mc.ref.phase from its
   eigen-decomposition (squeezers + interferometer); probabilities from a perfect-matching hafnian, sector sums from the
   closed-form total-photon distribution of a product of squeezed states, click probabilities by inclusion-exclusion of
   vacuum probabilities, moments from the covariance.  Gradients (PNR mode only, where they are exact) against central
   finite differences of the reported cost on the same data / the same supplied samples.
B. apps.similarity - prob_orbit_exact / prob_event_exact == brute-force sum of reference sample probabilities (with loss).
C. apps.qchem - gbs_params relations, VibronicTransition == Doktorov operator (phase-space and, for one-mode molecules,
   real-space Franck-Condon integrals), TimeEvolution passive / phases / Fock-backend photon-number conservation and
   permanent probabilities, utils.duschinsky defining relation, utils.marginals == diagonal of the reduced state.
"""
import itertools
import warnings
import math

import numpy as np
import scipy.constants as sc

import strawberryfields as sf
from strawberryfields.apps import similarity
from strawberryfields.apps.qchem import dynamics, vibronic
from strawberryfields.apps.qchem import utils as qutils
from strawberryfields.apps.train import cost, embed, param

from mc.core.ctx import Res
from mc.ref import opsem
from mc.ref import phase as ph

ID = "C20"
LEVEL = "exploration"
RULE = (
    "every point of the declared lattice is evaluated once per oracle group; a case is non-trivial when it is not the "
    "identity instance of its family: VGBS configuration with a non-zero parameter vector; similarity case with >= 2 photons "
    "in the orbit/event; chemistry case with a non-identity Duschinsky / normal-to-local matrix or wp != w or non-zero "
    "displacement or t > 0; cases are distinct lattice points by construction"
)

THETA = (-0.4, 0.0, 0.3)
NMEANS = (0.5, 1.5)
SPEC_MAX = 0.99  # documented precondition: singular values of A(theta) must not exceed one (1% margin for conditioning)
FD_STEP = 1e-5

W2 = [[0.5, 1.0], [1.0, -0.3]]
W3 = [[0.0, 0.7, -0.4], [0.7, 0.2, 1.0], [-0.4, 1.0, 0.0]]
W4 = [[0.3, 1.0, 0.0, 0.5], [1.0, 0.0, -0.6, 0.0], [0.0, -0.6, 0.1, 0.8], [0.5, 0.0, 0.8, 0.0]]
WEIGHTED = {2: W2, 3: W3, 4: W4}
ISO4 = [  # one representative per isomorphism class of 4-node graphs with >= 1 edge (quick tier)
    [(0, 1)],
    [(0, 1), (2, 3)],
    [(0, 1), (1, 2)],
    [(0, 1), (1, 2), (2, 3)],
    [(0, 1), (0, 2), (0, 3)],
    [(0, 1), (1, 2), (0, 2)],
    [(0, 1), (1, 2), (2, 3), (0, 3)],
    [(0, 1), (1, 2), (0, 2), (2, 3)],
    [(0, 1), (0, 2), (0, 3), (1, 2), (1, 3)],
    [(0, 1), (0, 2), (0, 3), (1, 2), (1, 3), (2, 3)],
]
ISO3 = [[(0, 1)], [(0, 1), (1, 2)], [(0, 1), (1, 2), (0, 2)]]
F01_ROWS = [[1.0, 0.0], [1.0, 1.0], [0.0, 1.0], [1.0, 0.0]]

FREQ2 = [(1000.0, 1500.0), (500.0, 500.0)]
FREQ3 = [(800.0, 1200.0, 3000.0)]
FREQ1 = [500.0, 800.0, 1000.0, 1200.0, 1500.0, 3000.0]
DELTA = (0.0, 0.3, -0.8)
TEMPS = (0.0, 300.0, 1000.0)
TIMES = (0.0, 10.0, 50.0)


# =============================================================================================== small exact maths
def _matchings(m):
    def rec(items):
        if not items:
            yield []
            return
        a = items[0]
        for k in range(1, len(items)):
            rest = items[1:k] + items[k + 1 :]
            for mm in rec(rest):
                yield [(a, items[k])] + mm

    ms = list(rec(list(range(2 * m))))
    return np.array([[p[0] for p in mm] for mm in ms], dtype=int), np.array([[p[1] for p in mm] for mm in ms], dtype=int)


_MATCH = {m: _matchings(m) for m in range(1, 5)}


def haf(M):
    """Hafnian as the sum over perfect matchings (exact up to 8 x 8)."""
    k = M.shape[0]
    if k == 0:
        return 1.0
    if k % 2:
        return 0.0
    I, J = _MATCH[k // 2]
    return M[I, J].prod(axis=1).sum()


def perm(M):
    k = M.shape[0]
    if k == 0:
        return 1.0
    return sum(np.prod([M[i, p[i]] for i in range(k)]) for p in itertools.permutations(range(k)))


def fact_prod(pattern):
    out = 1
    for k in pattern:
        out *= math.factorial(int(k))
    return out


def patterns(n, N):
    return [t for t in itertools.product(range(N + 1), repeat=n) if sum(t) <= N]


def rep_idx(pattern):
    return np.repeat(np.arange(len(pattern)), pattern)


def ref_cov(B):
    """hbar=2 xxpp covariance of the zero-mean pure state with A-matrix B (real symmetric, |eig| < 1):
    B = O diag(lam) O^T  ->  interferometer(O) applied to single-mode squeezers with -tanh(r_i) = lam_i."""
    lam, O = np.linalg.eigh(B)
    n = len(B)
    S = np.eye(2 * n)
    for i in range(n):
        S = ph.embed(ph.squeeze(-np.arctanh(lam[i])), [i], n) @ S
    S = ph.interferometer(O) @ S
    return S @ S.T, lam


def p_pure(B, norm, pattern):
    ix = rep_idx(pattern)
    return float(abs(haf(B[np.ix_(ix, ix)])) ** 2 / fact_prod(pattern) * norm)


def total_photon_dist(lam, K):
    """P(N = k), k = 0..K, of a product of squeezed vacua with tanh r_i = |lam_i| (invariant under interferometers)."""
    dist = np.zeros(K + 1)
    dist[0] = 1.0
    for l in lam:
        single = np.zeros(K + 1)
        for m in range(K // 2 + 1):
            single[2 * m] = np.sqrt(1 - l * l) * (l * l) ** m * math.factorial(2 * m) / (4.0**m * math.factorial(m) ** 2)
        dist = np.convolve(dist, single)[: K + 1]
    return dist


def amat_from_cov(V, hbar=2.0):
    """A-matrix X (1 - Q^-1) of a covariance (xxpp, given hbar), own formula."""
    n = V.shape[0] // 2
    T = np.block([[np.eye(n), 1j * np.eye(n)], [np.eye(n), -1j * np.eye(n)]])
    sigma = T @ V @ T.conj().T / (2.0 * hbar)
    Q = sigma + np.eye(2 * n) / 2
    X = np.block([[np.zeros((n, n)), np.eye(n)], [np.eye(n), np.zeros((n, n))]])
    return X @ (np.eye(2 * n) - np.linalg.inv(Q)), Q


def p_mixed(Amat, sqrtdetQ, pattern):
    n = len(pattern)
    ix = rep_idx(pattern)
    ix = np.concatenate([ix, ix + n])
    return float(np.real(haf(Amat[np.ix_(ix, ix)])) / (fact_prod(pattern) * sqrtdetQ))


def click_dist(V):
    """P(click pattern) for a zero-mean state with hbar=2 covariance V, by inclusion-exclusion over vacuum probabilities."""
    n = V.shape[0] // 2
    q = {}
    for Z in itertools.product((0, 1), repeat=n):
        modes = [i for i in range(n) if Z[i]]
        if not modes:
            q[Z] = 1.0
        else:
            ix = ph.idx(modes, n)
            q[Z] = 1.0 / np.sqrt(np.linalg.det((V[np.ix_(ix, ix)] + np.eye(len(ix))) / 2))
    out = {}
    for C in itertools.product((0, 1), repeat=n):
        on = [i for i in range(n) if C[i]]
        tot = 0.0
        for k in range(len(on) + 1):
            for S in itertools.combinations(on, k):
                Z = tuple(1 if (not C[i] or i in S) else 0 for i in range(n))
                tot += (-1) ** k * q[Z]
        out[C] = tot
    return out


def mean_photons(V):
    n = V.shape[0] // 2
    return np.array([(V[j, j] + V[j + n, j + n]) / 4 - 0.5 for j in range(n)])


def mean_clicks(V):
    n = V.shape[0] // 2
    out = []
    for j in range(n):
        ix = [j, j + n]
        out.append(1 - 2.0 / np.sqrt(np.linalg.det(V[np.ix_(ix, ix)] + np.eye(2))))
    return np.array(out)


def single_mode_fock_diag(mu2, V2, nmax, hbar=2.0):
    """<k|rho|k>, k < nmax, of the single-mode Gaussian state (mu2, V2), exactly, from the Husimi generating function
    e^{|a|^2} <a|rho|a> = c exp(1/2 xi^T At xi + gamma^T xi), xi = (a, a*):  rho_kk = k! [u^k v^k] of that series
    (bivariate power-series exponential; no truncation of the state)."""
    Am, Q = amat_from_cov(np.asarray(V2, float), hbar)
    beta = (mu2[0] + 1j * mu2[1]) / np.sqrt(2.0 * hbar)
    bb = np.array([beta, np.conj(beta)])
    Qi = np.linalg.inv(Q)
    gamma = np.array([[0, 1], [1, 0]]) @ Qi @ bb
    c = np.exp(-0.5 * np.conj(bb) @ Qi @ bb) / np.sqrt(np.linalg.det(Q))
    P = {(0, 2): 0.5 * Am[0, 0], (2, 0): 0.5 * Am[1, 1], (1, 1): Am[0, 1], (0, 1): gamma[0], (1, 0): gamma[1]}  # (deg u=a*, deg v=a)
    E = np.zeros((nmax, nmax), dtype=complex)
    E[0, 0] = 1.0
    for j in range(1, nmax):
        E[0, j] = sum(b * P[(0, b)] * E[0, j - b] for b in (1, 2) if j - b >= 0) / j
    for i in range(1, nmax):
        for j in range(nmax):
            tot = 0.0
            for (a_, b_), coef in P.items():
                if a_ >= 1 and i - a_ >= 0 and j - b_ >= 0:
                    tot += a_ * coef * E[i - a_, j - b_]
            E[i, j] = tot / i
    return np.array([np.real(c * math.factorial(k) * E[k, k]) for k in range(nmax)])


def close(a, b, rtol=1e-7, atol=1e-9):
    a, b = np.asarray(a), np.asarray(b)
    if a.shape != b.shape:
        return False
    if not (np.all(np.isfinite(a)) and np.all(np.isfinite(b))):
        return False
    return bool(np.all(np.abs(a - b) <= atol + rtol * np.abs(b)))


def maxdiff(a, b):
    a, b = np.asarray(a), np.asarray(b)
    if a.shape != b.shape:
        return float("inf")
    with np.errstate(all="ignore"):
        d = np.abs(a - b)
    return float(np.nanmax(d)) if d.size and not np.all(np.isnan(d)) else (float("nan") if d.size else 0.0)


def fd_ok(g, fd):
    g, fd = np.asarray(g, float), np.asarray(fd, float)
    if g.shape != fd.shape or not (np.all(np.isfinite(g)) and np.all(np.isfinite(fd))):
        return False
    scale = max(float(np.max(np.abs(g))) if g.size else 0.0, float(np.max(np.abs(fd))) if fd.size else 0.0, 1e-3)
    return bool(np.max(np.abs(g - fd)) <= 1e-5 * scale + 1e-7) if g.size else True


def central_fd(f, theta):
    theta = np.asarray(theta, float)
    out = []
    for k in range(len(theta)):
        e = np.zeros(len(theta))
        e[k] = FD_STEP
        out.append((np.asarray(f(theta + e), float) - np.asarray(f(theta - e), float)) / (2 * FD_STEP))
    return np.array(out)  # index 0 = parameter


# =============================================================================================== part A: apps.train
def make_emb(spec):
    if spec[0] == "Exp":
        return embed.Exp(int(spec[1])), np.eye(int(spec[1])), "Exp"
    F = np.array(spec[1], dtype=float)
    return embed.ExpFeatures(F), F, "ExpFeatures"


def h_total(s):
    return float(np.sum(s))


def h_mode0(s):
    return float(s[0])


HFUN = {"total": h_total, "mode0": h_mode0}


def samples_le2(n):
    return patterns(n, 2)


def multisets(items, kmax):
    out = []
    for k in range(1, kmax + 1):
        out += [list(c) for c in itertools.combinations_with_replacement(items, k)]
    return out


def vgbs_config(res, case, groups=None):
    """All oracles for one (A, n_mean, embedding, theta, threshold).  `case` is the JSON-able description; `groups`
    restricts the oracle groups (replay)."""
    A0 = np.array(case["A"], dtype=float)
    n = len(A0)
    n_mean = float(case["n_mean"])
    thr = bool(case["threshold"])
    theta = np.array(case["theta"], dtype=float)
    nmax = int(case["nmax"])
    emb, F, ename = make_emb(case["emb"])
    mode = "threshold" if thr else "pnr"
    run = (lambda g: True) if groups is None else (lambda g: g in groups)

    def V(sig, what, extra=None):
        c = dict(case)
        if extra:
            c.update(extra)
        res.violation(sig, what, c)

    def guarded(label, fn, group=None):
        try:
            return fn()
        except Exception as e:  # the library raised on an admissible input
            V(f"C20|{label}|exception|{type(e).__name__}", f"{label}: {type(e).__name__}: {str(e)[:160]} for A={A0.tolist()} n_mean={n_mean} {ename} theta={theta.tolist()} threshold={thr}", {"group": group or label})
            return None

    vg = guarded("VGBS", lambda: param.VGBS(A0, n_mean, emb, thr), "model")
    if vg is None:
        return
    A_init = np.array(vg.A_init, dtype=float)

    # ---------------------------------------------------------------- model: scaling, weights, WAW, jacobian
    w_ref = np.exp(-F @ theta)
    A_ref = np.diag(np.sqrt(w_ref)) @ A_init @ np.diag(np.sqrt(w_ref))
    if run("model"):
        res.stats["A.model_cases"] += 1
        ex = {"group": "model"}
        # rescale_adjacency: proportional to A with the documented mean number of photons / clicks
        nz = np.abs(A0) > 0
        ratio = A_init[nz] / A0[nz]
        if not (close(ratio, np.full(ratio.shape, ratio[0]), 1e-10, 1e-12) and close(A_init[~nz], 0 * A_init[~nz])):
            V(f"C20|rescale_adjacency|proportional|{mode}", f"A_init is not a scalar multiple of A for A={A0.tolist()} n_mean={n_mean}", ex)
        lam0 = np.linalg.eigvalsh(A_init)
        if np.max(np.abs(lam0)) < 1:
            V0, _ = ref_cov(A_init)
            got0 = float(np.sum(mean_clicks(V0))) if thr else float(np.sum(lam0**2 / (1 - lam0**2)))
            if not close(got0, n_mean, 1e-6, 1e-8):
                V(f"C20|rescale_adjacency|n_mean|{mode}", f"state of the rescaled matrix has mean {'clicks' if thr else 'photons'} {got0:.8g}, documented target n_mean={n_mean} (A={A0.tolist()})", ex)
        else:
            V(f"C20|rescale_adjacency|singular-values|{mode}", f"rescaled matrix has spectral norm {np.max(np.abs(lam0)):.6g} >= 1 for A={A0.tolist()} n_mean={n_mean}", ex)
        w_lib = guarded("embedding", lambda: np.array(emb(theta), dtype=float), "model")
        if w_lib is not None and not close(w_lib, w_ref, 1e-12, 1e-14):
            V(f"C20|embedding|weights|{ename}", f"{ename} weights {w_lib.tolist()} != exp(-F theta) = {w_ref.tolist()} at theta={theta.tolist()}", ex)
        A_lib = guarded("VGBS.A", lambda: np.array(vg.A(theta)), "model")
        if A_lib is not None and not close(A_lib, A_ref, 1e-10, 1e-12):
            V("C20|VGBS.A|WAW", f"VGBS.A(theta) differs from W A_init W by {maxdiff(A_lib, A_ref):.3g} at theta={theta.tolist()}", ex)
        # a training loop updates ONE parameter array in place and queries the same object again: the answers follow the array
        def in_place():
            th = theta + 0.11  # a new array holding values the object has not seen yet
            vg.A(th), vg.n_mean(th)
            th += 0.3
            th[0] -= 0.45
            return th, np.array(vg.A(th)), float(vg.n_mean(th)), float(param.VGBS(A0, n_mean, emb, thr).n_mean(th.copy()))

        upd = guarded("VGBS.A(in-place update)", in_place, "model")
        if upd is not None:
            th2, A2, nm_same, nm_fresh = upd
            w2 = np.exp(-F @ th2)
            A2_ref = np.diag(np.sqrt(w2)) @ A_init @ np.diag(np.sqrt(w2))
            if not close(A2, A2_ref, 1e-10, 1e-12):
                V("C20|VGBS.A|stale-after-in-place-update", f"after the parameter array was updated in place (theta={theta.tolist()} -> {th2.tolist()}) VGBS.A on the same object differs from W A_init W by {maxdiff(A2, A2_ref):.3g}", ex)
            elif not close(nm_same, nm_fresh, 1e-9, 1e-12):
                V("C20|VGBS.n_mean|stale-after-in-place-update", f"after the parameter array was updated in place VGBS.n_mean on the same object is {nm_same!r}, a fresh object gives {nm_fresh!r}", ex)
        if not thr:  # embedding is independent of the threshold flag: checked once
            jac = guarded("ExpFeatures.jacobian", lambda: np.array(emb.jacobian(theta), dtype=float), "model")
            if jac is not None:
                fd = central_fd(emb.weights, theta).T  # J_ij = d w_i / d theta_j
                if not fd_ok(jac, fd):
                    V(f"C20|ExpFeatures.jacobian|finite-difference|{ename}", f"jacobian differs from the central finite difference of weights() by {maxdiff(jac, fd):.3g} at theta={theta.tolist()}", ex)
                if not close(jac, -F * w_ref[:, None], 1e-10, 1e-12):
                    V(f"C20|ExpFeatures.jacobian|documented-formula|{ename}", f"jacobian differs from -f_k w_i by {maxdiff(jac, -F * w_ref[:, None]):.3g} at theta={theta.tolist()}", ex)

    lam = np.linalg.eigvalsh(A_ref)
    if np.max(np.abs(lam)) > SPEC_MAX:
        res.stats["A.excluded_spectral_norm_above_%g" % SPEC_MAX] += 1
        return False
    res.stats["A.state_cases"] += 1
    Vref, lam = ref_cov(A_ref)
    norm = float(np.prod(np.sqrt(1 - lam**2)))

    # ---------------------------------------------------------------- cov: A_to_cov
    if run("cov"):
        ex = {"group": "cov"}
        cov = guarded("A_to_cov", lambda: np.array(param.A_to_cov(A_ref)), "cov")
        if cov is not None:
            res.stats["A.cov_cases"] += 1
            hb = float(sf.hbar)
            ok = np.isrealobj(cov) or np.max(np.abs(np.imag(cov))) < 1e-12
            cov_r = np.real(cov)
            ok = ok and close(cov_r, cov_r.T, 1e-10, 1e-10)
            if ok:
                nu = np.abs(np.linalg.eigvals(1j * ph.omega(n) @ cov_r))
                ok = close(nu, np.full(2 * n, hb / 2), 1e-7, 1e-8) and np.linalg.eigvalsh(cov_r + 1j * hb / 2 * ph.omega(n)).min() > -1e-8
            if not ok:
                V("C20|A_to_cov|valid-pure-covariance", f"A_to_cov(A) is not a real symmetric covariance with all symplectic eigenvalues hbar/2 (A={np.round(A_ref, 6).tolist()})", ex)
            else:
                Am, _ = amat_from_cov(cov_r, hb)
                Z = np.zeros((n, n))
                Aexp = np.block([[A_ref, Z], [Z, np.conj(A_ref)]])
                if not close(Am, Aexp, 1e-7, 1e-8):
                    # weaker statement: the state of A up to one common phase rotation of all modes (same photon statistics)
                    k = np.unravel_index(np.argmax(np.abs(A_ref)), A_ref.shape)
                    u = Am[:n, :n][k] / A_ref[k]
                    same_stats = abs(abs(u) - 1) < 1e-7 and close(Am, np.block([[u * A_ref, Z], [Z, np.conj(u * A_ref)]]), 1e-7, 1e-8)
                    if same_stats:
                        V("C20|A_to_cov|Amat", f"the A-matrix of A_to_cov(A) is ({u:.4g}) A (+) c.c. instead of A (+) A*: the returned matrix is the covariance of the state of A with every mode rotated by the same phase (photon statistics unchanged, quadrature statistics not); A={np.round(A_ref, 6).tolist()}", ex)
                    else:
                        V("C20|A_to_cov|Amat-up-to-global-phase", f"the A-matrix of A_to_cov(A) differs from A (+) A* by {maxdiff(Am, Aexp):.3g}, also up to a common phase; A={np.round(A_ref, 6).tolist()}", ex)
            # hbar scaling (module global, restored)
            old = sf.hbar
            try:
                sf.hbar = 1.0
                cov1 = guarded("A_to_cov", lambda: np.array(param.A_to_cov(A_ref)), "cov")
                mp1 = guarded("mean_photons_by_mode", lambda: np.array(vg.mean_photons_by_mode(theta), dtype=float), "cov")
            finally:
                sf.hbar = old
            if cov1 is not None and not close(cov1 * old, cov, 1e-9, 1e-10):
                V("C20|A_to_cov|hbar-scaling", f"A_to_cov at hbar=1 is not hbar-proportional to the hbar=2 result (max diff {maxdiff(cov1 * old, cov):.3g})", ex)
            if mp1 is not None and not close(mp1, mean_photons(Vref), 1e-7, 1e-9):
                V("C20|mean_photons_by_mode|hbar-invariance", f"mean_photons_by_mode at hbar=1 = {mp1.tolist()} vs reference {mean_photons(Vref).tolist()}", ex)

    # ---------------------------------------------------------------- moments
    if run("moments"):
        ex = {"group": "moments"}
        res.stats["A.moment_cases"] += 1
        mp = guarded("mean_photons_by_mode", lambda: np.array(vg.mean_photons_by_mode(theta), dtype=float), "moments")
        mc = guarded("mean_clicks_by_mode", lambda: np.array(vg.mean_clicks_by_mode(theta), dtype=float), "moments")
        nm = guarded("n_mean", lambda: float(vg.n_mean(theta)), "moments")
        rp, rc = mean_photons(Vref), mean_clicks(Vref)
        if mp is not None and not close(mp, rp, 1e-7, 1e-9):
            V("C20|mean_photons_by_mode|reference-state", f"mean_photons_by_mode={mp.tolist()} but the state with A-matrix W A W has {rp.tolist()} (theta={theta.tolist()})", ex)
        if mc is not None and not close(mc, rc, 1e-7, 1e-9):
            V("C20|mean_clicks_by_mode|reference-state", f"mean_clicks_by_mode={mc.tolist()} but the state with A-matrix W A W has {rc.tolist()} (theta={theta.tolist()})", ex)
        want = float(np.sum(rc if thr else rp))
        if nm is not None and not close(nm, want, 1e-7, 1e-9):
            V(f"C20|n_mean|reference-state|{mode}", f"n_mean(theta)={nm:.10g}, reference state has {want:.10g} (theta={theta.tolist()})", ex)
        # the same dimensionless moments at hbar = 1 and 0.5 (module global, restored)
        old_hbar = sf.hbar
        for hb in (1.0, 0.5):
            try:
                sf.hbar = hb
                mc_h = guarded("mean_clicks_by_mode", lambda: np.array(vg.mean_clicks_by_mode(theta), dtype=float), "moments")
                nm_h = guarded("n_mean", lambda: float(vg.n_mean(theta)), "moments")
            finally:
                sf.hbar = old_hbar
            if mc_h is not None and not close(mc_h, rc, 1e-7, 1e-9):
                V("C20|mean_clicks_by_mode|hbar-invariance", f"mean_clicks_by_mode at hbar={hb} = {mc_h.tolist()}, reference state has {rc.tolist()} (theta={theta.tolist()})", ex)
            if nm_h is not None and not close(nm_h, want, 1e-7, 1e-9):
                V(f"C20|n_mean|hbar-invariance|{mode}", f"n_mean(theta) at hbar={hb} = {nm_h:.10g}, reference state has {want:.10g} (theta={theta.tolist()})", ex)

    # ---------------------------------------------------------------- dist: probabilities
    if run("dist"):
        ex = {"group": "dist"}
        if thr:
            res.stats["A.click_dist_cases"] += 1
            ref = click_dist(Vref)
            tot, bad = 0.0, None
            for C in itertools.product((0, 1), repeat=n):
                p = guarded("prob_click", lambda: float(np.real(vg.prob_sample(theta, np.array(C)))), "dist")
                if p is None:
                    return True
                res.stats["A.click_patterns"] += 1
                tot += p
                if bad is None and not abs(p - ref[C]) <= 1e-8 + 1e-6 * abs(ref[C]):
                    bad = (C, p, ref[C])
            if not abs(tot - 1) <= 1e-8:
                V("C20|prob_click|normalisation", f"prob_click summed over all 2^{n} click patterns = {tot:.10g} (theta={theta.tolist()}, A={A0.tolist()})", ex)
            if bad:
                V("C20|prob_click|reference-state", f"prob_click{list(bad[0])}={bad[1]:.10g}, reference state gives {bad[2]:.10g} (theta={theta.tolist()}, A={A0.tolist()})", ex)
        else:
            res.stats["A.photon_dist_cases"] += 1
            sect_lib = np.zeros(nmax + 1)
            sect_ref = np.zeros(nmax + 1)
            bad = None
            for pat in patterns(n, nmax):
                p = guarded("prob_photon_sample", lambda: float(vg.prob_sample(theta, np.array(pat))), "dist")
                if p is None:
                    return True
                res.stats["A.photon_patterns"] += 1
                pr = p_pure(A_ref, norm, pat)
                sect_lib[sum(pat)] += p
                sect_ref[sum(pat)] += pr
                if bad is None and not abs(p - pr) <= 1e-9 + 1e-6 * pr:
                    bad = (pat, p, pr)
            closed = total_photon_dist(np.abs(lam), nmax)
            if not close(sect_ref, closed, 1e-8, 1e-10):
                raise RuntimeError(f"C20 reference self-check failed: hafnian sector sums {sect_ref} vs closed form {closed}")
            if bad:
                V("C20|prob_photon_sample|hafnian", f"prob_sample{list(bad[0])}={bad[1]:.10g}, |Haf|^2/(n! sqrt(det Q)) of the reference state = {bad[2]:.10g} (theta={theta.tolist()}, A={A0.tolist()})", ex)
            if not close(sect_lib, closed, 1e-6, 1e-8):
                V("C20|prob_photon_sample|normalisation", f"sum of prob_sample over all patterns with <= {nmax} photons = {sect_lib.sum():.10g}, 1 - tail of the reference state = {closed.sum():.10g} (per photon-number sector: {np.round(sect_lib, 8).tolist()} vs {np.round(closed, 8).tolist()})", ex)

    if thr:
        return True

    # ---------------------------------------------------------------- KL: gradient vs finite difference (PNR)
    if run("kl"):
        base = samples_le2(n)
        dsets = [case["data"]] if "data" in case else multisets(base, 1 if case.get("kl", "pairs") == "single" else 2)
        pref = {s: p_pure(A_ref, norm, s) for s in base}
        for data in dsets:
            data = [tuple(s) for s in data]
            ex = {"group": "kl", "data": [list(s) for s in data]}
            if min(pref[s] for s in data) < 1e-13:
                res.stats["A.kl_datasets_outside_support_skipped"] += 1
                continue
            res.stats["A.kl_fd_cases"] += 1
            res.n += 1
            kl = cost.KL(np.array(data), vg)
            val = guarded("KL.evaluate", lambda: float(kl.evaluate(theta)), "kl")
            g = guarded("KL.grad", lambda: np.array(kl.grad(theta), dtype=float), "kl")
            if val is None or g is None:
                continue
            want = -float(np.mean([np.log(pref[s]) for s in data]))
            if not close(val, want, 1e-7, 1e-9):
                V("C20|KL.evaluate|reference-state", f"KL.evaluate={val:.10g}, -mean log P_ref = {want:.10g} for data={ex['data']} theta={theta.tolist()} A={A0.tolist()}", ex)
            fd = guarded("KL.evaluate", lambda: central_fd(kl.evaluate, theta), "kl")
            if fd is not None and not fd_ok(g, fd):
                V(f"C20|KL.grad|finite-difference|{ename}", f"KL.grad={g.tolist()} but central difference of KL.evaluate={fd.tolist()} for data={ex['data']} theta={theta.tolist()} n_mean={n_mean} A={A0.tolist()}", ex)

    # ---------------------------------------------------------------- Stochastic: gradient vs finite difference (PNR)
    if run("stoch") and case.get("stoch", "none") != "none":
        base = samples_le2(n)
        if "samples" in case:
            ssets, hs = [case["samples"]], [case["h"]]
        else:
            ssets, hs = multisets(base, 1 if case["stoch"] == "single" else 2), list(HFUN)
        lam_i = np.linalg.eigvalsh(A_init)
        norm_i = float(np.prod(np.sqrt(1 - lam_i**2)))
        for S in ssets:
            S = [tuple(s) for s in S]
            arr = np.array(S)
            vgs = guarded("VGBS", lambda: param.VGBS(A0, n_mean, emb, False, samples=arr), "stoch")
            if vgs is None:
                return True
            for hname in hs:
                ex = {"group": "stoch", "samples": [list(s) for s in S], "h": hname}
                res.stats["A.stochastic_fd_cases"] += 1
                res.n += 1
                co = cost.Stochastic(HFUN[hname], vgs)
                g = guarded("Stochastic.grad", lambda: np.array(co.grad(theta, len(S)), dtype=float), "stoch")
                fd = guarded("Stochastic.evaluate", lambda: central_fd(lambda t: co.evaluate(t, len(S)), theta), "stoch")
                if vgs.A_init_samples.shape[0] != len(S):
                    raise RuntimeError("C20: Stochastic drew new samples although a sufficient sample set was supplied")
                if g is not None and fd is not None and not fd_ok(g, fd):
                    V(f"C20|Stochastic.grad|finite-difference|{ename}", f"Stochastic.grad={g.tolist()} but central difference of Stochastic.evaluate={fd.tolist()} for samples={ex['samples']} h={hname} theta={theta.tolist()} n_mean={n_mean} A={A0.tolist()}", ex)
                for s in S:
                    p0 = p_pure(A_init, norm_i, s)
                    if p0 > 1e-13:
                        hr = guarded("Stochastic.h_reparametrized", lambda: float(co.h_reparametrized(np.array(s), theta)), "stoch")
                        want = HFUN[hname](s) * p_pure(A_ref, norm, s) / p0
                        if hr is not None and not close(hr, want, 1e-7, 1e-9):
                            V("C20|Stochastic.h_reparametrized|importance-weight", f"h_reparametrized({list(s)})={hr:.10g} but h(n) P_theta(n)/P_0(n) = {want:.10g} (theta={theta.tolist()}, A={A0.tolist()})", ex)
    return True


GROUPS = ("model", "cov", "moments", "dist", "kl", "stoch")


def work_vgbs(task):
    """task = ("vgbs", threshold flag, [(A, n_mean, embedding spec, thetas, nmax, Stochastic family, KL family), ...])."""
    _, thr, items = task
    res = Res()
    for A, n_mean, spec, thetas, nmax, stoch, klfam in items:
        for theta in thetas:
            case = {"part": "vgbs", "A": A, "n_mean": n_mean, "emb": spec, "theta": list(theta), "threshold": thr, "nmax": nmax, "stoch": stoch, "kl": klfam}
            res.n += 1
            res.stats["A.configs"] += 1
            vgbs_config(res, case)
            if any(theta):
                res.nt += 1
                if len(res.samples) < 1:
                    res.sample({"part": "vgbs", "case": f"A={A} n_mean={n_mean} {spec[0]}{'' if spec[0] == 'Exp' else '(F=' + str(spec[1]) + ')'} theta={list(theta)} threshold={thr} patterns<={nmax} photons"})
    return res


def graphs(n):
    pairs = list(itertools.combinations(range(n), 2))
    out = []
    for k in range(1, len(pairs) + 1):
        out += [list(c) for c in itertools.combinations(pairs, k)]
    return out


def adj(n, edges):
    A = np.zeros((n, n))
    for i, j in edges:
        A[i, j] = A[j, i] = 1.0
    return A.tolist()


def theta_lattice(d, max_nonzero=None):
    out = []
    for t in itertools.product(THETA, repeat=d):
        if max_nonzero is None or sum(1 for x in t if x) <= max_nonzero:
            out.append(t)
    return out


def nnz(t):
    return sum(1 for x in t if x)


def embeddings(n, quick):
    """[(spec, parameter lattice, description)]"""
    q4 = quick and n == 4
    out = [(["Exp", n], theta_lattice(n, 1 if q4 else None), "Exp(n) on {-.4,0,.3}^n" + (" restricted to the axis sub-lattice (<= 1 non-zero coordinate)" if q4 else ""))]
    if not q4:
        out.append((["ExpFeatures", np.eye(n).tolist()], theta_lattice(n, 1), "ExpFeatures(identity) on the axis sub-lattice (<= 1 non-zero coordinate; same code path as Exp)"))
    out.append((["ExpFeatures", np.ones((n, 2)).tolist()], theta_lattice(2), "ExpFeatures(all-ones n x 2) on {-.4,0,.3}^2"))
    out.append((["ExpFeatures", F01_ROWS[:n]], theta_lattice(2), "ExpFeatures(fixed 0/1 n x 2) on {-.4,0,.3}^2"))
    return out


def policy(n, spec, axis, quick):
    """(largest photon number of the enumerated PNR patterns, Stochastic sample-set family, KL data-set family) for a class
    of lattice points (axis = at most one non-zero coordinate)."""
    if quick:
        if n == 2:
            return 6, "pairs", "pairs"
        if n == 3:
            return 6, "single", "pairs"
        return 4, ("single" if spec[0] == "Exp" else "none"), "pairs"
    if n <= 3:
        return 8, "pairs", "pairs"
    return (8, "single", "pairs") if axis else (6, "none", "single")


POLICY_TEXT = {
    True: "PNR patterns: <= 6 photons on 2 and 3 modes, <= 4 photons on 4 modes; KL data sets: all multisets of 1 or 2 samples; Stochastic sample sets: 2 modes all multisets of 1 or 2 samples, 3 modes single-sample sets, 4 modes single-sample sets with Exp only",
    False: "PNR patterns: <= 8 photons on 2 and 3 modes and on the axis sub-lattice (<= 1 non-zero coordinate) of 4 modes, <= 6 photons on the rest of the 4-mode lattice; KL data sets: all multisets of 1 or 2 samples, on the non-axis part of the 4-mode lattice single-sample sets; Stochastic sample sets: 2 and 3 modes all multisets of 1 or 2 samples, 4 modes single-sample sets on the axis sub-lattice",
}


def matrices(n, quick):
    if quick and n == 3:
        gs = ISO3
    elif quick and n == 4:
        gs = ISO4
    else:
        gs = graphs(n)
    return [adj(n, e) for e in gs] + [WEIGHTED[n]]


def vgbs_tasks(quick):
    """PNR work units: one (matrix, n_mean, embedding, chunk of the lattice) each.  Threshold-mode configurations are cheap
    but need the torontonian kernel (JIT-compiled per process): they are packed into a few work units."""
    pnr, thr_items, decl = [], [], {}
    for n in (4, 3, 2):
        mats = matrices(n, quick)
        decl[f"matrices_n{n}"] = len(mats)
        for A in mats:
            for nm in NMEANS:
                for spec, lattice, _ in embeddings(n, quick):
                    thr_items.append((A, nm, spec, lattice, 0, "none", "none"))
                    for axis in (True, False):
                        lat = [t for t in lattice if (nnz(t) <= 1) == axis]
                        nmax, stoch, klfam = policy(n, spec, axis, quick)
                        chunk = 9 if n == 4 else 14
                        for k in range(0, len(lat), chunk):
                            pnr.append(("vgbs", False, [(A, nm, spec, lat[k : k + chunk], nmax, stoch, klfam)]))
    nthr = 2 if quick else 8
    thr = [("vgbs", True, thr_items[k::nthr]) for k in range(nthr)]
    return thr + pnr, decl


def n_configs(tasks):
    return sum(len(it[3]) for t in tasks if t[0] == "vgbs" for it in t[2])


# =============================================================================================== part B: similarity
def scale_for_mean(lam, n_mean):
    """x > 0 with sum (x lam)^2 / (1 - (x lam)^2) == n_mean (bisection)."""
    top = 1.0 / np.max(np.abs(lam))
    lo, hi = 0.0, top
    for _ in range(200):
        mid = 0.5 * (lo + hi)
        v = np.sum((mid * lam) ** 2 / (1 - (mid * lam) ** 2))
        if v < n_mean:
            lo = mid
        else:
            hi = mid
    return 0.5 * (lo + hi)


PARTITIONS = {0: [[]], 1: [[1]], 2: [[2], [1, 1]], 3: [[3], [2, 1], [1, 1, 1]], 4: [[4], [3, 1], [2, 2], [2, 1, 1], [1, 1, 1, 1]]}


def distinct_perms(items):
    return sorted(set(itertools.permutations(items)))


def sim_case(res, case):
    import networkx as nx

    n, edges, n_mean, loss = case["n"], case["edges"], case["n_mean"], case["loss"]
    g = nx.Graph()
    g.add_nodes_from(range(n))
    g.add_edges_from([tuple(e) for e in edges])
    A = np.array(adj(n, edges))
    lam = np.linalg.eigvalsh(A)
    B = scale_for_mean(lam, n_mean) * A
    Vr, _ = ref_cov(B)
    gs = ph.GState(n, V=Vr)
    if loss:
        for m in range(n):
            gs.loss(1 - loss, m)
    Am, Q = amat_from_cov(gs.V, 2.0)
    sq = float(np.sqrt(np.real(np.linalg.det(Q))))
    pref = {}

    def pr(pat):
        if pat not in pref:
            pref[pat] = p_mixed(Am, sq, pat)
        return pref[pat]

    def orbit_ref(orbit):
        return sum(pr(p) for p in distinct_perms(list(orbit) + [0] * (n - len(orbit))))

    for k in range(0, 5):
        for orbit in PARTITIONS[k]:
            if len(orbit) > n or ("orbit" in case and case["orbit"] != orbit):
                continue
            if "event" in case:
                continue
            res.n += 1
            res.stats["B.orbit_cases"] += 1
            if k >= 2:
                res.nt += 1
            c = dict(case, orbit=orbit)
            try:
                got = float(similarity.prob_orbit_exact(g, list(orbit), n_mean=n_mean, loss=loss))
            except Exception as e:
                res.violation(f"C20|prob_orbit_exact|exception|{type(e).__name__}", f"prob_orbit_exact raised {type(e).__name__}: {str(e)[:160]} for edges={edges} orbit={orbit} n_mean={n_mean} loss={loss}", c)
                continue
            want = orbit_ref(orbit)
            if not abs(got - want) <= 1e-9 + 1e-6 * want:
                res.violation("C20|prob_orbit_exact|brute-force", f"prob_orbit_exact={got:.10g}, brute-force sum over the orbit = {want:.10g} for {n}-node graph edges={edges} orbit={orbit} n_mean={n_mean} loss={loss}", c)
    for k in range(0, 5):
        for mx in (1, 2, 4):
            if "orbit" in case or ("event" in case and case["event"] != [k, mx]):
                continue
            if mx * n < k:
                continue  # empty event (event_to_sample documents a ValueError for it): outside the precondition
            res.n += 1
            res.stats["B.event_cases"] += 1
            if k >= 2:
                res.nt += 1
            c = dict(case, event=[k, mx])
            want = sum(pr(p) for p in patterns(n, k) if sum(p) == k and max(p) <= mx)
            try:
                got = float(similarity.prob_event_exact(g, k, mx, n_mean=n_mean, loss=loss))
            except Exception as e:
                res.violation(f"C20|prob_event_exact|exception|{type(e).__name__}", f"prob_event_exact raised {type(e).__name__}: {str(e)[:160]} for edges={edges} photons={k} max_count={mx} n_mean={n_mean} loss={loss}", c)
                continue
            if not abs(got - want) <= 1e-9 + 1e-6 * want:
                res.violation("C20|prob_event_exact|brute-force", f"prob_event_exact={got:.10g}, brute-force sum over the event = {want:.10g} for {n}-node graph edges={edges} photons={k} max_count_per_mode={mx} n_mean={n_mean} loss={loss}", c)


def work_sim(task):
    _, n, edges, n_mean, loss = task
    res = Res()
    sim_case(res, {"part": "sim", "n": n, "edges": [list(e) for e in edges], "n_mean": n_mean, "loss": loss})
    if n == 4 and loss:
        res.sample({"part": "sim", "case": f"{n}-node graph edges={[list(e) for e in edges]} n_mean={n_mean} loss={loss}: all orbits and non-empty events with <= 4 photons"})
    return res


# =============================================================================================== part C: chemistry
def plane_rot(n, i, j, a):
    R = np.eye(n)
    R[i, i] = R[j, j] = np.cos(a)
    R[i, j] = -np.sin(a)
    R[j, i] = np.sin(a)
    return R


def transposition(n, i, j):
    P = np.eye(n)
    P[[i, j]] = P[[j, i]]
    return P


def orth_orbit(n, maxlen):
    gens = []
    for i, j in itertools.combinations(range(n), 2):
        gens += [plane_rot(n, i, j, np.pi / 6), plane_rot(n, i, j, np.pi / 4), transposition(n, i, j)]
    seen, out = set(), []
    for L in range(0, maxlen + 1):
        for word in itertools.product(range(len(gens)), repeat=L):
            M = np.eye(n)
            for k in word:
                M = gens[k] @ M
            key = tuple(np.round(M, 10).ravel() + 0.0)
            if key not in seen:
                seen.add(key)
                out.append(M)
    return out


def bose_einstein(w_cm, T):
    if T == 0:
        return np.zeros(len(w_cm))
    return 1.0 / np.expm1(sc.h * sc.c * 100.0 * np.asarray(w_cm) / (sc.k * T))


def doktorov(w, wp, Ud, delta):
    """Documented Doktorov transformation a' = (J - J^-T)/2 a^dag + (J + J^-T)/2 a + delta/sqrt2, J = Om' Ud Om^-1:
    x' = J x + sqrt2 delta, p' = J^-T p  (hbar = 2)."""
    J = np.diag(np.sqrt(wp)) @ Ud @ np.diag(1 / np.sqrt(w))
    n = len(w)
    X = np.block([[J, np.zeros((n, n))], [np.zeros((n, n)), np.linalg.inv(J).T]])
    d = np.concatenate([np.sqrt(2) * np.asarray(delta, float), np.zeros(n)])
    return X, d, J


def op_commands(op, n):
    prog = sf.Program(n)
    with prog.context as q:
        op | tuple(q)
    return prog.circuit


def gbs_case(res, case, marg=6):
    w, wp, Ud = np.array(case["w"], float), np.array(case["wp"], float), np.array(case["Ud"], float)
    delta, T = np.array(case["delta"], float), float(case["T"])
    n = len(w)
    try:
        t, U1, r, U2, alpha = vibronic.gbs_params(w, wp, Ud, delta, T)
    except Exception as e:
        res.violation(f"C20|gbs_params|exception|{type(e).__name__}", f"gbs_params raised {type(e).__name__}: {str(e)[:160]} for w={w.tolist()} wp={wp.tolist()} Ud={np.round(Ud, 6).tolist()} delta={delta.tolist()} T={T}", case)
        return
    X_ref, d_ref, J = doktorov(w, wp, Ud, delta)
    txt = f"w={w.tolist()} wp={wp.tolist()} Ud={np.round(Ud, 6).tolist()} delta={delta.tolist()} T={T}"
    if not (close(U1 @ U1.conj().T, np.eye(n), 0, 1e-10) and close(U2 @ U2.conj().T, np.eye(n), 0, 1e-10)):
        res.violation("C20|gbs_params|unitary", f"U1 or U2 is not unitary for {txt}", case)
    # singular-value relation; the sign convention of r is decided by the Doktorov oracle below, not here
    if not (close(U2 @ np.diag(np.exp(r)) @ U1, J, 1e-9, 1e-10) or close(U2 @ np.diag(np.exp(-np.asarray(r))) @ U1, J, 1e-9, 1e-10)):
        res.violation("C20|gbs_params|duschinsky-relation", f"neither U2 diag(e^r) U1 nor U2 diag(e^-r) U1 equals diag(wp^.5) Ud diag(w^-.5) (differences {maxdiff(U2 @ np.diag(np.exp(r)) @ U1, J):.3g}, {maxdiff(U2 @ np.diag(np.exp(-np.asarray(r))) @ U1, J):.3g}) for {txt}", case)
    if not close(alpha, delta / np.sqrt(2), 1e-12, 1e-14):
        res.violation("C20|gbs_params|alpha", f"alpha={np.asarray(alpha).tolist()} != delta/sqrt2 for {txt}", case)
    nbar = bose_einstein(w, T)
    if not close(np.sinh(t) ** 2, nbar, 1e-8, 1e-12):
        res.violation("C20|gbs_params|bose-einstein", f"two-mode squeezing t={np.asarray(t).tolist()} gives sinh^2 t={(np.sinh(t) ** 2).tolist()}, Bose-Einstein occupation at T={T} is {nbar.tolist()} for {txt}", case)
    # Doktorov operator: the op's commands under their documented meaning
    if case.get("first_T", True):
        res.stats["C.vibronic_transition_cases"] += 1
        try:
            sem = opsem.program_map(op_commands(vibronic.VibronicTransition(U1, r, U2, alpha), n), n)
            if np.max(np.abs(sem.Y)) > 1e-12 or not ph.is_symplectic(sem.X, 1e-8):
                res.violation("C20|VibronicTransition|unitary-gaussian", f"VibronicTransition is not a symplectic map for {txt}", case)
            if not close(sem.X, X_ref, 1e-8, 1e-9):
                res.violation("C20|VibronicTransition|doktorov-symplectic" + ("|inverse-transpose" if close(sem.X, np.linalg.inv(X_ref).T, 1e-8, 1e-9) else ""), f"VibronicTransition(gbs_params(..)) acts on quadratures with a matrix differing from the Doktorov transformation x'=Jx, p'=J^-T p by {maxdiff(sem.X, X_ref):.3g}" + (" (it is x'=J^-T x, p'=J p: squeezing of the wrong sign)" if close(sem.X, np.linalg.inv(X_ref).T, 1e-8, 1e-9) else "") + f" for {txt}", case)
            if not close(sem.d, d_ref, 1e-8, 1e-9):
                res.violation("C20|VibronicTransition|doktorov-displacement", f"VibronicTransition displaces by {np.round(sem.d, 8).tolist()}, Doktorov operator by {np.round(d_ref, 8).tolist()} for {txt}", case)
        except Exception as e:
            res.violation(f"C20|VibronicTransition|exception|{type(e).__name__}", f"VibronicTransition raised {type(e).__name__}: {str(e)[:160]} for {txt}", case)
    # marginals of the reference state of the finite-temperature algorithm (2n modes when T > 0)
    if marg:
        res.stats["C.marginals_cases"] += 1
        N = 2 * n if T > 0 else n
        gs = ph.GState(N)
        if T > 0:
            tr = np.arcsinh(np.sqrt(nbar))
            for i in range(n):
                gs.symp(ph.two_mode_squeeze(tr[i]), [i, i + n])
        gs.symp(X_ref, list(range(n)))
        gs.mu[ph.idx(list(range(n)), N)] += d_ref
        nmaxm = int(marg)
        for hb in (2.0, 1.0):
            mu_h, V_h = gs.mu * np.sqrt(hb / 2), gs.V * hb / 2
            try:
                got = np.array(qutils.marginals(mu_h, V_h, nmaxm, hbar=hb))
            except Exception as e:
                res.violation(f"C20|marginals|exception|{type(e).__name__}", f"marginals raised {type(e).__name__}: {str(e)[:160]} for the reference state of {txt} hbar={hb}", case)
                continue
            for m in range(N):
                mu2, V2 = gs.reduced([m])
                want = single_mode_fock_diag(mu2, V2, nmaxm)
                if not close(got[m], want, 1e-6, 1e-8):
                    res.violation("C20|marginals|reduced-state-diagonal", f"marginals(hbar={hb}) mode {m} = {np.round(got[m], 8).tolist()}, diagonal of the reduced state = {np.round(want, 8).tolist()} for the reference state of {txt}", case)
                    break


def work_gbs(task):
    _, w, wp, Ud, deltas, Ts, marg = task
    res = Res()
    ident = np.allclose(Ud, np.eye(len(w))) and tuple(w) == tuple(wp)
    for delta in deltas:
        for k, T in enumerate(Ts):
            case = {"part": "gbs", "w": list(w), "wp": list(wp), "Ud": np.asarray(Ud).tolist(), "delta": list(delta), "T": T, "first_T": k == 0}
            res.n += 1
            res.stats["C.gbs_params_cases"] += 1
            if not ident or any(delta):
                res.nt += 1
            gbs_case(res, case, marg)
    if not ident:
        res.sample({"part": "gbs", "case": f"w={list(w)} wp={list(wp)} Ud={np.round(Ud, 4).tolist()} delta in {[list(d) for d in deltas[:2]]}.. T in {list(Ts)} marginals n_max={marg}"})
    return res


def ho_wavefunction(n, om, q):
    x = np.sqrt(om) * q
    c = np.zeros(n + 1)
    c[n] = 1
    return (om / np.pi) ** 0.25 / np.sqrt(2.0**n * math.factorial(n)) * np.polynomial.hermite.hermval(x, c) * np.exp(-(x**2) / 2)


def fcf1d_case(res, case):
    """One-mode molecule: |<m|U_Dok|n>|^2 must equal the real-space Franck-Condon integral |int psi'_m(q + d) psi_n(q) dq|^2
    with q' = q + d, delta = sqrt(wp/hbar) d (convention-free oracle)."""
    w, wp, delta = case["w"] / 1000.0, case["wp"] / 1000.0, case["delta"]
    d = delta / np.sqrt(wp)
    L = 16.0 / np.sqrt(min(w, wp))
    q = np.linspace(-L, L, 8001)
    dq = q[1] - q[0]
    t, U1, r, U2, alpha = vibronic.gbs_params(np.array([case["w"]]), np.array([case["wp"]]), np.array([[1.0]]), np.array([delta]), 0)
    for n_in in (0, 1):
        want = np.array([(np.sum(ho_wavefunction(m, wp, q + d) * ho_wavefunction(n_in, w, q)) * dq) ** 2 for m in range(6)])
        prog = sf.Program(1)
        with prog.context as qq:
            if n_in:
                sf.ops.Fock(n_in) | qq[0]
            vibronic.VibronicTransition(U1, r, U2, alpha) | qq
        eng = sf.Engine("fock", backend_options={"cutoff_dim": 40})
        got = np.array(eng.run(prog).state.all_fock_probs())[:6]
        res.stats["C.franck_condon_1d_cases"] += 1
        if not close(got, want, 1e-4, 1e-5):
            res.violation("C20|VibronicTransition|franck-condon-1d", f"|<m|U_Dok|{n_in}>|^2 for m=0..5 from gbs_params+VibronicTransition on the Fock backend = {np.round(got, 6).tolist()}, real-space Franck-Condon integrals = {np.round(want, 6).tolist()} for w={case['w']} wp={case['wp']} delta={delta}", case)
            return


def work_fcf(task):
    res = Res()
    for w, wp in task[1]:
        for delta in DELTA:
            res.n += 1
            if w != wp or delta:
                res.nt += 1
            fcf1d_case(res, {"part": "fcf1d", "w": w, "wp": wp, "delta": delta})
    return res


def tevo_case(res, case, fock=True):
    w, Ul, t = np.array(case["w"], float), np.array(case["Ul"], float), float(case["t"])
    n = len(w)
    txt = f"w={w.tolist()} t={t} Ul={np.round(Ul, 6).tolist()}"
    theta = -2 * np.pi * sc.c * 100.0 * w * t * 1e-15
    try:
        sem = opsem.program_map(op_commands(dynamics.TimeEvolution(w, t), n), n)
    except Exception as e:
        res.violation(f"C20|TimeEvolution|exception|{type(e).__name__}", f"TimeEvolution raised {type(e).__name__}: {str(e)[:160]} for {txt}", case)
        return
    X = sem.X
    if np.max(np.abs(sem.Y)) > 1e-12 or np.max(np.abs(sem.d)) > 1e-12 or not ph.is_symplectic(X, 1e-9) or not close(X @ X.T, np.eye(2 * n), 0, 1e-9):
        res.violation("C20|TimeEvolution|passive", f"TimeEvolution is not a passive (orthogonal symplectic, displacement-free) map for {txt}", case)
    if not close(X, ph.interferometer(np.diag(np.exp(1j * theta))), 0, 1e-9):
        res.violation("C20|TimeEvolution|phase", f"TimeEvolution differs from exp(-i w t a^dag a) per mode (angles {theta.tolist()}) by {maxdiff(X, ph.interferometer(np.diag(np.exp(1j * theta)))):.3g} for {txt}", case)
    # the documented local-mode circuit  Interferometer(Ul^T) ; TimeEvolution ; Interferometer(Ul)  ==  Ul exp(-iwt) Ul^T
    Utot = Ul @ np.diag(np.exp(1j * theta)) @ Ul.T
    try:
        prog = sf.Program(n)
        with prog.context as q:
            sf.ops.Interferometer(Ul.T) | q
            dynamics.TimeEvolution(w, t) | q
            sf.ops.Interferometer(Ul) | q
        sem2 = opsem.program_map(prog.circuit, n)
        if not close(sem2.X, ph.interferometer(Utot), 0, 1e-9) or np.max(np.abs(sem2.d)) > 1e-12:
            res.violation("C20|TimeEvolution|local-mode-unitary", f"Interferometer(Ul^T); TimeEvolution; Interferometer(Ul) differs from the mode transformation Ul exp(-iwt) Ul^T by {maxdiff(sem2.X, ph.interferometer(Utot)):.3g} for {txt}", case)
    except Exception as e:
        res.violation(f"C20|TimeEvolution|exception|{type(e).__name__}", f"local-mode circuit raised {type(e).__name__}: {str(e)[:160]} for {txt}", case)
    if not fock:
        return
    maxph = 3 if n == 2 else 2
    for inp in patterns(n, maxph):
        if "input" in case and list(inp) != case["input"]:
            continue
        tot = sum(inp)
        cutoff = max(tot + 1, 2)
        c = dict(case, input=list(inp))
        res.stats["C.time_evolution_fock_cases"] += 1
        res.n += 1
        try:
            prog = sf.Program(n)
            with prog.context as q:
                for i in range(n):
                    sf.ops.Fock(int(inp[i])) | q[i]
                sf.ops.Interferometer(Ul.T) | q
                dynamics.TimeEvolution(w, t) | q
                sf.ops.Interferometer(Ul) | q
            eng = sf.Engine("fock", backend_options={"cutoff_dim": cutoff})
            probs = np.array(eng.run(prog).state.all_fock_probs()).reshape([cutoff] * n)
        except Exception as e:
            res.violation(f"C20|TimeEvolution|fock|exception|{type(e).__name__}", f"local-mode dynamics circuit raised {type(e).__name__}: {str(e)[:160]} for input {list(inp)} {txt}", c)
            continue
        in_sector = sum(probs[o] for o in itertools.product(range(cutoff), repeat=n) if sum(o) == tot)
        if not abs(in_sector - 1) <= 1e-8 or not abs(probs.sum() - 1) <= 1e-8:
            res.violation("C20|TimeEvolution|fock|photon-number-conserved", f"Fock input {list(inp)} ({tot} photons): probability of {tot} photons after Ul R(-wt) Ul^T = {in_sector:.10g}, trace = {probs.sum():.10g} for {txt}", c)
            continue
        ci = rep_idx(inp)
        for o in itertools.product(range(cutoff), repeat=n):
            if sum(o) != tot:
                continue
            ri = rep_idx(o)
            want = abs(perm(Utot[np.ix_(ri, ci)])) ** 2 / (fact_prod(o) * fact_prod(inp))
            if not abs(probs[o] - want) <= 1e-8:
                res.violation("C20|TimeEvolution|fock|permanent", f"P({list(o)} | {list(inp)}) = {probs[o]:.10g} on the Fock backend, |perm|^2 of Ul exp(-iwt) Ul^T gives {want:.10g} for {txt}", c)
                break


def work_tevo(task):
    _, w, Uls, ts, fock = task
    res = Res()
    for Ul in Uls:
        for t in ts:
            res.n += 1
            res.stats["C.time_evolution_cases"] += 1
            if t and not np.allclose(Ul, np.eye(len(w))):
                res.nt += 1
            tevo_case(res, {"part": "tevo", "w": list(w), "Ul": np.asarray(Ul).tolist(), "t": t}, fock)
    res.sample({"part": "tevo", "case": f"w={list(w)} Ul={np.round(Uls[-1], 4).tolist()} t in {list(ts)} Fock-backend runs={fock}"})
    return res


def dusch_case(res, case):
    Li, Lf = np.array(case["Li"], float), np.array(case["Lf"], float)
    ri, rf, wf, m = (np.array(case[k], float) for k in ("ri", "rf", "wf", "m"))
    try:
        U, delta = qutils.duschinsky(Li, Lf, ri, rf, wf, m)
    except Exception as e:
        res.violation(f"C20|duschinsky|exception|{type(e).__name__}", f"duschinsky raised {type(e).__name__}: {str(e)[:160]} for {case}", case)
        return
    if not close(U, Lf.T @ Li, 1e-12, 1e-14):
        res.violation("C20|duschinsky|rotation", f"U != Lf^T Li (max diff {maxdiff(U, Lf.T @ Li):.3g}) for wf={wf.tolist()} m={m.tolist()}", case)
    # q_f = U q_i + d for geometries displaced along the initial normal modes: r = ri + m^-1/2 Li c   (SI units)
    hbar = sc.h / (2 * np.pi)
    l = np.sqrt(hbar / (2 * np.pi * sc.c * 100.0 * wf))  # metres * sqrt(kg)
    d = l * np.asarray(delta)
    ok = np.asarray(delta).shape == (len(wf),)
    for cvec in itertools.product((0.0, 1.0), repeat=Li.shape[1]):
        if not ok:
            break
        r = ri + (Li @ np.array(cvec)) / np.sqrt(m)
        qi = Li.T @ (np.sqrt(m * sc.m_u) * (r - ri) * 1e-10)
        qf = Lf.T @ (np.sqrt(m * sc.m_u) * (r - rf) * 1e-10)
        if not close(qf, U @ qi + d, 1e-8, 1e-32):
            ok = False
    if not ok:
        res.violation("C20|duschinsky|defining-relation", f"q_f = U q_i + l delta does not hold for the returned (U, delta={np.asarray(delta).tolist()}) with wf={wf.tolist()} m={m.tolist()} ri={ri.tolist()} rf={rf.tolist()}", case)


def dusch_cases():
    Q = [np.eye(6), plane_rot(6, 0, 3, np.pi / 6), plane_rot(6, 1, 4, np.pi / 4) @ plane_rot(6, 0, 3, np.pi / 6), plane_rot(6, 0, 1, np.pi / 6) @ plane_rot(6, 0, 3, np.pi / 6)]
    masses = [(1.0, 1.0), (12.0, 1.008), (11.0093, 1.0078)]
    base = np.array([0.0, 0.0, 0.0, 1.2, 0.0, 0.0])
    out = []
    for M, wfs in ((1, [(1000.0,), (500.0,), (3000.0,)]), (2, FREQ2)):
        for a, b in itertools.product(range(len(Q)), repeat=2):
            for m1, m2 in masses:
                for dx0, dx3 in itertools.product((0.0, 0.1, -0.2), repeat=2):
                    rf = base.copy()
                    rf[0] += dx0
                    rf[3] += dx3
                    for wf in wfs:
                        out.append({"part": "dusch", "Li": Q[a][:, :M].tolist(), "Lf": Q[b][:, :M].tolist(), "ri": base.tolist(), "rf": rf.tolist(), "wf": list(wf), "m": [m1] * 3 + [m2] * 3, "nontrivial": bool(a != b or dx0 or dx3)})
    return out


def work_dusch(task):
    res = Res()
    for case in task[1]:
        res.n += 1
        res.stats["C.duschinsky_cases"] += 1
        if case["nontrivial"]:
            res.nt += 1
        dusch_case(res, case)
    return res


# =============================================================================================== driver
def work(task):
    return WORKERS[task[0]](task)


WORKERS = {"vgbs": work_vgbs, "sim": work_sim, "gbs": work_gbs, "fcf": work_fcf, "tevo": work_tevo, "dusch": work_dusch}


def chem_tasks(quick):
    tasks, decl = [], {}
    O2, O3 = orth_orbit(2, 2), orth_orbit(3, 2)
    O3_short = orth_orbit(3, 1)
    decl["orthogonal_matrices_2x2"] = len(O2)
    decl["orthogonal_matrices_3x3_words_le2"] = len(O3)
    decl["orthogonal_matrices_3x3_words_le1"] = len(O3_short)
    wp2 = [(1000.0, 1500.0), (1500.0, 1000.0), (500.0, 500.0)]
    wp3 = [(800.0, 1200.0, 3000.0), (3000.0, 1200.0, 800.0)]
    d2 = list(itertools.product(DELTA, repeat=2))
    d3 = list(itertools.product(DELTA, repeat=3))
    for w in FREQ2:
        for wp in wp2:
            for Ud in O2:
                tasks.append(("gbs", w, wp, Ud, d2, TEMPS, 4 if quick else 6))
    for w in FREQ3:
        for wp in wp3:
            for k, Ud in enumerate(O3):
                # marginals: n_max = 6 (thorough); quick: n_max = 4 and, on 3 modes, only the identity and the generators of plane (0, 1)
                marg = (4 if k < 4 else 0) if quick else 6
                for j in range(0, len(d3), 9):
                    tasks.append(("gbs", w, wp, Ud, d3[j : j + 9], TEMPS, marg))
    # Fock-backend work (JIT-compiled gate kernels per process) is packed into a few work units, scheduled first
    fock = [("fcf", [(w, wp) for w in FREQ1 for wp in FREQ1])]
    for w in FREQ2:
        fock.append(("tevo", w, O2, TIMES, True))
    for w in FREQ3:
        if quick:
            fock.append(("tevo", w, O3_short, TIMES, True))
            tasks.append(("tevo", w, O3[len(O3_short) :], TIMES, False))
        else:
            for k in range(0, len(O3), 19):
                fock.append(("tevo", w, O3[k : k + 19], TIMES, True))
    tasks = fock + tasks
    dc = dusch_cases()
    for k in range(0, len(dc), 100):
        tasks.append(("dusch", dc[k : k + 100]))
    decl["duschinsky_cases"] = len(dc)
    return tasks, decl


def sim_tasks(quick):
    tasks = []
    for n in (2, 3, 4):
        for e in graphs(n):
            for nm in NMEANS:
                for loss in (0.0, 0.3):
                    tasks.append(("sim", n, e, nm, loss))
    return tasks


def sample_shapes(res):
    """qchem.vibronic.sample: one row per sample over 2N modes for EVERY zero pattern of the thermal squeezing vector t (N = 2, 3);
    the sampler itself is owned (hafnian_sample_state answers zeros): only the routing and the shape are judged"""
    import strawberryfields.backends.gaussianbackend.backend as gb
    from strawberryfields.apps.qchem import vibronic

    def fake(cov, samples, *a, **kw):
        return np.zeros((samples, cov.shape[0] // 2), dtype=int)

    for N in (2, 3):
        U = np.eye(N)
        for mask in itertools.product([0.0, 0.3], repeat=N):
            res.n += 1
            res.nt += 1
            t = np.array(mask)
            case = {"sample_shape": True, "N": N, "t": list(mask)}
            sh = gb.hafnian_sample_state
            gb.hafnian_sample_state = fake
            try:
                with warnings.catch_warnings():
                    warnings.simplefilter("ignore")
                    s = np.array(vibronic.sample(t, U, np.full(N, 0.1), U, np.full(N, 0.2), 3))
            except Exception as e:  # noqa: BLE001
                res.violation(f"C20|vibronic.sample|raises|{type(e).__name__}", f"vibronic.sample with t = {list(mask)} raised {e!r}", case)
                continue
            finally:
                gb.hafnian_sample_state = sh
            if s.shape != (3, 2 * N):
                kind = "mixed-zero-pattern" if 0 < sum(1 for x in mask if x == 0) < N else "uniform"
                res.violation(f"C20|vibronic.sample|shape|{kind}", f"vibronic.sample(t = {list(mask)}, ..., n_samples = 3) on {N} modes returned samples of shape {s.shape}, documented: 3 rows over 2N = {2 * N} modes", case)
    return res


def run(ctx):
    quick = ctx.tier == "quick"
    assert haf(np.ones((8, 8))) == 105 and haf(np.ones((6, 6))) == 15 and abs(perm(np.ones((3, 3))) - 6) < 1e-12
    vt, vdecl = vgbs_tasks(quick)
    ct, cdecl = chem_tasks(quick)
    st = sim_tasks(quick)
    nfock = sum(1 for t in ct if t[0] in ("fcf", "tevo") and (t[0] == "fcf" or t[4]))
    tasks = ct[:nfock] + vt + ct[nfock:] + st  # JIT-heavy and long work units first
    done = 0
    by_part = {}
    for r in ctx.pmap(work, tasks, chunksize=1):
        ctx.add(r)
        done += 1
        for smp in r.samples:
            lst = by_part.setdefault(smp["part"], [])
            if len(lst) < 2:
                lst.append(smp["case"])
        if ctx.time_left() < 0:
            ctx.close()
            ctx.cap_hit(f"time budget hit after {done} of {len(tasks)} work units")
            break
    ctx.add(sample_shapes(Res()))
    exp_configs = n_configs(vt)
    if ctx.exhaustive and ctx.stats["A.configs"] != exp_configs:
        raise RuntimeError(f"enumerated {ctx.stats['A.configs']} VGBS configurations, declared {exp_configs}")
    ctx.cov["samples"] = [{"part": k, "case": c} for k in sorted(by_part) for c in by_part[k]]
    ctx.cov["work_units"] = {"vgbs": len(vt), "chemistry": len(ct), "similarity": len(st), "completed": done}
    ctx.cov["declared_lattice"] = {
        "A.adjacency_matrices": dict(vdecl, note=("graphs with >= 1 edge: 2 nodes all (1); 3 and 4 nodes one representative per isomorphism class (3, 10)" if quick else "all labelled graphs with >= 1 edge on 2, 3, 4 nodes (1, 7, 63)") + "; plus one fixed weighted symmetric matrix (non-zero diagonal, negative entries) per size"),
        "A.n_mean": list(NMEANS),
        "A.threshold": [False, True],
        "A.embeddings": {str(n): [d for _, _, d in embeddings(n, quick)] for n in (2, 3, 4)},
        "A.theta_alphabet": list(THETA),
        "A.photon_patterns_and_sample_sets": POLICY_TEXT[quick] + "; threshold mode: all 2^n click patterns",
        "A.kl_data_sets": "multisets of samples with <= 2 photons each (families above) whose samples all have non-zero reference probability (others counted, skipped: the cost is +inf)",
        "A.stochastic": "sample sets drawn from the samples with <= 2 photons (families above), h in {total photons, photons in mode 0}, supplied through VGBS(samples=..) with n_samples = len(set) (no sampling takes place)",
        "A.vgbs_configurations_declared": exp_configs,
        "A.precondition": f"spectral norm of W A_init W <= {SPEC_MAX} (documented: singular values must not exceed one); excluded points are counted in stats",
        "B": "all labelled graphs with >= 1 edge on 2-4 nodes x n_mean {.5, 1.5} x loss {0, .3}; orbits = all partitions of 0..4 photons that fit; events = photons 0..4 x max_count_per_mode {1, 2, 4}, non-empty events only (max_count * modes >= photons)",
        "C.frequencies": {"2 modes": {"w": FREQ2, "wp": [[1000, 1500], [1500, 1000], [500, 500]]}, "3 modes": {"w": FREQ3, "wp": [[800, 1200, 3000], [3000, 1200, 800]]}, "1 mode (Franck-Condon integrals)": FREQ1},
        "C.orthogonal_orbit": dict(cdecl, note="words of length <= 2 over {plane rotations by pi/6 and pi/4 in every coordinate plane, transpositions}, deduplicated; includes the identity"),
        "C.delta_alphabet": list(DELTA),
        "C.T": list(TEMPS),
        "C.times_fs": list(TIMES),
        "C.fock_inputs": "2 modes: all Fock inputs with <= 3 photons; 3 modes: <= 2 photons; cutoff = photons + 1" + ("; 3-mode Fock runs for words of length <= 1 only" if quick else ""),
        "C.marginals": "reference states of the (finite-temperature) vibronic algorithm for every gbs_params case, hbar in {2, 1}, " + ("n_max = 4; on 3 modes only for Ud in {identity, generators of plane (0,1)}" if quick else "n_max = 6"),
    }
    ctx.assumptions += [
        "reference state of a real symmetric A-matrix B: interferometer(O) applied to squeezers with -tanh r_i = lambda_i, B = O diag(lambda) O^T (mc.ref.phase, hbar=2); probabilities |Haf(B_n)|^2 / (n! ) * prod sqrt(1-lambda_i^2) with a perfect-matching hafnian; the hafnian sector sums are cross-checked in every case against the closed-form total-photon distribution of squeezed vacua",
        "only real symmetric adjacency matrices are enumerated (complex symmetric ones need a Takagi reference)",
        "gradients are compared in PNR mode only (threshold=False): the threshold-mode formulas are documented approximations",
        "finite differences: central, step 1e-5, accepted when |grad - fd|_inf <= 1e-5 * max(|grad|_inf, |fd|_inf, 1e-3) + 1e-7",
        "Doktorov operator taken from the module docstring and Huh et al.: a' = U^dag a U with x' = J x + sqrt2 delta, p' = J^-T p (hbar=2), J = diag(wp^.5) Ud diag(w^-.5); cross-checked convention-free by real-space Franck-Condon integrals of one-mode molecules",
        "Interferometer, Sgate, Dgate, Rgate inside the custom operations are interpreted by their documented mode transformations (mc.ref.opsem), not by running their decompositions",
        "physical constants from scipy.constants",
    ]


def replay(case):
    res = Res()
    part = case.get("part")
    if case.get("sample_shape"):
        r = sample_shapes(Res())
        return [(s_, w) for s_, w, c in r.viol if c == case]
    if part == "vgbs":
        g = case.get("group")
        vgbs_config(res, case, groups=None if g not in GROUPS else (g,))
    elif part == "sim":
        sim_case(res, case)
    elif part == "gbs":
        gbs_case(res, dict(case, first_T=True), 6)
    elif part == "fcf1d":
        fcf1d_case(res, case)
    elif part == "tevo":
        tevo_case(res, case, True)
    elif part == "dusch":
        dusch_case(res, case)
    else:
        raise ValueError(f"unknown case {case}")
    return [(s, w) for s, w, _ in res.viol]
