"""C16, second part.

(1) Non-Gaussian bosonic states: every cat state of a small alphabet (amplitude, angle, parity, complex/real
    representation) followed by <= 1 Gaussian operation on 1 and 2 modes; every observable of the bosonic state against a
    dense Fock reference at cutoff 30 built from the same history (the weighted-sum-of-Gaussians formulas with complex
    weights and complex means are only exercised by such states).
(2) Sub-states in a requested order: on 3 distinguishable modes, backend.state(modes=S) for EVERY ordered subset S (all
    cyclic orders included) on the Gaussian, bosonic and Fock simulators must describe the modes of S (in the given
    order; ascending for the bosonic simulator as documented): per-mode moments against the full state, and for the
    Fock simulator the whole reduced density matrix.
"""
import itertools
import math
import warnings

import numpy as np

from strawberryfields import ops

from mc.checks import physics
from mc.core.ctx import Res
from mc.ref import focksem, fockref as fr

PI = np.pi
CREF = 30
QC = 6
PHIS = [0.0, 0.4, PI / 2, 2.1]
XV = np.array([-1.0, 0.0, 0.3, 1.4])
PV = np.array([-0.8, 0.2, 1.5])
CATS = [(a, phi, p, rep) for a in (0.6, 1.0) for phi in (0.0, 0.7) for p in (0, 1, 0.5) for rep in ("complex", "real")]
AFTER = [None, ("R(.7)", (0,)), ("S(.25,.3)", (0,)), ("D(.3,.4)", (0,)), ("Loss(.6)", (0,))]
AFTER2 = [("BS(.5,.3)", (0, 1)), ("BS(.5,.3)", (1, 0)), ("S2(.2,.5)", (0, 1)), ("CX(.3)", (0, 1))]


def cat_ket(a, phi, p, c):
    al = a * np.exp(1j * phi)
    k = fr.coherent_ket(al, c) + np.exp(1j * PI * p) * fr.coherent_ket(-al, c)
    return k / np.linalg.norm(k)


def hermite_fn(x, c):
    y = x / math.sqrt(2.0)
    out = np.zeros(c)
    out[0] = (1 / (math.pi * 2.0)) ** 0.25 * math.exp(-y * y / 2)
    if c > 1:
        out[1] = math.sqrt(2) * y * out[0]
    for k in range(2, c):
        out[k] = math.sqrt(2 / k) * y * out[k - 1] - math.sqrt((k - 1) / k) * out[k - 2]
    return out


_DISP = {}


def _wigner_ops(c):
    if c not in _DISP:
        par = np.diag((-1.0) ** np.arange(c))
        out = {}
        for x in XV:
            for p in PV:
                al = (x + 1j * p) / 2
                # displacement on a larger space, parity there, cut back: exact up to the state's own truncation
                D = fr.displacement(abs(al), np.angle(al), c, K=30) if abs(al) > 0 else np.eye(c)
                out[(x, p)] = D @ par @ D.conj().T
        _DISP[c] = out
    return _DISP[c]


def reference(fs, n):
    c = fs.c
    R = {}
    a = np.diag(np.sqrt(np.arange(1, c)), 1)
    nn = np.arange(c)
    for m in range(n):
        r1 = fs.reduced([m])
        pn = np.diag(r1).real
        mean = float(pn @ nn)
        R[("mean_photon", m)] = np.array([mean, float(pn @ nn**2) - mean**2])
        for phi in PHIS:
            x = a * np.exp(-1j * phi) + a.conj().T * np.exp(1j * phi)
            mu = np.trace(r1 @ x).real
            R[("quad_expectation", m, phi)] = np.array([mu, np.trace(r1 @ x @ x).real - mu**2])
        R[("parity_expectation", (m,))] = float(pn @ (-1.0) ** nn)
        W = _wigner_ops(c)
        # documented [len(xvec), len(pvec)]; compared in whichever orientation is returned (see C16 part one)
        R[("wigner", m)] = np.array([[np.trace(r1 @ W[(x, p)]).real / (2 * PI) for p in PV] for x in XV])
        for phi in (0.0, 0.9):
            rot = np.exp(-1j * phi * nn)
            R[("marginal", m, phi)] = np.array([float(np.real((hermite_fn(x, c) * rot) @ r1 @ (hermite_fn(x, c) * rot).conj())) for x in XV])
    probs = fs.fock_probs().reshape([c] * n)
    for pat in [p for p in itertools.product(range(3), repeat=n) if sum(p) <= 3]:
        R[("fock_prob", pat)] = float(probs[pat])
    if n == 2:
        R[("parity_expectation", (0, 1))] = float(sum(probs[i, j] * (-1.0) ** (i + j) for i in range(c) for j in range(c)))
    R[("fidelity_vacuum",)] = float(probs[(0,) * n])
    for al in ([(0.3 + 0.1j,), (0j,)] if n == 1 else [(0.3 + 0.1j, -0.2j)]):
        ket = np.array([1.0 + 0j])
        for x in al:
            ket = np.kron(ket, fr.coherent_ket(x, c))
        R[("fidelity_coherent", al)] = float(np.real(ket.conj() @ fs.rho @ ket))
    R[("purity",)] = float(np.real(np.trace(fs.rho @ fs.rho)))
    return R


def query(st, n):
    Q = {}

    def put(key, fn):
        try:
            with warnings.catch_warnings():
                warnings.simplefilter("ignore")
                Q[key] = fn()
        except Exception as e:  # noqa: BLE001
            Q[key] = ("EXC", type(e).__name__ + ": " + str(e)[:80])

    for m in range(n):
        put(("mean_photon", m), lambda: np.array(st.mean_photon(m, cutoff=CREF), dtype=float))
        for phi in PHIS:
            put(("quad_expectation", m, phi), lambda: np.array(st.quad_expectation(m, phi), dtype=float))
        put(("parity_expectation", (m,)), lambda: float(np.real(st.parity_expectation([m]))))
        put(("wigner", m), lambda: np.array(st.wigner(m, XV, PV)))
        for phi in (0.0, 0.9):
            put(("marginal", m, phi), lambda: np.array(st.marginal(m, XV, phi)))
    for pat in [p for p in itertools.product(range(3), repeat=n) if sum(p) <= 3]:
        put(("fock_prob", pat), lambda: float(np.real(st.fock_prob(list(pat), cutoff=QC))))
    if n == 2:
        put(("parity_expectation", (0, 1)), lambda: float(np.real(st.parity_expectation([0, 1]))))
    put(("fidelity_vacuum",), lambda: float(np.real(st.fidelity_vacuum())))
    for al in ([(0.3 + 0.1j,), (0j,)] if n == 1 else [(0.3 + 0.1j, -0.2j)]):
        put(("fidelity_coherent", al), lambda: float(np.real(st.fidelity_coherent(list(al)))))
    put(("purity",), lambda: float(np.real(st.purity())))
    return Q


def compare(res, Q, R, prop, tag, desc, case, base_tol, trunc):
    """every reference value against the queried one; signatures <prop>|<method>|<tag>|..."""
    for key, rv in R.items():
        v = Q.get(key)
        res.n += 1
        sig = f"{prop}|{key[0]}|{tag}"
        if isinstance(v, tuple) and v and v[0] == "EXC":
            if "NotImplemented" in v[1]:
                res.stats[f"not_implemented:bosonic:{key[0]}"] += 1
                continue
            res.violation(sig + "|raises", f"{key} on {desc} raised {v[1]}", dict(case, key=repr(key)))
            continue
        x, y = np.asarray(v), np.asarray(rv)
        if key[0] == "wigner" and x.shape == y.T.shape and x.shape != y.shape:
            y = y.T
        if x.shape != y.shape:
            res.violation(sig + "|shape", f"{key} on {desc} has shape {x.shape}, reference {y.shape}", dict(case, key=repr(key)))
            continue
        moments = key[0] in ("mean_photon", "quad_expectation")
        tol = base_tol + (4 * CREF**2 if moments else 30) * trunc
        d = float(np.max(np.abs(x - y))) if x.size else 0.0
        if d > tol * max(1.0, float(np.max(np.abs(y)))):
            what = "variance" if (x.size == 2 and abs(x.ravel()[0] - y.ravel()[0]) < 1e-6 and moments) else "value"
            res.violation(sig + f"|{what}", f"{key} on {desc}: got {np.round(x.ravel()[:4].astype(complex), 6).real.tolist()}, dense Fock reference {np.round(y.ravel()[:4], 6).tolist()} (diff {d:.3g})", dict(case, key=repr(key)))


def cat_case(cat, n, after, res):
    a, phi, p, rep = cat
    case = {"part": "cat", "cat": [a, phi, p, rep], "n": n, "after": None if after is None else [after[0], list(after[1])]}
    fs = fr.FState(n, CREF)
    ket = cat_ket(a, phi, p, CREF)
    fs.prepare(np.outer(ket, ket.conj()), [0])
    import strawberryfields as sf

    prog = sf.Program(n)
    with warnings.catch_warnings():
        warnings.simplefilter("ignore")
        with prog.context as q:
            ops.Catstate(a, phi, p, representation=rep) | q[0]
            if after is not None:
                physics.make_op(after[0], CREF) | tuple(q[m] for m in after[1])
        if after is not None:
            focksem.apply_fock(physics.make_op(after[0], CREF), list(after[1]), fs)
        st = sf.Engine("bosonic").run(prog).state
    trunc = max(0.0, 1 - fs.trace())
    R = reference(fs, n)
    before = [np.array(st.weights()).copy(), np.array(st.means()).copy(), np.array(st.covs()).copy()]
    Q = query(st, n)
    after_d = [np.array(st.weights()).copy(), np.array(st.means()).copy(), np.array(st.covs()).copy()]
    if any(x.shape != y.shape or (x.size and np.max(np.abs(x - y)) > 0) for x, y in zip(before, after_d)):
        res.violation("C16|query-mutates-state|bosonic|cat", f"querying the bosonic state of Catstate{cat} changed its data", case)
    desc = f"Catstate(a={a}, phi={phi}, p={p}, '{rep}')" + (f" ; {after[0]}{list(after[1])}" if after else "")
    # the 'real' representation is a documented approximation (quality parameter D = 2, amplitude cutoff 1e-12)
    base_tol = 1e-7 if rep == "complex" else 2e-4
    compare(res, Q, R, "C16", f"bosonic|cat-{rep}", f"the bosonic state of {desc}", case, base_tol, trunc)
    return True


# ----------------------------------------------------------------------------- sub-states in a requested order
BASE3 = [("Coh(.3,.5)", (0,)), ("Sq(.25,.4)", (1,)), ("Th(.3)", (2,))]
BASE3_GATES = [("D(.3,.4)", (0,)), ("S(.25,.3)", (1,)), ("BS(.5,.3)", (0, 1)), ("D(-.2,pi)", (2,)), ("BS(.5,.3)", (1, 2))]
EV3 = [None] + [(l, m) for l in ("BS(.5,.3)", "S2(.2,.5)") for m in itertools.permutations(range(3), 2)] + [(l, (m,)) for l in ("D(.3,.4)", "Loss(.6)") for m in range(3)]
CUT3 = 5


def substate_case(rep, ev, res):
    kind = {"gaussian": "gaussian", "bosonic": "bosonic", "fock_mixed": "fock_mixed", "fock_pure": "fock_pure"}[rep]
    # fock_pure: gates only, so that the simulator really still holds a state vector (a preparation in a multi-mode
    # register switches it to a density matrix)
    base = BASE3_GATES if kind == "fock_pure" else BASE3
    hist = list(base) + ([ev] if ev and not (kind == "fock_pure" and ev[0].startswith("Loss")) else [])
    case = {"part": "substate", "rep": rep, "ev": None if ev is None else [ev[0], list(ev[1])]}
    b = physics.new_backend(kind, 3, CUT3)
    with warnings.catch_warnings():
        warnings.simplefilter("ignore")
        for lab, modes in hist:
            physics.apply_impl(b, kind, physics.make_op(lab, CUT3), modes)
        full = b.state()
    if kind == "fock_pure" and not full.is_pure:
        raise RuntimeError("the gates-only base no longer keeps the Fock simulator in its state-vector mode")
    kw = {} if rep.startswith("fock") else {"cutoff": QC}
    fullrho = fr.FState(3, CUT3, fr.sf_dm_to_flat(full.dm(), 3, CUT3)) if rep.startswith("fock") else None
    tag = [l + str(list(m)) for l, m in hist]
    for k in (1, 2, 3):
        for S in itertools.permutations(range(3), k):
            S = list(S)
            res.n += 1
            try:
                with warnings.catch_warnings():
                    warnings.simplefilter("ignore")
                    sub = b.state(modes=S)
            except Exception as e:  # noqa: BLE001
                res.violation(f"C16|state(modes)|raises|{rep}", f"backend.state(modes={S}) on {tag} raised {e!r}", dict(case, S=S))
                continue
            eff = sorted(S) if rep == "bosonic" else S  # documented: the bosonic simulator sorts the requested modes
            bad = None
            try:
                with warnings.catch_warnings():
                    warnings.simplefilter("ignore")
                    sub.mean_photon(0, **kw)
                    sub.quad_expectation(0, 0.4)
                    if fullrho is not None:
                        sub.dm()
            except Exception as e:  # noqa: BLE001
                res.violation(f"C16|state(modes)|unusable|{rep}", f"backend.state(modes={S}) on {tag} returns a state object whose methods raise {type(e).__name__}: {str(e)[:100]}", dict(case, S=S))
                continue
            with warnings.catch_warnings():
                warnings.simplefilter("ignore")
                for j, m in enumerate(eff):
                    a1 = np.array(sub.mean_photon(j, **kw), dtype=float)
                    a2 = np.array(full.mean_photon(m, **kw), dtype=float)
                    q1 = np.array(sub.quad_expectation(j, 0.4), dtype=float)
                    q2 = np.array(full.quad_expectation(m, 0.4), dtype=float)
                    if np.max(np.abs(a1 - a2)) > 1e-8 or np.max(np.abs(q1 - q2)) > 1e-8:
                        bad = f"position {j} of the sub-state should be mode {m}: mean_photon {a1.round(6).tolist()} vs {a2.round(6).tolist()}, quad_expectation {q1.round(6).tolist()} vs {q2.round(6).tolist()}"
                        break
                if bad is None and fullrho is not None:
                    got = fr.sf_dm_to_flat(sub.dm(), k, CUT3)
                    exp = fullrho.reduced(S)
                    d = float(np.max(np.abs(got - exp)))
                    if d > 1e-9:
                        bad = f"density matrix differs from the reduced state of modes {S} (in this order) by {d:.3g}"
                if bad is None and rep == "gaussian" and k >= 2:
                    # joint second moments: covariance of the sub-state == rows/columns of the full covariance
                    ix = S + [3 + m for m in S]
                    d = float(np.max(np.abs(np.array(sub.cov()) - np.array(full.cov())[np.ix_(ix, ix)])))
                    if d > 1e-10:
                        bad = f"covariance differs from rows/columns {S} of the full covariance by {d:.3g}"
            if bad:
                order = "ascending" if S == sorted(S) else ("cyclic" if k == 3 and S in ([1, 2, 0], [2, 0, 1]) else "permuted")
                res.violation(f"C16|state(modes)|wrong-modes|{rep}|{order}", f"backend.state(modes={S}) on {tag}: {bad}", dict(case, S=S))
    return True


def work(task):
    res = Res()
    what, items = task
    for it in items:
        n0 = res.n
        if what == "cat":
            cat_case(*it, res)
        else:
            substate_case(*it, res)
        res.nt += res.n - n0
        res.sample({"part": what, "case": repr(it)}, cap=1)
    return res


def tasks(quick):
    out = []
    cats = [c for c in CATS if not quick or (c[0] == 0.6 or c[3] == "complex")]
    items = [(c, 1, af) for c in cats for af in AFTER] + [(c, 2, af) for c in cats for af in (AFTER2[:2] if quick else AFTER2)]
    for i in range(0, len(items), 6):
        out.append(("cat", items[i : i + 6]))
    sub = [(rep, ev) for rep in ("gaussian", "bosonic", "fock_mixed", "fock_pure") for ev in EV3]
    for i in range(0, len(sub), 6):
        out.append(("sub", sub[i : i + 6]))
    return out


def replay(case):
    res = Res()
    if case["part"] == "extra":
        r = extra_cases(Res())
        return [(s_, w) for s_, w, c in r.viol if c == case]
    if case["part"] == "cat":
        af = case["after"]
        cat_case(tuple(case["cat"]), case["n"], None if af is None else (af[0], tuple(af[1])), res)
        return [(s, w) for s, w, c in res.viol if c.get("key") == case.get("key")]
    ev = case["ev"]
    substate_case(case["rep"], None if ev is None else (ev[0], tuple(ev[1])), res)
    return [(s, w) for s, w, c in res.viol if c.get("S") == case.get("S")]

# ----------------------------------------------------------------------------- further single cases with many modes / other quadrants
def extra_cases(res):
    """(a) squeezing() of a Gaussian state must reproduce the covariance of its mode, for squeezing phases in every quadrant;
    (b) the purity flag and the pure-state formulas at small hbar with many modes (the pure-state determinant (hbar/2)^(2N)
    is tiny there); (c) Fock-state polynomials on every pair of modes of a nine-mode register"""
    import strawberryfields as sf
    from mc.ref import phase as ph

    # (d) one- and two-mode Gaussian states at hbar != 2: every query asked twice gives the same answer, the state's own data
    # (means, cov) stay what they were, and squeezing() / mean_photon / quad_expectation agree with the closed forms
    old = sf.hbar
    try:
        for h in (0.5, 1.0, 3.0):
            for nmodes in (1, 2):
                for r, phi in ((0.4, 0.0), (0.3, 0.7)):
                    res.n += 1
                    res.nt += 1
                    case = {"part": "extra", "what": "small-register-hbar", "hbar": h, "modes": nmodes, "r": r, "phi": phi}
                    sf.hbar = h
                    prog = sf.Program(nmodes)
                    with prog.context as q:
                        ops.Sgate(r, phi) | q[0]
                    with warnings.catch_warnings():
                        warnings.simplefilter("ignore")
                        st = sf.Engine("gaussian").run(prog).state
                        V0 = np.array(st.cov()).copy()
                        first = {}
                        for rnd in (0, 1):
                            ans = {
                                "squeezing": np.array(st.squeezing(), dtype=float),
                                "mean_photon": np.array(st.mean_photon(0), dtype=float),
                                "quad_expectation": np.array(st.quad_expectation(0, 0.0), dtype=float),
                                "wigner": np.array(st.wigner(0, np.array([0.1 * h]), np.array([0.2 * h]))) * h,
                                "purity": 1.0 if bool(st.is_pure) else 0.0,
                                "is_squeezed": bool(st.is_squeezed(0)),
                            }
                            if rnd == 0:
                                first = ans
                            else:
                                for k in ans:
                                    if np.max(np.abs(np.asarray(ans[k], dtype=float) - np.asarray(first[k], dtype=float))) > 1e-9:
                                        res.violation(f"C16|{k}|second-call-differs|hbar!=2", f"{nmodes}-mode Gaussian state Sgate({r}, {phi}) at hbar={h}: {k} answered {np.round(np.ravel(first[k])[:4], 6).tolist()} first and {np.round(np.ravel(ans[k])[:4], 6).tolist()} after the other queries had been made", case)
                        V1 = np.array(st.cov())
                    if np.max(np.abs(V1 - V0)) > 0:
                        res.violation("C16|query-mutates-state|gaussian|hbar!=2", f"{nmodes}-mode Gaussian state Sgate({r}, {phi}) at hbar={h}: cov() changed by {np.max(np.abs(V1 - V0)):.3g} after the queries", case)
                    want = np.sinh(r) ** 2
                    if abs(first["mean_photon"][0] - want) > 1e-8 or abs(first["squeezing"][0][0] - r) > 1e-8 or abs(first["purity"] - 1) > 1e-8:
                        res.violation("C16|closed-form|gaussian|hbar!=2", f"{nmodes}-mode Gaussian state Sgate({r}, {phi}) at hbar={h}: mean_photon {first['mean_photon'][0]:.6g} (sinh^2 r = {want:.6g}), squeezing r {first['squeezing'][0][0]:.6g}, purity {first['purity']:.6g}", case)
    finally:
        sf.hbar = old
    # (a)
    for r in (0.3, 0.5):
        for phi in (0.0, 0.4, PI / 2, 2.0, 2.5, PI, -2.5, -PI / 2, -1.0):
            res.n += 1
            res.nt += 1
            case = {"part": "extra", "what": "squeezing", "r": r, "phi": phi}
            prog = sf.Program(2)
            with prog.context as q:
                ops.Sgate(r, phi) | q[1]
                ops.Dgate(0.2, 0.3) | q[1]
            with warnings.catch_warnings():
                warnings.simplefilter("ignore")
                st = sf.Engine("gaussian").run(prog).state
                rr, pp = st.squeezing()[1]
                V = np.array(st.reduced_gaussian([1])[1])
            Vr = ph.squeezed(float(rr), float(pp))[1]
            if np.max(np.abs(Vr - V)) > 1e-8:
                quad = "outside-[-pi/2,pi/2]" if abs((phi + PI) % (2 * PI) - PI) > PI / 2 + 1e-9 else "inside"
                res.violation(f"C16|squeezing|inconsistent-with-cov|{quad}", f"Gaussian state of Sgate({r}, {phi:.4g}): squeezing() returns (r, phi) = ({float(rr):.4g}, {float(pp):.4g}), the covariance of a state squeezed by that is {np.round(Vr, 4).tolist()}, the state's own covariance is {np.round(V, 4).tolist()}", case)
    # (b)
    old = sf.hbar
    try:
        for h, n in ((0.5, 9), (1.0, 17), (2.0, 9)):
            res.n += 1
            res.nt += 1
            case = {"part": "extra", "what": "many-modes", "hbar": h, "modes": n}
            sf.hbar = h
            prog = sf.Program(n)
            with prog.context as q:
                ops.Thermal(0.3) | q[0]
            with warnings.catch_warnings():
                warnings.simplefilter("ignore")
                st = sf.Engine("gaussian").run(prog).state
                pure = bool(st.is_pure)
                p1 = float(st.fock_prob([1] + [0] * (n - 1), cutoff=4))
                p1r = float(np.real(st.reduced_dm([0], cutoff=4)[1, 1]))
            exact = 0.3 / 1.3**2
            if pure or abs(p1 - exact) > 1e-8 or abs(p1r - exact) > 1e-6:
                res.violation("C16|is_pure|many-modes-small-hbar", f"hbar = {h}, {n} modes, Thermal(0.3) in mode 0 (purity 1/1.6): is_pure = {pure}, fock_prob(1,0,...) = {p1:.6f}, reduced_dm([0])[1,1] = {p1r:.6f}, exact {exact:.6f}", case)
    finally:
        sf.hbar = old
    # (c)
    n = 9
    prog = sf.Program(n)
    with prog.context as q:
        for i in range(n):
            ops.Dgate(0.02 * (i + 1), 0.1 * i) | q[i]
    with warnings.catch_warnings():
        warnings.simplefilter("ignore")
        stf = sf.Engine("fock", backend_options={"cutoff_dim": 3}).run(prog).state
        stg = sf.Engine("gaussian").run(prog).state
    for i in range(n):
        for j in range(i + 1, n):
            res.n += 1
            res.nt += 1
            case = {"part": "extra", "what": "poly-pair", "i": i, "j": j}
            A = np.zeros((2 * n, 2 * n))
            A[i, j] = A[j, i] = 0.5
            try:
                with warnings.catch_warnings():
                    warnings.simplefilter("ignore")
                    mf = float(np.real(stf.poly_quad_expectation(A)[0]))
                    mg = float(np.real(stg.poly_quad_expectation(A)[0]))
            except Exception as e:  # noqa: BLE001
                res.violation(f"C16|poly_quad_expectation|fock|raises|{type(e).__name__}", f"x_{i} x_{j} on a nine-mode Fock state raised {type(e).__name__}: {str(e)[:90]} (other pairs of modes are answered)", case)
                continue
            if abs(mf - mg) > 2e-3:
                res.violation("C16|poly_quad_expectation|fock|value", f"<x_{i} x_{j}> on nine displaced modes: Fock {mf:.5f}, Gaussian {mg:.5f}", case)
    return res
