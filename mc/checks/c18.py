"""C18 - programs reported equal or equivalent really compute the same thing.

Form S over pairs: all programs up to length L on 2 modes over a 14-letter alphabet (same gate on different modes,
daggered variants, different parameters, both orders of two-mode gates, symmetric beamsplitter, a measurement) and
ALL ordered pairs of them (prefix pairs, dagger variants and commuting permutations are inside this set) go through
the real Program.__eq__ and Program.equivalence.  Oracle: reported equal/equivalent => equal reference maps (X, Y, d);
reflexive; symmetric; swapping two adjacent commands on disjoint modes in one program never changes the verdict.
"""
import itertools
import warnings

import numpy as np

import strawberryfields as sf
from strawberryfields import ops

from mc.core.ctx import Res
from mc.ref import opsem

ID = "C18"
LEVEL = "exploration"
RULE = __doc__ + " Non-trivial: pairs of distinct programs that the library reports equal or equivalent, plus pairs related by a commuting swap."
PI = np.pi
U2 = np.array([[np.cos(0.5), -np.exp(-0.3j) * np.sin(0.5)], [np.exp(0.3j) * np.sin(0.5), np.cos(0.5)]]) * np.exp(0.2j)

LET = [
    ("S(.3)", lambda: ops.Sgate(0.3, 0.0), (0,)),
    ("S(.3)", lambda: ops.Sgate(0.3, 0.0), (1,)),
    ("S(.3).H", lambda: ops.Sgate(0.3, 0.0).H, (0,)),
    ("S(.5)", lambda: ops.Sgate(0.5, 0.0), (0,)),
    ("R(.2)", lambda: ops.Rgate(0.2), (0,)),
    ("R(.2)", lambda: ops.Rgate(0.2), (1,)),
    ("BS(.4,.1)", lambda: ops.BSgate(0.4, 0.1), (0, 1)),
    ("BS(.4,.1)", lambda: ops.BSgate(0.4, 0.1), (1, 0)),
    ("BS(.4,.1).H", lambda: ops.BSgate(0.4, 0.1).H, (0, 1)),
    ("BS(pi/4,pi/2)", lambda: ops.BSgate(PI / 4, PI / 2), (0, 1)),
    ("BS(pi/4,pi/2)", lambda: ops.BSgate(PI / 4, PI / 2), (1, 0)),
    ("BS(pi/4,0)", lambda: ops.BSgate(PI / 4, 0.0), (0, 1)),
    ("BS(pi/4,0)", lambda: ops.BSgate(PI / 4, 0.0), (1, 0)),
    ("CX(.3)", lambda: ops.CXgate(0.3), (0, 1)),
    ("CX(.3)", lambda: ops.CXgate(0.3), (1, 0)),
    ("MX", lambda: ops.MeasureHomodyne(0.0), (0,)),
    # a two-mode gate that is NOT symmetric under exchanging its modes and is not one of the two classes the implementation singles out
    ("MZ(.3,.7)", lambda: ops.MZgate(0.3, 0.7), (0, 1)),
    ("MZ(.3,.7)", lambda: ops.MZgate(0.3, 0.7), (1, 0)),
    # settings of a measurement that are not parameters; measurements of different arity
    ("MX(sel=.5)", lambda: ops.MeasureHomodyne(0.0, select=0.5), (0,)),
    ("MX(sel=-1)", lambda: ops.MeasureHomodyne(0.0, select=-1.0), (0,)),
    ("MX(sel=0)", lambda: ops.MeasureHomodyne(0.0, select=0.0), (0,)),  # a setting whose value is falsy
    ("MF", lambda: ops.MeasureFock(), (0,)),
    ("MF", lambda: ops.MeasureFock(), (0, 1)),
    # an array-valued parameter
    ("I2", lambda: ops.Interferometer(U2), (0, 1)),
    ("I2", lambda: ops.Interferometer(U2), (1, 0)),
]


def build(seq):
    prog = sf.Program(2)
    with warnings.catch_warnings():
        warnings.simplefilter("ignore")
        with prog.context as q:
            for i in seq:
                _, f, modes = LET[i]
                f() | tuple(q[m] for m in modes)
    return prog


def desc(seq):
    return [(LET[i][0].replace(".H", ""), LET[i][0].endswith(".H"), LET[i][2]) for i in seq]


def fmt(seq):
    return " ; ".join(f"{LET[i][0]}{list(LET[i][2])}" for i in seq)


def classify(a, b):
    da, db = desc(a), desc(b)
    if len(da) != len(db):
        return "length"
    if sorted((n, m) for n, d, m in da) == sorted((n, m) for n, d, m in db) and sorted(da) != sorted(db):
        return "dagger"
    if sorted((n, d) for n, d, m in da) == sorted((n, d) for n, d, m in db) and sorted(da) != sorted(db):
        return "modes"
    if sorted(da) == sorted(db):
        return "order"
    if sorted((n.split("(")[0], d, m) for n, d, m in da) == sorted((n.split("(")[0], d, m) for n, d, m in db):
        return "settings" if any("sel" in n for n, _, _ in da + db) else "parameters"
    if sorted((n, d) for n, d, m in da) == sorted((n, d) for n, d, m in db):
        return "arity"
    return "other"


_SEM = {}


def sem(seq):
    if seq not in _SEM:
        _SEM[seq] = opsem.program_map(build(seq).circuit, 2)
    return _SEM[seq]


def same_map(a, b):
    sa, sb = sem(a), sem(b)
    try:
        ok, _ = sa.equal(sb, 1e-9)
    except ValueError:
        return False  # different numbers of measured outputs: certainly not the same thing
    return ok


def commuting_swaps(seq):
    """programs obtained by swapping two adjacent commands on disjoint modes"""
    out = []
    for i in range(len(seq) - 1):
        if not set(LET[seq[i]][2]) & set(LET[seq[i + 1]][2]):
            s = list(seq)
            s[i], s[i + 1] = s[i + 1], s[i]
            out.append(tuple(s))
    return out


def work(task):
    progs, a_list = task
    res = Res()
    built = {}

    def P(s):
        if s not in built:
            built[s] = build(s)
        return built[s]

    for a in a_list:
        pa = P(a)
        swaps = commuting_swaps(a)
        for b in progs:
            pb = P(b)
            res.n += 1
            case = {"a": list(a), "b": list(b)}
            with warnings.catch_warnings():
                warnings.simplefilter("ignore")
                try:
                    eq = bool(pa == pb)
                    eqv = bool(pa.equivalence(pb))
                    eqv_np = bool(pa.equivalence(pb, compare_params=False))
                    eq_r = bool(pb == pa)
                    eqv_r = bool(pb.equivalence(pa))
                except Exception as e:
                    res.violation(f"C18|raises|{type(e).__name__}", f"comparing [{fmt(a)}] with [{fmt(b)}] raised {e!r}", case)
                    continue
            if a == b and not (eq and eqv and eqv_np):
                res.violation("C18|not-reflexive", f"[{fmt(a)}] is not equal/equivalent to an identical program (==: {eq}, equivalence: {eqv})", case)
            if eq != eq_r:
                res.violation("C18|eq|not-symmetric", f"[{fmt(a)}] == [{fmt(b)}] is {eq} but the converse is {eq_r}", case)
            if eqv != eqv_r:
                res.violation("C18|equivalence|not-symmetric", f"equivalence([{fmt(a)}], [{fmt(b)}]) is {eqv} but the converse is {eqv_r}", case)
            if a != b and (eq or eqv):
                res.nt += 1
                res.sample({"a": fmt(a), "b": fmt(b), "==": eq, "equivalence": eqv}, cap=3)
                if not same_map(a, b):
                    why = classify(a, b)
                    if eq:
                        res.violation(f"C18|eq|unsound|{why}", f"[{fmt(a)}] == [{fmt(b)}] is True but the programs compute different maps ({why} differ)", case)
                    if eqv:
                        res.violation(f"C18|equivalence|unsound|{why}", f"equivalence([{fmt(a)}], [{fmt(b)}]) is True but the programs compute different maps ({why} differ)", case)
            # reordering commuting commands never changes the verdict
            for a2 in swaps:
                try:
                    with warnings.catch_warnings():
                        warnings.simplefilter("ignore")
                        v2 = bool(P(a2).equivalence(pb))
                        v2np = bool(P(a2).equivalence(pb, compare_params=False))
                except Exception:  # noqa: BLE001  (a raising comparison was reported above)
                    continue
                res.nt += 1
                if v2 != eqv or v2np != eqv_np:
                    res.violation("C18|equivalence|commuting-swap", f"equivalence([{fmt(a)}], [{fmt(b)}]) = {eqv} but after swapping two commuting commands of the first program it is {v2}", dict(case, a2=list(a2)))
    return res


def programs(L):
    return [s for k in range(0, L + 1) for s in itertools.product(range(len(LET)), repeat=k)]


def run(ctx):
    quick = ctx.tier == "quick"
    L = 2 if quick else 3
    progs = programs(L)
    ch = max(1, len(progs) // 256)
    tasks = [(progs, progs[i : i + ch]) for i in range(0, len(progs), ch)]
    for r in ctx.pmap(work, tasks):
        ctx.add(r)
        if ctx.time_left() < 0:
            ctx.close()
            ctx.cap_hit("time budget hit")
            break
    ctx.cov["programs"] = len(progs)
    ctx.cov["pairs_closed_form"] = len(progs) ** 2
    if ctx.exhaustive and ctx.n != len(progs) ** 2:
        raise RuntimeError("pair count mismatch")
    ctx.assumptions += ["'compute the same thing' = equal reference maps (X, Y, d) on the measurement-extended register (exact for every input state)", "2-mode register, 14 letters, all ordered pairs of all programs up to length 2 (quick) / 3 (thorough)"]


def replay(case):
    a, b = tuple(case["a"]), tuple(case["b"])
    r = work(([b], [a]))
    return [(s, w) for s, w, _ in r.viol]
