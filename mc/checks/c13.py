"""C13 - a time-domain program means its explicit loop, however it is unrolled.

Part S (programs): every TDM program of a finite family (band layouts x every gate sequence up to a length over a
small gate set x time bins x shift x shots x measurement type) is unrolled by the real TDMProgram.unroll /
space_unroll; the unrolled circuit is interpreted by the reference semantics with deferred measurements and the
joint Gaussian state of all measured pulses must equal that of my explicit loop, which allocates a fresh mode for
every new pulse.  Part N (sample routing): the program is run on the real engine with the random source answering
the k-th measurement with the value k; Result.samples[shot, band, bin] must be the ordinal of that pulse.
Part E (call histories): BFS over unroll / space_unroll / roll / lock / run / compile calls; after every call the
circuit and register must equal those a fresh program reaches directly.
"""
import itertools
import warnings

import numpy as np

import strawberryfields as sf
from strawberryfields import ops
from strawberryfields.program_utils import Command, RegRef

from mc.core.chooser import Chooser
from mc.core.ctx import Res
from mc.ref import opsem, phase as ph

ID = "C13"
LEVEL = "model_checking"
RULE = __doc__


# ----------------------------------------------------------------------------- program family
def arrays(T):
    """parameter arrays: every bin has a different value so that a wrong bin index is visible"""
    return [[round(0.2 + 0.15 * t, 6) for t in range(T)], [round(0.7 - 0.1 * t, 6) for t in range(T)], [round(0.1 * t, 6) for t in range(T)]]


def gate_set(N, extended=True):
    """(label, roles): gates placed on the last role of a band, adjacent roles in a band, across bands; extended: also
    daggered gates and expressions of loop variables"""
    C = sum(N)
    starts = [sum(N[:i]) for i in range(len(N))]
    g = []
    for b, n in enumerate(N):
        last = starts[b] + n - 1
        g.append(("S", (last,)))
        g.append(("Sphi", (last,)))
        g.append(("R", (last,)))
        if n >= 2:
            g.append(("BS", (last - 1, last)))
            g.append(("BS", (last, starts[b])))
        if n >= 3:
            g.append(("BS", (starts[b], last)))
    if len(N) > 1:
        g.append(("BS", (starts[0], starts[1] + N[1] - 1)))
    g.append(("D", (starts[0],)))
    g.append(("Rc", (C - 1,)))  # constant (non-looped) parameter
    if not extended:
        return g
    g.append(("R.H", (C - 1,)))  # daggered gate with a looped parameter
    if N[-1] >= 2:
        g.append(("BS.H", (C - 2, C - 1)))
    g.append(("R2p", (C - 1,)))  # expression of a loop variable
    g.append(("X", (starts[0],)))  # decomposed by the engine into a gate whose parameter is an expression of the loop variable
    return g


def mk_op(label, pvars, t=None, arrs=None):
    """operation with symbolic loop parameters (t None) or with the numeric values of bin t"""
    def P(k):
        return pvars[k] if t is None else arrs[k][t]

    if label == "S":
        return ops.Sgate(P(0), 0.0)
    if label == "Sphi":
        return ops.Sgate(0.3, P(1))  # looped parameter in the second slot
    if label == "R":
        return ops.Rgate(P(1))
    if label == "Rc":
        return ops.Rgate(0.33)
    if label == "BS":
        return ops.BSgate(P(1), 0.4)
    if label == "BS.H":
        return ops.BSgate(P(1), 0.4).H
    if label == "R.H":
        return ops.Rgate(P(1)).H
    if label == "R2p":
        return ops.Rgate(2 * P(1) - P(0))
    if label == "X":
        return ops.Xgate(P(0))
    if label == "MHomSel":
        return ops.MeasureHomodyne(P(2), select=0.25)
    if label == "D":
        return ops.Dgate(P(0), 0.3)
    if label == "MHom":
        return ops.MeasureHomodyne(P(2))
    if label == "MHet":
        return ops.MeasureHeterodyne()
    if label == "MFock":
        return ops.MeasureFock()
    raise KeyError(label)


def build(spec):
    N, body, T, shift, meas = spec["N"], spec["body"], spec["T"], spec["shift"], spec["meas"]
    prog = sf.TDMProgram(N=list(N))
    starts = [sum(N[:i]) for i in range(len(N))]
    with warnings.catch_warnings():
        warnings.simplefilter("ignore")
        with prog.context(*arrays(T), shift=shift) as (p, q):
            for lab, roles in body:
                mk_op(lab, p) | tuple(q[r] for r in roles)
            for s in starts:
                mk_op(meas, p) | q[s]
    return prog


# ----------------------------------------------------------------------------- my explicit loop
def explicit_loop(spec, shots):
    """Writes the loop out by hand with a fresh mode for every new pulse.
    Returns (commands on fresh mode ids, outputs [(shot, band, bin, mode id, meas label, angle)], number of modes)."""
    N, body, T, shift, meas = spec["N"], spec["body"], spec["T"], spec["shift"], spec["meas"]
    C = sum(N)
    starts = [sum(N[:i]) for i in range(len(N))]
    arrs = arrays(T)
    roles = list(range(C))
    nxt = C
    cmds, outs = [], []
    for s in range(shots):
        for t in range(T):
            for lab, rs in body:
                cmds.append((mk_op(lab, None, t, arrs), [roles[r] for r in rs]))
            for b, st in enumerate(starts):
                outs.append((s, b, t, roles[st], meas, arrs[2][t] if meas == "MHom" else None))
                roles[st] = nxt  # the measured pulse leaves, a fresh vacuum pulse takes the role
                nxt += 1
            if shift == "default":
                for b, st in enumerate(starts):
                    seg = roles[st : st + N[b]]
                    roles[st : st + N[b]] = seg[1:] + seg[:1]
            else:
                roles = roles[shift:] + roles[:shift]
    return cmds, outs, nxt


def reference_joint(spec, shots):
    cmds, outs, n = explicit_loop(spec, shots)
    gs = ph.GState(n)
    for op, modes in cmds:
        opsem.apply_gaussian(op, modes, gs)
    rows = []
    for (_, _, _, m, lab, ang) in outs:
        if lab == "MHom":
            u = np.zeros(2 * n)
            u[m], u[m + n] = np.cos(ang), np.sin(ang)
            rows.append(u)
        else:
            for k in (m, m + n):
                u = np.zeros(2 * n)
                u[k] = 1
                rows.append(u)
    M = np.array(rows)
    return M @ gs.mu, M @ gs.V @ M.T, outs


def circuit_joint(circuit, nreg):
    """joint state of the measured outcomes of a real (unrolled) circuit, in execution order of its measurements"""
    sem = opsem.program_map(circuit, nreg)
    Nn = sem.N
    mu = sem.d
    V = sem.X @ sem.X.T + sem.Y
    count = {}
    rows = []
    for c in circuit:
        if opsem.name(c.op) in opsem.MEASUREMENTS:
            for r in c.reg:
                k = count.get(r.ind, 0)
                count[r.ind] = k + 1
                sl = nreg + sem.slots.index((r.ind, k))
                idx = [sl] if opsem.name(c.op) == "MeasureHomodyne" else [sl, sl + Nn]
                for i in idx:
                    u = np.zeros(2 * Nn)
                    u[i] = 1
                    rows.append(u)
    M = np.array(rows)
    return M @ mu, M @ V @ M.T


def cmd_sig(circuit):
    out = []
    for c in circuit:
        ps = tuple(round(float(x), 9) if not hasattr(x, "free_symbols") else str(x) for x in c.op.p)
        out.append((c.op.__class__.__name__, ps, tuple(r.ind for r in c.reg), getattr(c.op, "dagger", None), repr(getattr(c.op, "select", None))))
    return tuple(out)


def spec_label(spec):
    return {"N": list(spec["N"]), "body": [[l, list(r)] for l, r in spec["body"]], "T": spec["T"], "shift": spec["shift"], "meas": spec["meas"]}


def sig_of(spec):
    return f"N={'x'.join(map(str, spec['N']))}|shift={spec['shift']}|{spec['meas']}"


def int_shift(spec):
    """an integer shift that is not the documented default (single band with shift 1 is the default rule)"""
    return spec["shift"] != "default" and not (len(spec["N"]) == 1 and spec["shift"] == 1)


# recorded defects of the time-domain front end; everything observed under these conditions maps to ONE signature each
SIG_SPACE_MULTISHOT = "C13|space_unroll|multi-shot"
SIG_SPACE_INTSHIFT = "C13|space_unroll|integer-shift"
SIG_SAMPLES_INTSHIFT = "C13|samples|integer-shift"
SIG_RUNSPACE_SAMPLING = "C13|run-space|sampling"


def unroll_sig(mode, oracle, spec, shots):
    if mode == "space_unroll" and int_shift(spec):
        return SIG_SPACE_INTSHIFT
    if mode == "space_unroll" and shots > 1:
        return SIG_SPACE_MULTISHOT
    return f"C13|{mode}|{oracle}|{sig_of(spec)}"


def run_sig(kw, oracle, spec):
    if kw:
        return SIG_RUNSPACE_SAMPLING
    if int_shift(spec):
        return SIG_SAMPLES_INTSHIFT
    return f"C13|{oracle}|{sig_of(spec)}|shift"


# ----------------------------------------------------------------------------- part S + N: one program
class SeqChooser(Chooser):
    """answers the k-th measurement draw with the value k"""

    def __init__(self):
        super().__init__()
        self.k = 0

    def _answer(self, fn, args):
        if fn == "multivariate_normal":
            m = np.asarray(args["mean"], dtype=float)
            out = np.zeros((1,) + m.shape)
            out[0, 0] = self.k
            if m.shape[0] > 1:
                out[0, 1] = 0.0
            self.k += 1
            return out
        return super()._answer(fn, args)


def check_keywords(spec, shots, res):
    """settings of an operation that are not parameters (post-selection value) must survive every way of unrolling"""
    case = {"spec": spec_label(spec), "shots": shots}
    for mode in ("unroll", "space_unroll"):
        if mode == "space_unroll" and (len(spec["N"]) > 1 or shots > 1 or int_shift(spec)):
            continue
        prog = build(spec)
        try:
            with warnings.catch_warnings():
                warnings.simplefilter("ignore")
                getattr(prog, mode)(shots=shots)
        except Exception as e:  # noqa: BLE001
            res.violation(unroll_sig(mode, "raises", spec, shots), f"{mode}(shots={shots}) of {spec_label(spec)} raised {type(e).__name__}: {e}", dict(case, mode=mode))
            continue
        sels = [getattr(c.op, "select", None) for c in prog.circuit if c.op.__class__.__name__ == "MeasureHomodyne"]
        if not sels or any(x is None or abs(float(x) - 0.25) > 1e-12 for x in sels):
            res.violation(f"C13|{mode}|post-selection-lost", f"{mode}(shots={shots}) of {spec_label(spec)}: the program post-selects every homodyne measurement on 0.25, the unrolled circuit carries select = {sels[:4]}", dict(case, mode=mode))
    if not int_shift(spec) and shots == 1:  # post-selection with several shots is refused with a documented error
        prog = build(spec)
        try:
            with warnings.catch_warnings():
                warnings.simplefilter("ignore")
                S = np.array(sf.Engine("gaussian").run(prog, shots=shots).samples, dtype=float)
            if S.size == 0 or np.max(np.abs(S - 0.25)) > 1e-9:
                res.violation("C13|run|post-selection-lost", f"run(shots={shots}) of {spec_label(spec)}: every homodyne measurement is post-selected on 0.25, samples are {S.ravel()[:4].tolist()}", dict(case, run={}))
        except Exception as e:  # noqa: BLE001
            res.violation(run_sig({}, "run|raises", spec), f"run(shots={shots}) of {spec_label(spec)} raised {type(e).__name__}: {e}", dict(case, run={}))
    return True


def check_program(spec, shots, res):
    if spec["meas"] == "MHomSel":
        return check_keywords(spec, shots, res)
    case = {"spec": spec_label(spec), "shots": shots}
    try:
        mu_ref, V_ref, outs = reference_joint(spec, shots)
    except opsem.Unsupported:
        res.stats["no_reference"] += 1
        return False
    nontrivial = len(spec["body"]) > 0 and spec["T"] > 1
    for mode in ("unroll", "space_unroll"):
        if mode == "space_unroll" and len(spec["N"]) > 1:
            continue
        prog = build(spec)
        try:
            with warnings.catch_warnings():
                warnings.simplefilter("ignore")
                getattr(prog, mode)(shots=shots)
            circ = list(prog.circuit)
            nreg = len(prog.reg_refs)
        except Exception as e:
            res.violation(unroll_sig(mode, "raises", spec, shots), f"{mode}(shots={shots}) of {spec_label(spec)} raised {type(e).__name__}: {e}", dict(case, mode=mode))
            continue
        try:
            mu, V = circuit_joint(circ, nreg)
        except Exception as e:
            res.violation(unroll_sig(mode, "uninterpretable", spec, shots), f"{mode} circuit cannot be interpreted: {e!r}", dict(case, mode=mode))
            continue
        if mu.shape != mu_ref.shape:
            res.violation(unroll_sig(mode, "measurement-count", spec, shots), f"{mode}(shots={shots}) measures {mu.shape[0]} quadratures, the explicit loop {mu_ref.shape[0]}", dict(case, mode=mode))
            continue
        d = max(np.max(np.abs(mu - mu_ref)), np.max(np.abs(V - V_ref)))
        if d > 1e-9 * max(1.0, float(np.max(np.abs(V_ref)))):  # rounding grows with the size of the entries (repeated squeezers)
            res.violation(unroll_sig(mode, "joint-state", spec, shots), f"joint state of the measured pulses after {mode}(shots={shots}) differs from the explicit loop by {d:.3g} for {spec_label(spec)}", dict(case, mode=mode))
    # sample routing on the real engine (homodyne only: the Gaussian simulator samples it through numpy.random)
    if spec["meas"] == "MHom":
        for kw in ({}, {"space_unroll": True}):
            if kw and len(spec["N"]) > 1:
                continue
            prog = build(spec)
            eng = sf.Engine("gaussian")
            try:
                with warnings.catch_warnings():
                    warnings.simplefilter("ignore")
                    with SeqChooser():
                        r = eng.run(prog, shots=shots, **kw)
            except Exception as e:
                res.violation(run_sig(kw, "run|raises", spec), f"run(shots={shots}, {kw}) of {spec_label(spec)} raised {type(e).__name__}: {e}", dict(case, run=kw))
                continue
            S = np.array(r.samples)
            exp = np.zeros((shots, len(spec["N"]), spec["T"]))
            for k, (s, b, t, *_rest) in enumerate(outs):
                exp[s, b, t] = k
            if S.shape != exp.shape:
                res.violation(run_sig(kw, "samples|shape", spec), f"samples shape {S.shape}, expected (shots, bands, bins) = {exp.shape}", dict(case, run=kw))
            elif np.max(np.abs(S - exp)) > 1e-9:
                res.violation(run_sig(kw, "samples|routing", spec), f"samples[shot, band, bin] = {S.tolist()} but pulse ordinals are {exp.tolist()}", dict(case, run=kw))
            else:
                sd = r.samples_dict
                starts = [sum(spec["N"][:i]) for i in range(len(spec["N"]))]
                for b, st in enumerate(starts):
                    if st not in sd or np.max(np.abs(np.array(sd[st]).reshape(shots, spec["T"]) - exp[:, b, :])) > 1e-9:
                        res.violation(run_sig(kw, "samples_dict|routing", spec), f"samples_dict {sd} does not hold the pulses of band {b} under key {st}", dict(case, run=kw))
                        break
    # Result.state of a space-unrolled run without sampling: the pulses before detection
    if len(spec["N"]) == 1 and shots == 1 and spec["meas"] == "MHom":
        prog = build(spec)
        eng = sf.Engine("gaussian")
        try:
            with warnings.catch_warnings():
                warnings.simplefilter("ignore")
                r = eng.run(prog, shots=None, space_unroll=True)
            st = r.state
            cmds, outs1, n = explicit_loop(spec, 1)
            gs = ph.GState(n)
            for op, modes in cmds:
                opsem.apply_gaussian(op, modes, gs)
            pulses = [o[3] for o in outs1]
            mu_r, V_r = gs.reduced(pulses)
            if st.num_modes != len(pulses):
                res.violation(SIG_SPACE_INTSHIFT if int_shift(spec) else f"C13|run-space|state-modes|{sig_of(spec)}", f"space-unrolled run returned {st.num_modes} modes for {len(pulses)} time bins", dict(case, run="state"))
            else:
                d = max(np.max(np.abs(np.array(st.means()) - mu_r)), np.max(np.abs(np.array(st.cov()) - V_r)))
                if d > 1e-9:
                    res.violation(SIG_SPACE_INTSHIFT if int_shift(spec) else f"C13|run-space|state|{sig_of(spec)}", f"Result.state of the space-unrolled run differs from the explicit loop's pulses by {d:.3g} for {spec_label(spec)}", dict(case, run="state"))
        except Exception as e:
            res.violation(SIG_SPACE_INTSHIFT if int_shift(spec) else f"C13|run-space|state-raises|{sig_of(spec)}", f"run(shots=None, space_unroll=True) raised {type(e).__name__}: {e}", dict(case, run="state"))
    return nontrivial


def work_programs(task):
    N, bodies, Ts, shifts, shotss, meass = task
    res = Res()
    for body in bodies:
        for T in Ts:
            for shift in shifts:
                for meas in meass:
                    spec = {"N": N, "body": body, "T": T, "shift": shift, "meas": meas}
                    for shots in shotss:
                        res.n += 1
                        if check_program(spec, shots, res):
                            res.nt += 1
                            res.sample({"program": spec_label(spec), "shots": shots})
    return res


# ----------------------------------------------------------------------------- part E: call histories
HIST_EVENTS = [("unroll", 1), ("unroll", 2), ("space_unroll", 1), ("space_unroll", 2), ("roll",), ("lock",), ("run", 1), ("run", 2), ("run_space", 1), ("compile",)]
HIST_SPECS = [
    {"N": (2,), "body": (("S", (1,)), ("BS", (0, 1))), "T": 3, "shift": "default", "meas": "MHom"},
    {"N": (3,), "body": (("S", (2,)), ("BS", (1, 2)), ("R", (2,))), "T": 2, "shift": "default", "meas": "MHom"},
    {"N": (1, 2), "body": (("S", (2,)), ("BS", (1, 2)), ("BS", (0, 2))), "T": 2, "shift": "default", "meas": "MHom"},
    # a gate that the engine has to decompose before it can run (and whose decomposition carries an expression of the loop variable)
    {"N": (2,), "body": (("S", (1,)), ("X", (0,)), ("BS", (0, 1))), "T": 2, "shift": "default", "meas": "MHom"},
]


def observe(prog):
    return {
        "circuit": cmd_sig(prog.circuit),
        "active": tuple(r.ind for r in prog.register),
        "nrefs": len(prog.reg_refs),
        "init": prog.init_num_subsystems,
        "locked": prog.locked,
    }


def apply_hist_event(prog, ev):
    with warnings.catch_warnings():
        warnings.simplefilter("ignore")
        if ev[0] == "unroll":
            prog.unroll(shots=ev[1])
        elif ev[0] == "space_unroll":
            prog.space_unroll(shots=ev[1])
        elif ev[0] == "roll":
            prog.roll()
        elif ev[0] == "lock":
            prog.lock()
        elif ev[0] in ("run", "run_space"):
            eng = sf.Engine("gaussian")
            with SeqChooser():
                r = eng.run(prog, shots=ev[1], **({"space_unroll": True} if ev[0] == "run_space" else {}))
            return r
        elif ev[0] == "compile":
            prog.compile(compiler="gaussian")
    return None


def apply_hist_event_state_only(prog):
    """space-unrolled run without sampling (sampling from space-unrolled runs is a recorded defect)"""
    eng = sf.Engine("gaussian")
    return eng.run(prog, shots=None, space_unroll=True)


def legal(spec, state, ev):
    """which calls the documentation allows in which state (mixing the two unrollings without roll() is documented to raise)"""
    if ev[0] in ("space_unroll", "run_space") and len(spec["N"]) > 1:
        return False
    return True


def expected_after(spec, mode, ev):
    """(mode after the call, may_raise): mode in {'rolled', ('unroll', s), ('space', s)}.  Switching between the two
    unrollings without roll() may either be refused with ValueError (state unchanged) or be carried out."""
    k = ev[0]
    if k == "roll":
        return "rolled", False
    if k == "unroll":
        return ("unroll", ev[1]), isinstance(mode, tuple) and mode[0] == "space"
    if k == "space_unroll":
        return ("space", ev[1]), isinstance(mode, tuple) and mode[0] == "unroll"
    return mode, False


_FRESH = {}


def fresh_obs(si, mode):
    key = (si, mode)
    if key not in _FRESH:
        p = build(HIST_SPECS[si])
        if mode != "rolled":
            getattr(p, "unroll" if mode[0] == "unroll" else "space_unroll")(shots=mode[1])
        _FRESH[key] = observe(p)
    return _FRESH[key]


def hist_step(si, prog, mode, locked, ev, res, case):
    """apply one call, compare with the state a fresh program reaches directly. returns (ok, mode, locked)"""
    spec = HIST_SPECS[si]
    nm, must_raise = expected_after(spec, mode, ev)
    tag = ev[0]
    if ev[0] in ("run", "run_space"):
        # running must leave the user's program as it was handed over (rolled stays rolled, unrolled stays unrolled)
        want_space = ev[0] == "run_space"
        from_unrolled_space = want_space and isinstance(mode, tuple) and mode[0] == "unroll"
        if not want_space and isinstance(mode, tuple) and mode[0] == "space":
            return True, mode, locked  # a space-unrolled program is run as space-unrolled: covered by run_space
        shots_eff = ev[1]
        try:
            if want_space:
                with warnings.catch_warnings():
                    warnings.simplefilter("ignore")
                    apply_hist_event_state_only(prog)
            else:
                r = apply_hist_event(prog, ev)
                S = np.array(r.samples)
                if S.shape != (shots_eff, len(spec["N"]), spec["T"]):
                    res.violation(f"C13|history|run-shape|{tag}", f"{ev} in mode {mode}: samples shape {S.shape}", case)
                    return False, mode, locked
        except Exception as e:
            if from_unrolled_space and isinstance(e, ValueError):
                return True, mode, locked  # mixing the two unrollings without roll() may be refused (documented)
            res.violation(f"C13|history|run-raises|{tag}|from-{mode if isinstance(mode, str) else mode[0]}", f"{ev} in mode {mode} raised {type(e).__name__}: {e}", case)
            return False, mode, locked
        locked = True
        ob = observe(prog)
        # a shift-unrolled program run with a different number of shots is re-unrolled by the engine
        cands = [mode]
        if isinstance(mode, tuple) and mode[0] == "unroll":
            cands.append(("unroll", shots_eff))
        for cnd in cands:
            f = fresh_obs(si, cnd)
            if all(ob[k] == f[k] for k in ("circuit", "active", "nrefs", "init")):
                return True, cnd, locked
        res.violation(f"C13|history|program-changed-by-run|{tag}|from-{mode if isinstance(mode, str) else mode[0]}", f"after {ev} from mode {mode} the user's program has {len(ob['circuit'])} commands, active {ob['active']}, {ob['nrefs']} refs; a fresh program in that mode has {len(fresh_obs(si, mode)['circuit'])} commands, active {fresh_obs(si, mode)['active']}", case)
        return False, mode, locked
    try:
        apply_hist_event(prog, ev)
    except Exception as e:
        if must_raise and isinstance(e, ValueError):
            return True, mode, locked
        res.violation(f"C13|history|raises|{tag}|from-{mode if isinstance(mode, str) else mode[0]}", f"{ev} in mode {mode} raised {type(e).__name__}: {e}", case)
        return False, mode, locked
    if ev[0] in ("lock", "compile"):
        locked = True
    ob = observe(prog)
    f = fresh_obs(si, nm)
    for k in ("circuit", "active", "nrefs", "init"):
        if ob[k] != f[k]:
            res.violation(f"C13|history|{k}|after-{tag}|from-{mode if isinstance(mode, str) else mode[0]}", f"after {ev} from mode {mode}: {k} = {ob[k] if k != 'circuit' else str(len(ob[k])) + ' commands'} but a fresh program in mode {nm} has {f[k] if k != 'circuit' else str(len(f[k])) + ' commands'}", case)
            return False, mode, locked
    if ob["locked"] != locked:
        res.violation(f"C13|history|locked|after-{tag}", f"after {ev}: locked = {ob['locked']}, expected {locked}", case)
        return False, mode, locked
    return True, nm, locked


def rebuild_hist(si, hist):
    prog = build(HIST_SPECS[si])
    mode, locked = "rolled", False
    d = Res()
    for ev in hist:
        ok, mode, locked = hist_step(si, prog, mode, locked, ev, d, {})
        if not ok:
            raise RuntimeError(f"history {hist} does not replay: {d.viol}")
    return prog, mode, locked


def expand_hist(task):
    si, hists = task
    res = Res()
    res.extra = []
    for hist in hists:
        for ev in HIST_EVENTS:
            if not legal(HIST_SPECS[si], None, ev):
                continue
            res.n += 1
            prog, mode, locked = rebuild_hist(si, hist)
            case = {"spec_index": si, "hist": [list(e) for e in hist], "event": list(ev)}
            ok, mode, locked = hist_step(si, prog, mode, locked, ev, res, case)
            if ok:
                res.extra.append(((si, mode, locked, len(prog.reg_refs)), hist + (ev,)))
    return res


# ----------------------------------------------------------------------------- driver
def run(ctx):
    quick = ctx.tier == "quick"
    layouts = [(2,), (3,), (1, 2), (2, 2)] + ([] if quick else [(2, 3), (4,)])
    L = 3 if quick else 4
    Ts = (1, 2, 3) if quick else (1, 2, 3, 4, 5)
    shotss = (1, 2) if quick else (1, 2, 3)
    tasks = []
    expected = 0
    for N in layouts:
        # the base letters up to length L, the extended set (daggers, expressions) up to length L - 1
        gs, gse = gate_set(N, False), gate_set(N)
        bodies = [b for k in range(0, L + 1) for b in itertools.product(gs, repeat=k)]
        have = set(bodies)
        bodies += [b for k in range(0, L) for b in itertools.product(gse, repeat=k) if b not in have]
        shifts = ("default", 1, 2)
        meass = ("MHom", "MHet") if quick else ("MHom", "MHet", "MFock")
        expected += len(bodies) * len(Ts) * len(shifts) * len(meass) * len(shotss)
        ch = max(1, len(bodies) // 48)
        for i in range(0, len(bodies), ch):
            tasks.append((N, bodies[i : i + ch], Ts, shifts, shotss, meass))
    # three bands whose measured modes (0, 4, 8) do not come out of a Python set in ascending order; post-selected
    # measurements: bodies up to length 1 (2 thorough)
    for N, meass2 in (((4, 4, 2), ("MHom", "MHet")), ((2,), ("MHomSel",)), ((1, 2), ("MHomSel",))):
        gs = gate_set(N)
        bodies = [b for k in range(0, (1 if quick else 2) + 1) for b in itertools.product(gs, repeat=k)]
        Ts2 = (1, 2, 3) if len(N) < 3 else (2, 5)
        expected += len(bodies) * len(Ts2) * 3 * len(meass2) * len(shotss)
        ch = max(1, len(bodies) // 8)
        for i in range(0, len(bodies), ch):
            tasks.append((N, bodies[i : i + ch], Ts2, ("default", 1, 2), shotss, meass2))
    for r in ctx.pmap(work_programs, tasks):
        ctx.add(r)
        if ctx.time_left() < 30:
            ctx.close()
            ctx.cap_hit("time budget hit in program enumeration")
            break
    # crop / delay bookkeeping (second module; imported here because it imports SeqChooser from this one)
    from mc.checks import c13b

    n_before = ctx.n
    for r in ctx.pmap(c13b.work, c13b.tasks(quick)):
        ctx.add(r)
        if ctx.time_left() < 20:
            ctx.close()
            ctx.cap_hit("time budget hit in crop enumeration")
            break
    ctx.cov["crop_programs_enumerated"] = ctx.n - n_before
    n_prog = ctx.n
    ctx.cov["programs_enumerated"] = n_prog
    ctx.cov["program_space_closed_form"] = expected
    # histories
    depth = 4 if quick else 5
    states = 0
    per = {}
    for si in range(len(HIST_SPECS)):
        seen = {(si, "rolled", False, sum(HIST_SPECS[si]["N"]))}
        frontier = [()]
        levels = []
        for d in range(1, depth + 1):
            if ctx.time_left() < 3:
                ctx.cap_hit(f"history search spec {si}: time budget before depth {d}")
                break
            chunk = max(1, len(frontier) // (ctx.procs * 2) or 1)
            tasks = [(si, frontier[i : i + chunk]) for i in range(0, len(frontier), chunk)]
            nxt = []
            n0 = ctx.n
            for r in ctx.pmap(expand_hist, tasks):
                ctx.add(r)
                for key, hist in r.extra:
                    if key not in seen:
                        seen.add(key)
                        nxt.append(hist)
            levels.append({"depth": d, "expanded": len(frontier), "transitions": ctx.n - n0, "new_states": len(nxt)})
            frontier = nxt
            if not frontier:
                break
        per[f"spec{si}"] = {"states": len(seen), "levels": levels, "closed": not frontier}
        states += len(seen)
    ctx.cov.update({"states": states, "transitions": ctx.n - n_prog, "traces_validated_against_impl": ctx.n, "history_search": per, "evaluations": ctx.n, "distinct_nontrivial": ctx.nt + states})
    if not ctx.samples:
        ctx.samples.append({"history": [["unroll", 1], ["roll"], ["space_unroll", 2]]})
    ctx.assumptions += [
        "reference = explicit loop that takes a fresh mode id for every new pulse (my reading of the documented shift rules), evaluated on the phase-space reference; the unrolled circuits are interpreted with deferred measurements (measured mode moved to an output slot, mode reset to vacuum)",
        "state key of the history search = (program, unrolling mode, locked, number of register references)",
        "numpy.random owned by the harness: the k-th measurement draw is answered with the value k",
    ]


def replay(case):
    res = Res()
    if case.get("crop"):
        from mc.checks import c13b

        return c13b.replay(case)
    if "spec" in case:
        sp = case["spec"]
        spec = {"N": tuple(sp["N"]), "body": tuple((l, tuple(r)) for l, r in sp["body"]), "T": sp["T"], "shift": sp["shift"], "meas": sp["meas"]}
        check_program(spec, case["shots"], res)
    else:
        si = case["spec_index"]
        prog, mode, locked = rebuild_hist(si, tuple(tuple(e) for e in case["hist"]))
        hist_step(si, prog, mode, locked, tuple(case["event"]), res, case)
    return [(s, w) for s, w, _ in res.viol]
