"""C10 - symbolic parameters behave exactly like the values they stand for.

Form S.  (A) every parameter expression up to a size bound over atoms {free a, free b, measured q0, 0.5, pi} and
constructors {neg, 2*, /2, +, *, sin, cos, exp, sqrt(1+x^2)} x every parameter slot of every operation that takes
real parameters x bindings x execution route (engine default, user-compiled, optimize, bosonic, Fock): the state of
the symbolic program under the binding must equal the state of the program with the numbers substituted (computed
by an independent sympy substitution) and the reference semantics.  (B) all histories up to a length over
{measure q0 with outcome v1/v2, re-prepare q0, use q0.par on q1, segment boundary}: a measured parameter evaluates
to the latest outcome of its mode (reference: last-write map).  (C) misuse raises ParameterError.
(D) two programs sharing a free-parameter name keep their own bindings.  (E) par_regref_deps == measured atoms.
"""
import itertools
import warnings

import numpy as np
import sympy

import strawberryfields as sf
from strawberryfields import ops
from strawberryfields.parameters import ParameterError, par_funcs as pf, par_regref_deps

from mc.core.chooser import install_default
from mc.core.ctx import Res
from mc.ref import opsem, phase as ph

install_default()

ID = "C10"
LEVEL = "exploration"
RULE = __doc__ + " Non-trivial: cases whose expression contains at least one symbolic atom."
SEL = 0.7  # post-selected homodyne outcome of mode 0 (value of q0.par)
BINDINGS = [{"a": 0.3, "b": -1.2}, {"a": 0.0, "b": 0.3}, {"a": -1.2, "b": 0.0}]


# ----------------------------------------------------------------------------- expressions
def atoms():
    return ["a", "b", "m", "0.5", "pi"]


UN = ["neg", "dbl", "half", "sin", "cos", "exp", "sq1"]
BIN = ["add", "mul"]


def expressions(size):
    """expression trees as nested tuples"""
    level = {1: [(x,) for x in atoms()]}
    for s in range(2, size + 1):
        cur = []
        for u in UN:
            for e in level[s - 1]:
                cur.append((u, e))
        for b in BIN:
            for s1 in range(1, s - 1):
                for e1 in level[s1]:
                    for e2 in level[s - 1 - s1]:
                        cur.append((b, e1, e2))
        level[s] = cur
    out = []
    for s in range(1, size + 1):
        out += level[s]
    return out


def realise(e, env):
    """env: a, b -> FreeParameter or number; m -> MeasuredParameter or number. Uses the library's function namespace
    for symbolic arguments and numpy for numbers."""
    k = e[0]
    if k in ("a", "b", "m"):
        return env[k]
    if k == "0.5":
        return 0.5
    if k == "pi":
        return np.pi
    x = realise(e[1], env)
    sym = isinstance(x, sympy.Basic)
    if k == "neg":
        return -x
    if k == "dbl":
        return 2 * x
    if k == "half":
        return x / 2
    if k == "sin":
        return pf.sin(x) if sym else np.sin(x)
    if k == "cos":
        return pf.cos(x) if sym else np.cos(x)
    if k == "exp":
        return pf.exp(x) if sym else np.exp(x)
    if k == "sq1":
        return pf.sqrt(1 + x**2) if sym else np.sqrt(1 + x**2)
    y = realise(e[2], env)
    if k == "add":
        return x + y
    if k == "mul":
        return x * y
    raise KeyError(k)


def expr_str(e):
    if len(e) == 1:
        return e[0]
    return f"{e[0]}({', '.join(expr_str(x) for x in e[1:])})"


def has_symbol(e):
    return any(x in expr_str(e) for x in ("a", "b", "m")) and any(t in ("a", "b", "m") for t in _leaves(e))


def _leaves(e):
    if len(e) == 1:
        return [e[0]]
    return [l for x in e[1:] for l in _leaves(x)]


# ----------------------------------------------------------------------------- operation slots
SLOTS = [
    ("Dgate", 0, lambda x: ops.Dgate(x, 0.4), 1),
    ("Dgate", 1, lambda x: ops.Dgate(0.3, x), 1),
    ("Sgate", 0, lambda x: ops.Sgate(x * 0.2, 0.3), 1),
    ("Sgate", 1, lambda x: ops.Sgate(0.25, x), 1),
    ("Rgate", 0, lambda x: ops.Rgate(x), 1),
    ("BSgate", 0, lambda x: ops.BSgate(x, 0.3), 2),
    ("BSgate", 1, lambda x: ops.BSgate(0.5, x), 2),
    ("MZgate", 0, lambda x: ops.MZgate(x, 0.9), 2),
    ("MZgate", 1, lambda x: ops.MZgate(0.4, x), 2),
    ("S2gate", 0, lambda x: ops.S2gate(x * 0.2, 0.5), 2),
    ("S2gate", 1, lambda x: ops.S2gate(0.2, x), 2),
    ("Xgate", 0, lambda x: ops.Xgate(x), 1),
    ("Zgate", 0, lambda x: ops.Zgate(x), 1),
    ("Pgate", 0, lambda x: ops.Pgate(x), 1),
    ("CXgate", 0, lambda x: ops.CXgate(x), 2),
    ("CZgate", 0, lambda x: ops.CZgate(x), 2),
    ("Rgate.H", 0, lambda x: ops.Rgate(x).H, 1),
    ("Xgate.H", 0, lambda x: ops.Xgate(x).H, 1),
    ("CZgate.H", 0, lambda x: ops.CZgate(x).H, 2),
    ("Coherent", 0, lambda x: ops.Coherent(x, 0.2), 1),
    ("Coherent", 1, lambda x: ops.Coherent(0.3, x), 1),
    ("Squeezed", 1, lambda x: ops.Squeezed(0.3, x), 1),
    ("DisplacedSqueezed", 1, lambda x: ops.DisplacedSqueezed(0.2, x, 0.2, 0.1), 1),
]
ROUTES = ["default", "compiled", "optimize", "bosonic"]


def program(slot, e, symbolic, binding):
    """modes: 0 is measured (value SEL), the operation acts on mode 1 (and 2)."""
    name, _, mk, ar = slot
    prog = sf.Program(3)
    with warnings.catch_warnings():
        warnings.simplefilter("ignore")
        with prog.context as q:
            ops.Squeezed(0.3, 0.1) | q[0]
            ops.Coherent(0.2, 0.3) | q[1]
            ops.BSgate(0.4, 0.2) | (q[0], q[1])
            ops.BSgate(0.3, 0.1) | (q[1], q[2])
            ops.MeasureHomodyne(0.0, select=SEL) | q[0]
            if symbolic:
                env = {"a": prog.params("a"), "b": prog.params("b"), "m": q[0].par}
            else:
                env = {"a": binding["a"], "b": binding["b"], "m": SEL}
            x = realise(e, env)
            if not symbolic:
                x = float(x)
            mk(x) | ((q[1],) if ar == 1 else (q[1], q[2]))
    return prog


def run_route(prog, route, binding, symbolic):
    args = {k: v for k, v in binding.items() if k in prog.free_params} if symbolic else {}
    with warnings.catch_warnings():
        warnings.simplefilter("ignore")
        if route == "bosonic":
            eng = sf.Engine("bosonic")
            st = eng.run(prog, args=args).state
            ix = [0, 2, 4, 1, 3, 5]
            return np.real(np.array(st.means())[0][ix]), np.real(np.array(st.covs())[0][np.ix_(ix, ix)])
        eng = sf.Engine("gaussian")
        if route == "default":
            st = eng.run(prog, args=args).state
        elif route == "compiled":
            st = eng.run(prog.compile(compiler="gaussian"), args=args).state
        else:
            st = eng.run(prog, args=args, compile_options={"optimize": True}).state
    return np.array(st.means()), np.array(st.cov())


def reference_state(numeric_prog):
    """reference: the numeric program through opsem with the homodyne outcome conditioned in phase.py"""
    gs = ph.GState(3)
    for c in numeric_prog.circuit:
        modes = [r.ind for r in c.reg]
        if opsem.name(c.op) == "MeasureHomodyne":
            gs.condition_homodyne(modes[0], float(c.op.p[0]), SEL)
        else:
            opsem.apply_gaussian(c.op, modes, gs)
    return gs.mu, gs.V


def work_expr(task):
    slot_i, exprs = task
    slot = SLOTS[slot_i]
    res = Res()
    for e in exprs:
        for binding in BINDINGS:
            try:
                num = program(slot, e, False, binding)
                mu_ref, V_ref = reference_state(num)
            except (OverflowError, ValueError, FloatingPointError):
                res.stats["skipped_invalid_value"] += 1
                continue
            if not np.all(np.isfinite(V_ref)) or np.max(np.abs(V_ref)) > 1e6:
                res.stats["skipped_huge_value"] += 1
                continue
            for route in ROUTES:
                res.n += 1
                sym = has_symbol(e)
                if sym:
                    res.nt += 1
                case = {"slot": slot_i, "expr": e, "binding": binding, "route": route}
                try:
                    mu_n, V_n = run_route(num, route, binding, False)
                except Exception as ex:
                    res.stats["numeric_program_rejected"] += 1
                    continue
                try:
                    sp = program(slot, e, True, binding)
                    mu_s, V_s = run_route(sp, route, binding, True)
                except Exception as ex:
                    res.violation(f"C10|symbolic-raises|{slot[0]}|{route}|{type(ex).__name__}", f"{slot[0]} slot {slot[1]} with parameter {expr_str(e)} under {binding} via {route} raised {type(ex).__name__}: {ex} (the numeric program runs)", case)
                    continue
                scale = max(1.0, float(np.max(np.abs(V_n))))
                # the Gaussian homodyne projects on a finitely squeezed state (eps = 2e-4): same in both programs
                d = max(float(np.max(np.abs(mu_s - mu_n))), float(np.max(np.abs(V_s - V_n))))
                if d > 1e-9 * scale:
                    res.violation(f"C10|symbolic-vs-substituted|{slot[0]}|slot{slot[1]}|{route}|{_atoms_tag(e)}", f"{slot[0]} slot {slot[1]} with {expr_str(e)} under {binding} via {route}: state differs from the substituted program by {d:.3g}", case)
                d2 = max(float(np.max(np.abs(mu_n - mu_ref))), float(np.max(np.abs(V_n - V_ref))))
                if d2 > 1e-5 * scale:  # finite-squeezing homodyne model: 1e-7 relative
                    res.violation(f"C10|numeric-vs-reference|{slot[0]}|{route}", f"{slot[0]} with value of {expr_str(e)} under {binding} via {route}: differs from the reference semantics by {d2:.3g}", case)
                if sym:
                    res.sample({"op": slot[0], "slot": slot[1], "parameter": expr_str(e), "binding": binding, "route": route}, cap=1)
    return res


def _atoms_tag(e):
    ls = set(_leaves(e)) & {"a", "b", "m"}
    return "+".join(sorted("measured" if x == "m" else "free" for x in ls)) or "const"


# ----------------------------------------------------------------------------- (B) measured-value histories
HEV = ["M1", "M2", "PREP", "USE", "SEG", "USEX", "M0"]
V1, V2 = 0.7, -0.4
VAL = {"M1": V1, "M2": V2, "M0": 0.0}  # M0: the outcome is exactly zero - a measured value all the same


def run_history(hist, res, mm=0):
    """mode 1-mm accumulates x-displacements equal to the latest measured value of mode mm (Xgate(q[mm].par))."""
    case = {"hist": list(hist), "measured_mode": mm}
    um = 1 - mm
    eng = sf.Engine("gaussian")
    prog = sf.Program(2)
    pending = False
    last = None  # reference: last-write map for mode 0
    expect_x = 0.0
    ok = True

    def run_seg(prog):
        with warnings.catch_warnings():
            warnings.simplefilter("ignore")
            return eng.run(prog)

    r = None
    for k, ev in enumerate(hist):
        try:
            with warnings.catch_warnings():
                warnings.simplefilter("ignore")
                with prog.context as q:
                    if ev in VAL:
                        ops.MeasureHomodyne(0.0, select=VAL[ev]) | q[mm]
                        last = VAL[ev]
                    elif ev == "PREP":
                        ops.Squeezed(0.2, 0.0) | q[mm]
                    elif ev == "USEX":
                        # the other mode is never measured: its value must never be available
                        ops.Zgate(q[um].par) | q[mm]
                    elif ev == "USE":
                        ops.Xgate(q[mm].par) | q[um]
                        if last is None:
                            expect_err = True
                        else:
                            expect_x += last
                    pending = True
            if ev == "SEG":
                r = run_seg(prog)
                prog = sf.Program(prog)
                pending = False
        except ParameterError:
            if _use_before_measure(hist[: k + 1]):
                return "expected-error"
            res.violation("C10|measured|unexpected-ParameterError", f"history {hist}: ParameterError although mode 0 was measured before the use", case)
            return "violation"
        except Exception as ex:
            res.violation(f"C10|measured|raises|{type(ex).__name__}", f"history {hist} raised {type(ex).__name__}: {ex}", case)
            return "violation"
    try:
        if pending or r is None:
            r = run_seg(prog)
    except ParameterError:
        if _use_before_measure(hist):
            return "expected-error"
        res.violation("C10|measured|unexpected-ParameterError", f"history {hist}: ParameterError although mode 0 was measured before every use", case)
        return "violation"
    except Exception as ex:
        res.violation(f"C10|measured|raises|{type(ex).__name__}", f"history {hist} raised {type(ex).__name__}: {ex}", case)
        return "violation"
    if _use_before_measure(hist):
        res.violation("C10|measured|use-before-measurement-accepted", f"history {hist}: q0.par was used before mode 0 was measured and no ParameterError was raised", case)
        return "violation"
    x = float(r.state.quad_expectation(um, 0)[0])
    if abs(x - expect_x) > 1e-6:
        crosses = "across-segments" if "SEG" in hist else "one-segment"
        res.violation(f"C10|measured|latest-outcome|{crosses}", f"history {hist} (measured mode {mm}): the other mode was displaced by {x:.4f}, the latest outcomes of mode 0 add up to {expect_x:.4f}", case)
        return "violation"
    return "ok"


def _use_before_measure(hist):
    seen = False
    if "USEX" in hist:
        return True
    for ev in hist:
        if ev in VAL:
            seen = True
        if ev == "USE" and not seen:
            return True
    return False


def work_hist(task):
    hists = task
    res = Res()
    for h, mm in hists:
        res.n += 1
        out = run_history(h, res, mm)
        if "USE" in h:
            res.nt += 1
            res.sample({"history": list(h), "verdict": out}, cap=1)
    return res


# ----------------------------------------------------------------------------- (C), (D), (E)
def stale_after_reset(res):
    """a session of independent Program objects (measure mode 0 / use its value on mode 1 / an unrelated gate) in every order
    in which the user comes after the measurement, then reset(), then the user alone: the value measured before the reset
    must be gone - the engine must do what a fresh engine does with that program (refuse it)"""

    def mk(kind):
        P = sf.Program(2)
        with P.context as q:
            if kind == "M":
                ops.Squeezed(0.3) | q[0]
                ops.MeasureHomodyne(0.0, select=SEL) | q[0]
            elif kind == "U":
                ops.Xgate(q[0].par) | q[1]
            else:
                ops.Rgate(0.3) | q[1]
        return P

    def outcome(fn):
        try:
            with warnings.catch_warnings():
                warnings.simplefilter("ignore")
                r = fn()
            return ("state", np.round(np.array(r.state.means()), 8).tolist())
        except Exception as e:  # noqa: BLE001
            return ("raises", type(e).__name__)

    for backend in ("gaussian", "fock"):
        opts = {"cutoff_dim": 6} if backend == "fock" else {}
        for order in [("M", "U"), ("M", "U", "O"), ("M", "O", "U"), ("M", "U", "O", "O"), ("M", "U", "U", "O")]:
            for how in ("one-by-one", "list"):
                res.n += 1
                res.nt += 1
                case = {"stale_after_reset": True, "backend": backend, "order": list(order), "how": how}
                progs = [mk(k) for k in order]
                eng = sf.Engine(backend, backend_options=opts)
                try:
                    with warnings.catch_warnings():
                        warnings.simplefilter("ignore")
                        if how == "list":
                            eng.run(progs)
                        else:
                            for P in progs:
                                eng.run(P)
                        eng.reset()
                except Exception as e:  # noqa: BLE001
                    res.stats[f"stale_after_reset:session-raises:{type(e).__name__}"] += 1
                    continue
                for idx in [i for i, k in enumerate(order) if k == "U"]:
                    got = outcome(lambda: eng.run(progs[idx]))
                    want = outcome(lambda: sf.Engine(backend, backend_options=opts).run(mk("U")))
                    if got != want:
                        res.violation(f"C10|measured|stale-value-after-reset|{backend}", f"session {list(order)} ({how}) of independent programs (M measures mode 0 = {SEL}, U applies Xgate(q0.par) to mode 1, O is unrelated), reset(), then program {idx} (U) alone: {got}; a fresh engine: {want}", dict(case, idx=idx))
                    try:
                        eng.reset()
                    except Exception:  # noqa: BLE001
                        break
    return res


def misc(res):
    stale_after_reset(res)
    # unbound free parameter, unknown name
    for what in ("unbound", "unknown"):
        res.n += 1
        prog = sf.Program(1)
        with prog.context as q:
            ops.Dgate(prog.params("a"), 0.0) | q[0]
        eng = sf.Engine("gaussian")
        try:
            with warnings.catch_warnings():
                warnings.simplefilter("ignore")
                eng.run(prog, args={} if what == "unbound" else {"a": 0.1, "zzz": 0.3})
            res.violation(f"C10|misuse|{what}-accepted", f"running with an {what} free parameter did not raise", {"misc": what})
        except ParameterError:
            pass
        except Exception as ex:
            res.violation(f"C10|misuse|{what}|{type(ex).__name__}", f"{what} free parameter raised {type(ex).__name__} instead of ParameterError", {"misc": what})
    # binding by parameter object: the program's own parameter is accepted, a parameter of another program is unknown
    for what in ("own-object", "foreign-object"):
        res.n += 1
        res.nt += 1
        P = sf.Program(1)
        with P.context as q:
            ops.Xgate(P.params("own_p")) | q[0]
        O = sf.Program(1)
        with O.context as q:
            ops.Xgate(O.params("other_p")) | q[0]
        key = P.params("own_p") if what == "own-object" else O.params("other_p")
        args = {key: 0.4} if what == "own-object" else {"own_p": 0.4, key: 1.5}
        try:
            with warnings.catch_warnings():
                warnings.simplefilter("ignore")
                x = float(sf.Engine("gaussian").run(P, args=args).state.quad_expectation(0, 0)[0])
            if what == "foreign-object":
                res.violation("C10|misuse|foreign-parameter-object-accepted", f"binding a FreeParameter that belongs to another program was accepted (x = {x:.3f})", {"misc": what})
            elif abs(x - 0.4) > 1e-9:
                res.violation("C10|free|binding-by-object", f"binding the program's own parameter object to 0.4 gives x = {x:.3f}", {"misc": what})
        except ParameterError:
            if what == "own-object":
                res.violation("C10|free|binding-by-object", "binding the program's own parameter object raised ParameterError", {"misc": what})
        except Exception as ex:  # noqa: BLE001
            res.violation(f"C10|misuse|{what}|{type(ex).__name__}", f"{what} binding raised {type(ex).__name__} instead of ParameterError", {"misc": what})
    # two programs sharing a parameter name keep their own bindings
    res.n += 1
    P = sf.Program(1)
    with P.context as q:
        ops.Xgate(P.params("a")) | q[0]
    x0 = float(sf.Engine("gaussian").run(P, args={"a": 0.3}).state.quad_expectation(0, 0)[0])
    Q = sf.Program(1)
    with Q.context as q:
        ops.Xgate(Q.params("a")) | q[0]
    sf.Engine("gaussian").run(Q, args={"a": -1.2})
    try:
        x1 = float(sf.Engine("gaussian").run(P).state.quad_expectation(0, 0)[0])
        if abs(x1 - x0) > 1e-9:
            res.violation("C10|free|binding-shared-between-programs", f"P bound a=0.3 (x={x0:.3f}); after another program bound its own 'a' to -1.2, re-running P gives x={x1:.3f}", {"misc": "shared-binding"})
    except ParameterError:
        res.violation("C10|free|binding-lost-by-other-program", "P bound a=0.3; creating another program with a parameter of the same name unbound P's parameter", {"misc": "shared-binding"})
    res.nt += 1
    # the same through an expression (sympy also caches expressions built from equal symbols)
    res.n += 1
    P = sf.Program(1)
    with P.context as q:
        ops.Xgate(2 * P.params("c")) | q[0]
    Q = sf.Program(1)
    with Q.context as q:
        ops.Xgate(2 * Q.params("c")) | q[0]
    try:
        xq = float(sf.Engine("gaussian").run(Q, args={"c": -0.6}).state.quad_expectation(0, 0)[0])
        xp = float(sf.Engine("gaussian").run(P, args={"c": 0.15}).state.quad_expectation(0, 0)[0])
        if abs(xq + 1.2) > 1e-9 or abs(xp - 0.3) > 1e-9:
            res.violation("C10|free|expression-shared-between-programs", f"two programs use 2*c with their own parameter c: Q bound c=-0.6 gives x={xq:.3f} (expected -1.2), P bound c=0.15 gives x={xp:.3f} (expected 0.3)", {"misc": "shared-expression"})
    except ParameterError as ex:
        res.violation("C10|free|expression-shared-between-programs", f"two programs use 2*c with their own parameter c: running one with its binding raised {ex}", {"misc": "shared-expression"})
    res.nt += 1
    # par_regref_deps
    prog = sf.Program(3)
    q = prog.register
    a = prog.params("a")
    for e in expressions(3):
        res.n += 1
        x = realise(e, {"a": a, "b": prog.params("b"), "m": q[0].par})
        deps = par_regref_deps(x)
        exp = {q[0]} if "m" in _leaves(e) else set()
        if set(deps) != exp and not (isinstance(x, sympy.Basic) and not x.free_symbols):
            # sympy may simplify the measured atom away (e.g. m - m); then no dependency is needed
            if not (isinstance(x, sympy.Basic) and q[0].par not in x.free_symbols and not deps):
                res.violation("C10|par_regref_deps", f"par_regref_deps({expr_str(e)}) = {deps}, expected {exp}", {"misc": "deps", "expr": e})
    return res

# ----------------------------------------------------------------------------- (F) values of multi-mode measurements
def multi_mode_values(res):
    """one photon-counting / threshold command on every ordered tuple of >= 2 of 3 modes: the sampler answers column j
    with 10 + j (the j-th listed mode); q[m].par must evaluate to the outcome of ITS mode, in RegRef.val and in a
    feed-forward gate"""
    import strawberryfields.backends.gaussianbackend.backend as gb

    called = []

    def fake(cov, samples, *a, **kw):
        called.append(1)
        return np.array([[10 + j for j in range(cov.shape[0] // 2)]] * samples)

    for which in ("MeasureFock", "MeasureThreshold"):
        for k in (2, 3):
            for modes in itertools.permutations(range(3), k):
                res.n += 1
                res.nt += 1
                case = {"multi": which, "modes": list(modes)}
                prog = sf.Program(4)
                w = {m: 7**i for i, m in enumerate(sorted(modes))}
                with prog.context as q:
                    ops.Squeezed(0.3, 0.0) | q[0]
                    ops.BSgate(0.5, 0.2) | (q[0], q[1])
                    getattr(ops, which)() | tuple(q[m] for m in modes)
                    for m in sorted(modes):
                        ops.Xgate(0.01 * w[m] * q[m].par) | q[3]
                sh, st = gb.hafnian_sample_state, gb.torontonian_sample_state
                gb.hafnian_sample_state, gb.torontonian_sample_state = fake, fake
                try:
                    with warnings.catch_warnings():
                        warnings.simplefilter("ignore")
                        r = sf.Engine("gaussian").run(prog)
                except Exception as ex:  # noqa: BLE001
                    res.violation(f"C10|multi-mode-measurement|raises|{type(ex).__name__}", f"{which} | {list(modes)} followed by feed-forward raised {ex!r}", case)
                    continue
                finally:
                    gb.hafnian_sample_state, gb.torontonian_sample_state = sh, st
                if not called:
                    res.stats["multi_mode_sampler_not_recognised"] += 1  # the simulator samples some other way: nothing to judge
                    continue
                del called[:]
                exp = {m: 10 + j for j, m in enumerate(modes)}
                vals = {m: int(np.ravel(prog.register[m].val)[0]) for m in modes}
                if vals != exp:
                    res.violation(f"C10|multi-mode-measurement|regref-value|{which}", f"{which} | {list(modes)} with the sampler answering the j-th listed mode with 10+j: RegRef values {vals}, expected {exp}", case)
                    continue
                x = float(r.state.quad_expectation(3, 0)[0])
                ex_x = 0.01 * sum(w[m] * exp[m] for m in modes)
                if abs(x - ex_x) > 1e-9:
                    res.violation(f"C10|multi-mode-measurement|feed-forward|{which}", f"{which} | {list(modes)}: feed-forward displaced mode 3 by {x:.4f}, the outcomes of the referenced modes give {ex_x:.4f}", case)
    return res


# ----------------------------------------------------------------------------- (F) symbolic gates with neighbours on their wire
NB_FAMS = {"Rgate": ops.Rgate, "Zgate": ops.Zgate, "Xgate": ops.Xgate, "Sgate": ops.Sgate, "Pgate": ops.Pgate}


def neighbours(res, quick=True):
    """every sequence of 2-3 gates on one wire over {G(measured), G(0.4), G(free a), H(measured)} (G a one-parameter family, H
    another one), executed with and without the optimiser: the optimiser may merge G(m) with its neighbours only if the
    result is what the numeric twin computes"""
    binding = BINDINGS[0]
    for fam, G in NB_FAMS.items():
        other = ops.Zgate if fam != "Zgate" else ops.Rgate
        letters = [("G", "m"), ("G", "c"), ("G", "a"), ("H", "m")]
        for L in (2, 3):
            for seq in itertools.product(letters, repeat=L):
                if not any(k == "m" for _, k in seq):
                    continue

                def build(symbolic):
                    prog = sf.Program(3)
                    with warnings.catch_warnings():
                        warnings.simplefilter("ignore")
                        with prog.context as q:
                            ops.Squeezed(0.3, 0.1) | q[0]
                            ops.Coherent(0.2, 0.3) | q[1]
                            ops.BSgate(0.4, 0.2) | (q[0], q[1])
                            ops.MeasureHomodyne(0.0, select=SEL) | q[0]
                            for g, k in seq:
                                val = {"m": q[0].par if symbolic else SEL, "c": 0.4, "a": prog.params("a") if symbolic else binding["a"]}[k]
                                (G if g == "G" else other)(val) | q[1]
                    return prog

                tag = [f"{fam if g == 'G' else other.__name__}({k})" for g, k in seq]
                case = {"part": "neighbours", "family": fam, "seq": [list(x) for x in seq]}
                try:
                    ref = run_route(build(False), "default", binding, False)
                except Exception as e:  # noqa: BLE001
                    res.stats["neighbours:numeric-twin-raises"] += 1
                    continue
                for route in ("default", "optimize", "compiled"):
                    res.n += 1
                    res.nt += 1
                    try:
                        got = run_route(build(True), route, binding, True)
                    except Exception as e:  # noqa: BLE001
                        res.violation(f"C10|neighbours|raises|{route}|{type(e).__name__}", f"{tag} on one wire (m = measured value of mode 0, a free, c = 0.4), route {route}: raised {type(e).__name__}: {str(e)[:120]} where the numeric twin runs", dict(case, route=route))
                        continue
                    d = max(float(np.max(np.abs(got[0] - ref[0]))), float(np.max(np.abs(got[1] - ref[1]))))
                    if d > 1e-8:
                        res.violation(f"C10|neighbours|state|{route}|{fam}", f"{tag} on one wire (m = measured value {SEL} of mode 0, a = {binding['a']}, c = 0.4), route {route}: state differs from the numeric twin's by {d:.3g}", dict(case, route=route))
    return res


def run(ctx):
    quick = ctx.tier == "quick"
    ctx.add(neighbours(Res()))
    ex = expressions(2 if quick else 3)
    tasks = []
    for si in range(len(SLOTS)):
        ch = max(1, len(ex) // 8)
        for i in range(0, len(ex), ch):
            tasks.append((si, ex[i : i + ch]))
    for r in ctx.pmap(work_expr, tasks):
        ctx.add(r)
        if ctx.time_left() < 20:
            ctx.close()
            ctx.cap_hit("time budget hit in expression sweep")
            break
    ctx.cov["expressions"] = len(ex)
    ctx.cov["slots"] = len(SLOTS)
    L = 5 if quick else 6
    hs = [(h, mm) for k in range(1, L + 1) for h in itertools.product(HEV, repeat=k) for mm in (0, 1)]
    ch = max(1, len(hs) // 64)
    for r in ctx.pmap(work_hist, [hs[i : i + ch] for i in range(0, len(hs), ch)]):
        ctx.add(r)
    ctx.cov["histories"] = len(hs)
    ctx.add(misc(Res()))
    ctx.add(multi_mode_values(Res()))
    ctx.assumptions += [
        "expressions are substituted independently with sympy (xreplace + float) to build the numeric twin; homodyne on the Gaussian simulator projects on a finitely squeezed state (eps = 2e-4), identical in both programs; the comparison with the phase-space reference (ideal projection) therefore uses 1e-5",
        "post-selected outcomes (select) stand for measured values; numpy.random owned by the harness",
    ]


def replay(case):
    if case.get("part") == "neighbours":
        r = neighbours(Res())
        return [(s, w) for s, w, c in r.viol if c.get("family") == case["family"] and c.get("seq") == case["seq"] and c.get("route") == case["route"]]
    res = Res()
    if "slot" in case:
        e = _tup(case["expr"])
        r = work_expr((case["slot"], [e]))
        return [(s, w) for s, w, c in r.viol if c["route"] == case["route"] and c["binding"] == case["binding"]]
    if "hist" in case:
        run_history(tuple(case["hist"]), res, case.get("measured_mode", 0))
    elif "multi" in case:
        r = multi_mode_values(Res())
        return [(s, w) for s, w, c in r.viol if c["multi"] == case["multi"] and c["modes"] == case["modes"]]
    else:
        res = misc(Res())
    return [(s, w) for s, w, _ in res.viol]


def _tup(e):
    return tuple(_tup(x) if isinstance(x, list) else x for x in e)
