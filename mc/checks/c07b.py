"""C07, non-Gaussian states of the bosonic simulator are physical.

Every cat state of a small alphabet (amplitude, angle, parity incl. non-integer parities, complex / real representation)
followed by <= 1 Gaussian operation: the linear combination of Gaussians must describe a Hermitian, normalised, positive
state - weights sum to one, the Wigner function is real and integrates to one on a grid, purity / vacuum fidelity / mean
photon number are real and inside their physical ranges, the single-mode covariance of the mixture obeys the
uncertainty relation.
"""
import warnings

import numpy as np

import strawberryfields as sf
from strawberryfields import ops

from mc.checks import physics
from mc.core.ctx import Res

PI = np.pi
CATS = [(a, phi, p, rep) for a in (0.6, 1.0, 1.5) for phi in (0.0, 0.7) for p in (0, 1, 0.5, 0.3, 1.5) for rep in ("complex", "real")]
AFTER = [None, ("R(.7)", (0,)), ("S(.25,.3)", (0,)), ("D(.3,.4)", (0,)), ("Loss(.6)", (0,)), ("BS(.5,.3)", (0, 1)), ("S2(.2,.5)", (1, 0))]
XV = np.linspace(-7, 7, 141)


def check(cat, after, res):
    a, phi, p, rep = cat
    n = 1 if after is None or len(after[1]) == 1 else 2
    case = {"cat_physical": True, "cat": list(cat), "after": None if after is None else [after[0], list(after[1])]}
    desc = f"Catstate(a={a}, phi={phi}, p={p}, '{rep}')" + (f" ; {after[0]}{list(after[1])}" if after else "")
    prog = sf.Program(n)
    try:
        with warnings.catch_warnings():
            warnings.simplefilter("ignore")
            with prog.context as q:
                ops.Catstate(a, phi, p, representation=rep) | q[0]
                if after is not None:
                    physics.make_op(after[0], 0) | tuple(q[m] for m in after[1])
            st = sf.Engine("bosonic").run(prog).state
            w = np.asarray(st.weights())
            bad = []
            if abs(np.sum(w) - 1) > 1e-9:
                bad.append(("weights-sum", f"weights sum to {np.sum(w)}"))
            tol = 1e-9 if rep == "complex" else 1e-6
            for m in range(n):
                W = np.asarray(st.wigner(m, XV, XV))
                if np.max(np.abs(np.imag(W))) > tol:
                    bad.append(("wigner-complex", f"Wigner function of mode {m} has imaginary part {np.max(np.abs(np.imag(W))):.3g} (the state is not Hermitian)"))
                    continue
                tot = float(np.sum(np.real(W)) * (XV[1] - XV[0]) ** 2)
                if abs(tot - 1) > 1e-4:
                    bad.append(("wigner-norm", f"Wigner function of mode {m} integrates to {tot:.6f}"))
                mu, var = st.quad_expectation(m, 0.0)
                mu2, var2 = st.quad_expectation(m, PI / 2)
                if abs(np.imag(mu)) + abs(np.imag(var)) + abs(np.imag(mu2)) + abs(np.imag(var2)) > tol:
                    bad.append(("moments-complex", f"quadrature moments of mode {m} are complex"))
                elif np.real(var) * np.real(var2) < 1 - 1e-6:  # (hbar/2)^2 = 1 at hbar = 2
                    bad.append(("uncertainty", f"mode {m}: Var(x) Var(p) = {np.real(var) * np.real(var2):.6f} < 1"))
                nb = st.mean_photon(m)
                if abs(np.imag(nb[0])) > tol or np.real(nb[0]) < -1e-9 or np.real(nb[1]) < -1e-7:
                    bad.append(("mean-photon", f"mean photon number / variance of mode {m} = {nb}"))
            pur = complex(st.purity())
            if abs(pur.imag) > tol or pur.real > 1 + 1e-6 or pur.real <= 0:
                bad.append(("purity", f"purity = {pur}"))
            fv = complex(st.fidelity_vacuum())
            if abs(fv.imag) > tol or fv.real < -1e-9 or fv.real > 1 + 1e-9:
                bad.append(("fidelity-vacuum", f"fidelity with vacuum = {fv}"))
    except Exception as e:  # noqa: BLE001
        res.violation(f"C07|cat|raises|{type(e).__name__}|{'integer' if float(p).is_integer() else 'fractional'}-parity", f"{desc}: {type(e).__name__}: {str(e)[:120]}", case)
        return
    for what, msg in bad:
        res.violation(f"C07|cat|{what}|{rep}|{'integer' if float(p).is_integer() else 'fractional'}-parity", f"{desc} on the bosonic simulator: {msg}", case)


# ----------------------------------------------------------------------------- non-Gaussian preparations of the Fock simulator
GKPS = [(0.0, 0.0), (PI / 2, PI / 2), (0.7, 1.1), (PI, 0.0), (PI / 2, 0.0)]
FCTX = ["alone", "alone-mixed", "after-Fock(1)", "second-of-two", "then-BS"]
FCUT = 12


def check_fock_gkp(gkp, ctxname, res):
    """GKP(state=[theta, phi]) - complex amplitudes for generic angles - on the Fock simulator, in every way the simulator may
    hold the register (state vector, density matrix because of pure=False, density matrix because another mode was prepared
    first): the returned density matrix is Hermitian, positive, of trace at most one"""
    theta, phi = gkp
    case = {"fock_gkp": True, "gkp": [theta, phi], "ctx": ctxname}
    n = 1 if ctxname.startswith("alone") else 2
    prog = sf.Program(n)
    desc = f"GKP(state=[{theta:.4g}, {phi:.4g}], epsilon=0.35) ({ctxname}) on the Fock simulator at cutoff {FCUT}"
    try:
        with warnings.catch_warnings():
            warnings.simplefilter("ignore")
            with prog.context as q:
                if ctxname == "after-Fock(1)":
                    ops.Fock(1) | q[0]
                    ops.GKP(state=[theta, phi], epsilon=0.35) | q[1]
                elif ctxname == "second-of-two":
                    ops.GKP(epsilon=0.35) | q[0]
                    ops.GKP(state=[theta, phi], epsilon=0.35) | q[1]
                elif ctxname == "then-BS":
                    ops.GKP(state=[theta, phi], epsilon=0.35) | q[0]
                    ops.BSgate(0.5, 0.3) | (q[0], q[1])
                else:
                    ops.GKP(state=[theta, phi], epsilon=0.35) | q[0]
            opts = {"cutoff_dim": FCUT}
            if ctxname == "alone-mixed":
                opts["pure"] = False
            st = sf.Engine("fock", backend_options=opts).run(prog).state
            rho = np.asarray(st.dm())
            d = FCUT**n
            if n == 2:
                rho = rho.transpose(0, 2, 1, 3).reshape(d, d)
    except Exception as e:  # noqa: BLE001
        res.violation(f"C07|fock-gkp|raises|{type(e).__name__}", f"{desc}: {type(e).__name__}: {str(e)[:120]}", case)
        return
    herm = float(np.max(np.abs(rho - rho.conj().T)))
    tr = complex(np.trace(rho))
    if herm > 1e-9:
        res.violation(f"C07|fock-gkp|not-hermitian|{ctxname}", f"{desc}: the density matrix is not Hermitian (max |rho - rho^+| = {herm:.3g}, trace {tr:.4g})", case)
        return
    ev = np.linalg.eigvalsh((rho + rho.conj().T) / 2)
    if ev.min() < -1e-9:
        res.violation(f"C07|fock-gkp|not-positive|{ctxname}", f"{desc}: smallest eigenvalue {ev.min():.3g}", case)
    if abs(tr.imag) > 1e-9 or tr.real > 1 + 1e-9 or tr.real <= 0:
        res.violation(f"C07|fock-gkp|trace|{ctxname}", f"{desc}: trace {tr}", case)


def tasks(quick):
    items = [(c, af) for c in CATS for af in (AFTER if not quick else AFTER[:2] + AFTER[4:6]) if not quick or c[0] != 1.5]
    return [("cat", items[i : i + 8]) for i in range(0, len(items), 8)] + [("fock_gkp", [(g, c) for c in FCTX]) for g in GKPS]


def work(task):
    res = Res()
    if task[0] == "fock_gkp":
        for g, c in task[1]:
            res.n += 1
            res.nt += 1
            check_fock_gkp(g, c, res)
        return res
    for cat, af in task[1]:
        res.n += 1
        res.nt += 1
        check(cat, af, res)
        res.sample({"cat_physical": True, "cat": list(cat), "after": None if af is None else af[0]}, cap=1)
    return res


def replay(case):
    res = Res()
    if case.get("fock_gkp"):
        check_fock_gkp(tuple(case["gkp"]), case["ctx"], res)
        return [(s, w) for s, w, _ in res.viol]
    af = case["after"]
    check(tuple(case["cat"]), None if af is None else (af[0], tuple(af[1])), res)
    return [(s, w) for s, w, _ in res.viol]
