"""Shared physics explorer (variant E) for C01, C05, C07.

State      = live simulator backend (real code) + reference state, identified by the event history reaching it
Transition = real per-target decomposition of one Command + real Operation.apply on a deep copy of the backend
Search     = breadth first, level synchronous over 16 workers, dedup on a canonical hash of the reference state
             plus the implementation's representation bits
Oracles    = C01: implementation state == reference state
             C05: spectator marginals untouched / prepared block documented and uncorrelated
             C07: physicality invariants and conservation laws
"""
import copy
import hashlib
import itertools
import warnings

import numpy as np

import strawberryfields as sf
from strawberryfields import ops
from strawberryfields.backends import load_backend
from strawberryfields.compilers import compiler_db
from strawberryfields.program_utils import Command, RegRef

from mc.core.ctx import Res
from mc.ref import focksem, fockref as fr, opsem, phase as ph

PI = np.pi
TOL = 1e-9

# ----------------------------------------------------------------------------- alphabet
# label -> (factory, arity, kind-of-op, allowed backend families)
G = ("gaussian", "bosonic")
F = ("fock",)
A = G + F
_KET2 = None


def ket2(c):
    """fixed entangled two-mode ket (|01> + i|10> + 0.5|11>)/norm"""
    v = np.zeros((c, c), dtype=complex)
    v[0, 1], v[1, 0], v[1, 1] = 1, 1j, 0.5
    return v / np.linalg.norm(v)


def dm2(c):
    """fixed two-mode mixed state: 0.7 |psi><psi| + 0.3 |20><20|, library layout [i0,j0,i1,j1]"""
    v = ket2(c).reshape(-1)
    rho = 0.7 * np.outer(v, v.conj())
    k = 2 * c + 0
    rho[k, k] += 0.3
    return rho.reshape(c, c, c, c).transpose(0, 2, 1, 3)


def _gauss2():
    """two-mode mixed Gaussian state with symplectic spectrum (thermal, vacuum): thermal(0.4) x vacuum through a beamsplitter
    and a squeezer, displaced (xxpp, hbar = 2)"""
    S = ph.embed(ph.squeeze(0.2, 0.3), [0], 2) @ ph.beamsplitter(0.6, 0.2)
    V = S @ np.diag([1.8, 1.0, 1.8, 1.0]) @ S.T
    return (V + V.T) / 2, np.array([0.3, -0.2, 0.1, 0.4])


def _gauss1():
    S = ph.squeeze(0.25, 0.5)
    V = 1.6 * S @ S.T
    return (V + V.T) / 2, np.array([0.2, -0.3])


EVENTS = {
    # preparations
    "Gauss1": (lambda c: ops.Gaussian(*_gauss1()), 1, "prep", G),
    "Gauss2": (lambda c: ops.Gaussian(*_gauss2()), 2, "prep", G),
    "Gauss2(native)": (lambda c: ops.Gaussian(*_gauss2(), decomp=False), 2, "prep", ("gaussian",)),
    "Vac": (lambda c: ops.Vacuum(), 1, "prep", A),
    "Coh(.3,.5)": (lambda c: ops.Coherent(0.3, 0.5), 1, "prep", A),
    "Sq(.25,.4)": (lambda c: ops.Squeezed(0.25, 0.4), 1, "prep", A),
    "DSq(.2,.3,.2,-.6)": (lambda c: ops.DisplacedSqueezed(0.2, 0.3, 0.2, -0.6), 1, "prep", A),
    "Th(.3)": (lambda c: ops.Thermal(0.3), 1, "prep", A),
    "Fock(1)": (lambda c: ops.Fock(1), 1, "prep", F),
    "Fock(2)": (lambda c: ops.Fock(2), 1, "prep", F),
    "Ket2": (lambda c: ops.Ket(ket2(c)), 2, "prep", F),
    "DM2": (lambda c: ops.DensityMatrix(dm2(c)), 2, "prep", F),
    # single-mode gates
    "D(.3,.4)": (lambda c: ops.Dgate(0.3, 0.4), 1, "unitary", A),
    "D(-.2,pi)": (lambda c: ops.Dgate(-0.2, PI), 1, "unitary", A),
    "D(0,.3)": (lambda c: ops.Dgate(0.0, 0.3), 1, "unitary", A),
    "S(.25,.3)": (lambda c: ops.Sgate(0.25, 0.3), 1, "unitary", A),
    "S(-.2,0)": (lambda c: ops.Sgate(-0.2, 0.0), 1, "unitary", A),
    "S(0,.4)": (lambda c: ops.Sgate(0.0, 0.4), 1, "unitary", A),
    "R(.7)": (lambda c: ops.Rgate(0.7), 1, "passive", A),
    "R(pi)": (lambda c: ops.Rgate(PI), 1, "passive", A),
    "R(-pi/2)": (lambda c: ops.Rgate(-PI / 2), 1, "passive", A),
    "K(.3)": (lambda c: ops.Kgate(0.3), 1, "passive", F),
    "V(.1)": (lambda c: ops.Vgate(0.1), 1, "unitary", F),
    # composite single-mode gates (decomposed on every backend)
    "X(.3)": (lambda c: ops.Xgate(0.3), 1, "unitary", G),
    "Z(-.2)": (lambda c: ops.Zgate(-0.2), 1, "unitary", G),
    "P(.3)": (lambda c: ops.Pgate(0.3), 1, "unitary", G),
    "F": (lambda c: ops.Fouriergate(), 1, "passive", G),
    # two-mode gates
    "BS(.5,.3)": (lambda c: ops.BSgate(0.5, 0.3), 2, "passive", A),
    "BS(pi/4,pi/2)": (lambda c: ops.BSgate(PI / 4, PI / 2), 2, "passive", A),
    "BS(-.3,0)": (lambda c: ops.BSgate(-0.3, 0.0), 2, "passive", A),
    "BS(0,.3)": (lambda c: ops.BSgate(0.0, 0.3), 2, "passive", A),
    "MZ(.4,.9)": (lambda c: ops.MZgate(0.4, 0.9), 2, "passive", A),
    "MZ(0,.9)": (lambda c: ops.MZgate(0.0, 0.9), 2, "passive", A),
    "S2(.2,.5)": (lambda c: ops.S2gate(0.2, 0.5), 2, "unitary", A),
    "S2(-.15,0)": (lambda c: ops.S2gate(-0.15, 0.0), 2, "unitary", A),
    "CK(.4)": (lambda c: ops.CKgate(0.4), 2, "passive", F),
    "CX(.3)": (lambda c: ops.CXgate(0.3), 2, "unitary", G),
    "CZ(.2)": (lambda c: ops.CZgate(0.2), 2, "unitary", G),
    # channels
    "Loss(.6)": (lambda c: ops.LossChannel(0.6), 1, "loss", A),
    "Loss(0)": (lambda c: ops.LossChannel(0.0), 1, "loss", A),
    "Loss(1)": (lambda c: ops.LossChannel(1.0), 1, "loss", A),
    "TLoss(.6,.4)": (lambda c: ops.ThermalLossChannel(0.6, 0.4), 1, "channel", G),
    # post-selected measurements (deterministic): projection on a coherent state, measured mode reset to vacuum
    "MHet(.3-.5j)": (lambda c: ops.MeasureHeterodyne(select=0.3 - 0.5j), 1, "measure", G),
    "MHet(0)": (lambda c: ops.MeasureHeterodyne(select=0.0), 1, "measure", G),
    "MS(.3,.2,1.2,.8)": (lambda c: ops.MSgate(0.3, 0.2, 1.2, 0.8, avg=True), 1, "channel", ("bosonic",)),
    "PC(.8e^.3i)": (lambda c: ops.PassiveChannel(np.array([[0.8 * np.exp(0.3j)]])), 1, "channel", ("gaussian",)),
}
DAGGERABLE = ["D(.3,.4)", "S(.25,.3)", "R(.7)", "K(.3)", "V(.1)", "X(.3)", "P(.3)", "BS(.5,.3)", "BS(pi/4,pi/2)", "MZ(.4,.9)", "S2(.2,.5)", "CK(.4)", "CX(.3)", "CZ(.2)"]
# reduced alphabets for the deepest level
CORE = ["Coh(.3,.5)", "Sq(.25,.4)", "Th(.3)", "D(.3,.4)", "S(.25,.3)", "R(.7)", "BS(.5,.3)", "BS(.5,.3).H", "MZ(.4,.9)", "MZ(.4,.9).H", "S2(.2,.5)", "S2(.2,.5).H", "Loss(.6)", "TLoss(.6,.4)", "K(.3)", "CK(.4)", "Fock(1)", "Ket2", "CX(.3)", "MHet(.3-.5j)", "Gauss2", "MS(.3,.2,1.2,.8)"]


def make_op(label, c):
    dag = label.endswith(".H")
    base = label[:-2] if dag else label
    op = EVENTS[base][0](c)
    return op.H if dag else op


def family(kind):
    return "fock" if kind.startswith("fock") else kind


def alphabet(kind, n, core=False):
    fam = family(kind)
    labs = []
    for lab, (_, ar, _, allowed) in EVENTS.items():
        if fam in allowed and ar <= n:
            labs.append(lab)
            if lab in DAGGERABLE:
                labs.append(lab + ".H")
    if core:
        labs = [l for l in labs if l in CORE]
    evs = []
    for lab in labs:
        ar = EVENTS[lab[:-2] if lab.endswith(".H") else lab][1]
        for modes in itertools.permutations(range(n), ar):
            evs.append((lab, modes))
    return evs


def op_kind(label):
    return EVENTS[label[:-2] if label.endswith(".H") else label][2]


# ----------------------------------------------------------------------------- implementation side
def new_backend(kind, n, c):
    with warnings.catch_warnings():
        warnings.simplefilter("ignore")
        if kind == "gaussian":
            b = load_backend("gaussian")
            b.begin_circuit(n)
        elif kind == "bosonic":
            b = load_backend("bosonic")
            prog = sf.Program(n)
            with prog.context as q:
                ops.Vacuum() | q[0]
            b.init_circuit(prog)
        else:
            b = load_backend("fock")
            b.begin_circuit(n, cutoff_dim=c, pure=(kind == "fock_pure"))
    return b


_COMP = {}


def decompose(kind, op, modes):
    fam = family(kind)
    if fam not in _COMP:
        _COMP[fam] = compiler_db[fam]()
    reg = [RegRef(m) for m in modes]
    return _COMP[fam].decompose([Command(op, reg)])


def apply_impl(backend, kind, op, modes):
    with warnings.catch_warnings():
        warnings.simplefilter("ignore")
        for cmd in decompose(kind, op, modes):
            cmd.op.apply(cmd.reg, backend)


def xpxp_to_xxpp_idx(n):
    return [2 * i for i in range(n)] + [2 * i + 1 for i in range(n)]


class Obs:
    """Observation of an implementation state through the public state API (hbar = 2)."""

    __slots__ = ("kind", "mu", "V", "weights", "rho", "pure", "nw", "st")

    def __init__(self, backend, kind, n, c):
        self.kind = kind
        with warnings.catch_warnings():
            warnings.simplefilter("ignore")
            st = backend.state()
        self.st = st
        if kind == "gaussian":
            self.mu, self.V = np.array(st.means()), np.array(st.cov())
        elif kind == "bosonic":
            ix = xpxp_to_xxpp_idx(n)
            self.weights = np.array(st.weights())
            self.nw = len(self.weights)
            m, cv = np.array(st.means()), np.array(st.covs())
            self.mu = m[0][ix]
            self.V = cv[0][np.ix_(ix, ix)]
        else:
            self.pure = bool(st.is_pure)
            self.rho = fr.sf_dm_to_flat(st.dm(), n, c)


# ----------------------------------------------------------------------------- reference side
def new_ref(kind, n, c):
    return ph.GState(n) if family(kind) != "fock" else fr.FState(n, c)


def apply_ref(ref, kind, op, modes, obs=None, n=None, c=None):
    """Returns the reference successor (a new object). Where the truncated semantics admits two readings (MZgate)
    the one the implementation realises is chosen; if it realises neither, the first is returned and C01 fires."""
    if family(kind) == "fock":
        cands = focksem.apply_fock_candidates(op, list(modes), ref)
        if obs is not None:
            for cand in cands:
                if not oracle_c01(kind, n, c, cand, obs):
                    return cand
        return cands[0]
    if isinstance(op, ops.MeasureHeterodyne):
        return ref.copy().condition_heterodyne(modes[0], complex(op.select))
    return opsem.apply_gaussian(op, list(modes), ref.copy())


def canon(ref, kind, obs):
    h = hashlib.blake2b(digest_size=16)
    if family(kind) == "fock":
        h.update((np.round(ref.rho.real, 8) + 0.0).tobytes())
        h.update((np.round(ref.rho.imag, 8) + 0.0).tobytes())
        h.update(b"P" if obs.pure else b"M")
    else:
        h.update((np.round(ref.mu, 8) + 0.0).tobytes())
        h.update((np.round(ref.V, 8) + 0.0).tobytes())
        if kind == "bosonic":
            h.update(bytes([min(obs.nw, 255)]))
    return h.digest()


# ----------------------------------------------------------------------------- oracles
def _maxabs(a):
    a = np.asarray(a)
    return float(np.max(np.abs(a))) if a.size else 0.0


def oracle_c01(kind, n, c, ref, obs):
    """implementation state equals reference state"""
    out = []
    if family(kind) == "fock":
        d = _maxabs(obs.rho - ref.rho)
        if not d <= TOL:
            out.append(("dm", f"Fock density matrix differs from truncated-operator reference by {d:.3g}"))
    else:
        scale = max(1.0, _maxabs(ref.V))
        d1, d2 = _maxabs(obs.mu - ref.mu), _maxabs(obs.V - ref.V)
        if not (abs(d1) <= TOL * scale and d2 <= TOL * scale):
            out.append(("meancov", f"means differ by {_maxabs(d1):.3g}, covariance by {d2:.3g} from phase-space reference"))
        if kind == "bosonic":
            if obs.nw != 1 or abs(obs.weights[0] - 1) > TOL:
                out.append(("weights", f"Gaussian program produced weights {obs.weights}"))
            if _maxabs(np.imag(obs.mu)) > TOL or _maxabs(np.imag(obs.V)) > TOL:
                out.append(("complex", "Gaussian program produced complex means/covs"))
    return out


def _red_gauss(mu, V, modes, n):
    ix = ph.idx(modes, n)
    return mu[ix], V[np.ix_(ix, ix)]


def _red_fock(rho, modes, n, c):
    return fr.FState(n, c, rho).reduced(modes)


def oracle_c05(kind, n, c, label, op, modes, before, after, ref_loss=None):
    """spectators untouched; prepared block documented and uncorrelated (differential on implementation data)"""
    out = []
    rest = [m for m in range(n) if m not in modes]
    okind = op_kind(label)
    if family(kind) == "fock":
        tb, ta = float(np.trace(before.rho).real), float(np.trace(after.rho).real)
        if ta > tb + 1e-10 and not (okind == "prep" and not rest):  # preparing the whole register resets the norm
            out.append(("trace-grows", f"trace increased from {tb} to {ta}"))
        if rest:
            rb, ra = _red_fock(before.rho, rest, n, c), _red_fock(after.rho, rest, n, c)
            if okind == "prep":
                # rest marginal scales with the trace of the prepared state
                sig = focksem.prep_dm(op, c)
                ts = float(np.trace(sig).real)
                d = _maxabs(ra - ts * rb)
                if d > 1e-9:
                    out.append(("spectator", f"marginal of modes {rest} changed by {d:.3g} under preparation"))
                # product structure: rho_after == rho_rest (x) sigma
                exp = fr.FState(n, c, before.rho.copy()).prepare(sig, list(modes)).rho
                d = _maxabs(after.rho - exp)
                if d > 1e-9:
                    out.append(("prep-product", f"state after preparation differs from rest (x) documented state by {d:.3g}"))
            else:
                # what may leak into the spectators is the norm that TRUNCATION removes - the loss of the truncated-operator
                # reference for this very transition - not whatever norm the implementation happens to lose
                # (MZgate.H on Fock realises neither truncated reading of the reference - recorded C01 finding - so for the MZ
                # family the implementation's own loss is the only available measure)
                slack = 1e-10 + (max(0.0, tb - ta) if (ref_loss is None or label.startswith("MZ")) else max(0.0, ref_loss) + 1e-9)
                d = _maxabs(ra - rb)
                if d > slack:
                    out.append(("spectator", f"marginal of modes {rest} changed by {d:.3g} (allowed by truncation loss: {slack:.3g})"))
        elif okind == "prep":
            sig = focksem.prep_dm(op, c)
            exp = fr.FState(n, c, before.rho.copy()).prepare(sig, list(modes)).rho
            d = _maxabs(after.rho - exp)
            if d > 1e-9:
                out.append(("prep-product", f"state after preparation differs from documented state by {d:.3g}"))
    elif okind == "measure":
        # differential on implementation data: the conditional update that the selected outcome implies
        exp = ph.GState(n, np.array(before.mu, dtype=float), np.array(before.V, dtype=float)).condition_heterodyne(modes[0], complex(op.select))
        ix = ph.idx(modes, n)
        d = max(_maxabs(after.mu[ix]), _maxabs(after.V[np.ix_(ix, ix)] - np.eye(2)))
        if d > TOL:
            out.append(("measured-mode-not-vacuum", f"measured mode differs from vacuum by {d:.3g}"))
        if rest:
            rx = ph.idx(rest, n)
            d = _maxabs(after.V[np.ix_(ix, rx)])
            if d > 1e-10:
                out.append(("measured-mode-correlated", f"measured mode remains correlated with the rest ({d:.3g})"))
            d1, d2 = _maxabs(after.mu[rx] - exp.mu[rx]), _maxabs(after.V[np.ix_(rx, rx)] - exp.V[np.ix_(rx, rx)])
            if d1 > TOL * max(1.0, _maxabs(exp.mu)):
                out.append(("conditional-mean", f"means of the unmeasured modes differ from the conditional update for the selected outcome by {d1:.3g}"))
            if d2 > TOL * max(1.0, _maxabs(exp.V)):
                out.append(("conditional-cov", f"covariance of the unmeasured modes differs from the conditional update by {d2:.3g}"))
    else:
        if rest:
            mb, Vb = _red_gauss(before.mu, before.V, rest, n)
            ma, Va = _red_gauss(after.mu, after.V, rest, n)
            d = max(_maxabs(ma - mb), _maxabs(Va - Vb))
            if d > 1e-10:
                out.append(("spectator", f"reduced state of modes {rest} changed by {d:.3g}"))
        if okind == "prep":
            mu0, V0 = opsem.prep_local(op)
            ix = ph.idx(modes, n)
            d = max(_maxabs(after.mu[ix] - mu0), _maxabs(after.V[np.ix_(ix, ix)] - V0))
            if d > TOL:
                out.append(("prep-block", f"prepared block differs from documented state by {d:.3g}"))
            if rest:
                rx = ph.idx(rest, n)
                d = _maxabs(after.V[np.ix_(ix, rx)])
                if d > 1e-10:
                    out.append(("prep-correlated", f"prepared modes remain correlated with the rest ({d:.3g})"))
    return out


def oracle_c05_register(kind, n, c, b0, obs0):
    """mode deletion leaves exactly the reduced state of the other modes; a new mode arrives in vacuum, uncorrelated,
    and changes nothing else (differential on implementation data).  Returns [(what, message, pseudo-event)]."""
    out = []
    fock = family(kind) == "fock"
    for m in range(n) if n >= 2 else ():
        rest = [k for k in range(n) if k != m]
        b = copy.deepcopy(b0)
        try:
            with warnings.catch_warnings():
                warnings.simplefilter("ignore")
                b.del_mode([m])
                after = Obs(b, kind, n - 1, c)
        except Exception as e:  # noqa: BLE001
            out.append(("del-raises", f"del_mode([{m}]) raised {type(e).__name__}: {e}", ("Del", (m,))))
            continue
        if fock:
            d = _maxabs(after.rho - _red_fock(obs0.rho, rest, n, c))
        else:
            mb, Vb = _red_gauss(obs0.mu, obs0.V, rest, n)
            d = max(_maxabs(after.mu - mb), _maxabs(after.V - Vb))
        if d > 1e-10:
            out.append(("del-rest", f"after deleting mode {m} the remaining modes differ from their reduced state by {d:.3g}", ("Del", (m,))))
    if not fock or c ** (2 * (n + 1)) <= 2_000_000:
        b = copy.deepcopy(b0)
        try:
            with warnings.catch_warnings():
                warnings.simplefilter("ignore")
                b.add_mode(1)
                after = Obs(b, kind, n + 1, c)
        except Exception as e:  # noqa: BLE001
            out.append(("new-raises", f"add_mode(1) raised {type(e).__name__}: {e}", ("New", ())))
            return out
        if fock:
            vac = np.zeros((c, c))
            vac[0, 0] = 1.0
            d = _maxabs(after.rho - np.kron(obs0.rho, vac))
        else:
            ix = ph.idx(list(range(n)), n + 1)
            nx_ = ph.idx([n], n + 1)
            d = max(_maxabs(after.mu[ix] - obs0.mu), _maxabs(after.V[np.ix_(ix, ix)] - obs0.V), _maxabs(after.mu[nx_]), _maxabs(after.V[np.ix_(nx_, nx_)] - np.eye(2)), _maxabs(after.V[np.ix_(ix, nx_)]))
        if d > 1e-10:
            out.append(("new-mode", f"after adding a mode the state differs from (old state) x vacuum by {d:.3g}", ("New", ())))
    return out


def _nbar_gauss(mu, V, n):
    return [float((V[m, m] + V[m + n, m + n] + mu[m] ** 2 + mu[m + n] ** 2) / 4 - 0.5) for m in range(n)]


def oracle_c07(kind, n, c, label, op, modes, before, after, ref_before, ref_after):
    out = []
    okind = op_kind(label)
    if family(kind) == "fock":
        rho = after.rho
        if _maxabs(rho - rho.conj().T) > 1e-10:
            out.append(("hermitian", "density matrix not Hermitian"))
        else:
            w = np.linalg.eigvalsh((rho + rho.conj().T) / 2)
            if w.min() < -1e-9:
                out.append(("positive", f"density matrix has eigenvalue {w.min():.3g}"))
        ta, tb = float(np.trace(rho).real), float(np.trace(before.rho).real)
        if ta > 1 + 1e-9:
            out.append(("trace>1", f"trace {ta}"))
        if after.pure and abs(np.trace(rho @ rho).real - ta * ta) > 1e-9:
            out.append(("pure-flag", "state flagged pure but Tr rho^2 != (Tr rho)^2"))
        # trace is lost only through truncation: exactly what the truncated-operator reference loses
        loss_impl, loss_ref = tb - ta, ref_before.trace() - ref_after.trace()
        # (MZgate.H on Fock realises another - still unitary - operator than the reference: recorded C01 finding; its own
        # truncation loss is not the reference's, so the comparison is not made for it)
        if abs(loss_impl - loss_ref) > 1e-9 and not (label.startswith("MZ") and label.endswith(".H")):
            out.append(("trace-loss", f"trace changed by {-loss_impl:.3g}, truncation accounts for {-loss_ref:.3g}"))
        eps = max(0.0, loss_impl)
        fa, fb = fr.FState(n, c, rho), fr.FState(n, c, before.rho)
        if okind in ("unitary", "passive"):
            pa, pb = fa.purity_normalised(), fb.purity_normalised()
            if abs(pa - pb) > 1e-9 + 4 * eps / max(ta, 1e-12):
                out.append(("purity", f"unitary gate changed normalised purity {pb:.6g} -> {pa:.6g} (truncation slack {4 * eps:.3g})"))
        if okind == "passive":
            na, nb = fa.total_photon(), fb.total_photon()
            if abs(na - nb) > 1e-9 + n * (c - 1) * eps:
                out.append(("photon-number", f"passive gate changed total <N> {nb:.6g} -> {na:.6g}"))
        if okind == "loss":
            for m in range(n):
                if fa.mean_photon(m) > fb.mean_photon(m) + 1e-9:
                    out.append(("loss-increases", f"loss increased <n_{m}>"))
    else:
        V, mu = after.V, after.mu
        if _maxabs(V - V.T) > 1e-10:
            out.append(("symmetric", f"covariance asymmetric by {_maxabs(V - V.T):.3g}"))
        else:
            w = np.linalg.eigvalsh((V + V.T) / 2 + 1j * ph.omega(n))
            if w.min() < -1e-9:
                out.append(("uncertainty", f"V + i Omega has eigenvalue {w.min():.3g}"))
        if kind == "bosonic" and abs(np.sum(after.weights) - 1) > 1e-9:
            out.append(("weights-sum", f"weights sum to {np.sum(after.weights)}"))
        if okind in ("unitary", "passive"):
            da, db = np.linalg.det(V), np.linalg.det(before.V)
            if abs(da - db) > 1e-9 * max(1.0, abs(db)):
                out.append(("purity", f"unitary gate changed det V {db:.9g} -> {da:.9g}"))
        if okind == "passive":
            na, nb = sum(_nbar_gauss(mu, V, n)), sum(_nbar_gauss(before.mu, before.V, n))
            if abs(na - nb) > 1e-9 * max(1.0, nb):
                out.append(("photon-number", f"passive gate changed total <N> {nb:.9g} -> {na:.9g}"))
        if okind == "loss":
            for a, b in zip(_nbar_gauss(mu, V, n), _nbar_gauss(before.mu, before.V, n)):
                if a > b + 1e-9:
                    out.append(("loss-increases", "loss increased a mean photon number"))
    return out


# ----------------------------------------------------------------------------- expansion of one state
def rebuild(kind, n, c, hist):
    """Replay a history (list of (label, modes)) on a fresh backend and a fresh reference."""
    b = new_backend(kind, n, c)
    ref = new_ref(kind, n, c)
    for lab, modes in hist:
        op = make_op(lab, c)
        apply_impl(b, kind, op, modes)
        ref = apply_ref(ref, kind, make_op(lab, c), modes, Obs(b, kind, n, c) if lab.startswith("MZ") else None, n, c)
    return b, ref


def cls_tag(label):
    t = label.split("(")[0]
    return t + (".H" if label.endswith(".H") else "")


def expand(task):
    """Worker: expand a chunk of states of one configuration. Returns Res with extra = [(key, hist), ...]."""
    prop, kind, n, c, core, hists, last = task
    res = Res()
    res.extra = []
    evs = alphabet(kind, n, core)
    for hist in hists:
        try:
            b0, ref0 = rebuild(kind, n, c, hist)
            obs0 = Obs(b0, kind, n, c)
        except Exception as e:  # a state that was reachable before must be rebuildable
            res.violation(f"{prop}|rebuild-error|{kind}", f"replaying {hist} raised {e!r}", {"kind": kind, "n": n, "c": c, "hist": list(hist)})
            continue
        if prop == "C05":
            for what, msg, pev in oracle_c05_register(kind, n, c, b0, obs0):
                res.violation(f"C05|{what}|{kind}", f"{msg} (state after {[l + str(list(m)) for l, m in hist]}, {kind}, n={n}, c={c})", {"kind": kind, "n": n, "c": c, "hist": [[l, list(m)] for l, m in hist], "event": [pev[0], list(pev[1])]})
            res.n += n + 1
            res.stats[f"register_events:{kind}:n{n}"] += n + 1
        for lab, modes in evs:
            res.n += 1
            res.stats[f"transitions:{kind}:n{n}"] += 1
            case = {"kind": kind, "n": n, "c": c, "hist": [[l, list(m)] for l, m in hist], "event": [lab, list(modes)]}
            op = make_op(lab, c)
            b = copy.deepcopy(b0)
            try:
                apply_impl(b, kind, op, modes)
                obs = Obs(b, kind, n, c)
            except Exception as e:
                res.violation(f"{prop}|raises|{cls_tag(lab)}|{kind}", f"{lab} on {modes} after {hist} raised {type(e).__name__}: {e}", case)
                continue
            ref = apply_ref(ref0, kind, make_op(lab, c), modes, obs, n, c)
            if prop == "C01":
                bad = oracle_c01(kind, n, c, ref, obs)
            elif prop == "C05":
                bad = oracle_c05(kind, n, c, lab, op, modes, obs0, obs, (ref0.trace() - ref.trace()) if family(kind) == "fock" else None)
            else:
                bad = oracle_c07(kind, n, c, lab, op, modes, obs0, obs, ref0, ref)
            # the search graph itself needs implementation == reference, whatever property is judged
            agree = not oracle_c01(kind, n, c, ref, obs) if prop != "C01" else not bad
            for what, msg in bad:
                arr = "desc" if (len(modes) == 2 and modes[0] > modes[1]) else "asc"
                res.violation(f"{prop}|{what}|{cls_tag(lab)}|{kind}" + (f"|{arr}" if len(modes) == 2 else ""), f"{lab} on modes {list(modes)} after {[l + str(list(m)) for l, m in hist]} ({kind}, n={n}, c={c}): {msg}", case)
            if bad or not agree:
                res.stats["pruned_successors"] += 1
                continue
            key = canon(ref, kind, obs)
            res.extra.append((key, hist + ((lab, modes),)))
            # vacuity guards
            if family(kind) != "fock":
                offd = 0.0
                for i in range(n):
                    for j in range(i + 1, n):
                        offd = max(offd, _maxabs(ref.V[np.ix_([i, i + n], [j, j + n])]))
                if offd > 1e-6:
                    res.stats["succ_correlated"] += 1
                if _maxabs(ref.mu) > 1e-6:
                    res.stats["succ_displaced"] += 1
                if abs(np.linalg.det(ref.V) - 1) > 1e-6:
                    res.stats["succ_mixed"] += 1
            else:
                if not obs.pure:
                    res.stats["succ_mixed_repr"] += 1
    return res


def explore(ctx, prop, configs):
    """configs: list of (kind, n, c, depth_full, depth_core). BFS per configuration."""
    total_states, total_trans = 0, 0
    per_cfg = {}
    rng = np.random.RandomState(ctx.seed)
    for kind, n, c, d_full, d_core in configs:
        b0, ref0 = rebuild(kind, n, c, ())
        seen = {canon(ref0, kind, Obs(b0, kind, n, c))}
        frontier = [()]
        levels = []
        depth = 0
        complete = 0
        for depth in range(1, d_full + d_core + 1):
            core = depth > d_full
            if ctx.time_left() < 5:
                ctx.cap_hit(f"{kind} n={n} c={c}: time budget reached before depth {depth}; depth {depth - 1} complete")
                break
            order = list(range(len(frontier)))
            rng.shuffle(order)
            frontier = [frontier[i] for i in order]
            chunk = max(1, min(64, len(frontier) // (ctx.procs * 4) or 1))
            tasks = [(prop, kind, n, c, core, frontier[i : i + chunk], False) for i in range(0, len(frontier), chunk)]
            nxt = []
            t_before = ctx.n
            aborted = False
            for r in ctx.pmap(expand, tasks):
                ctx.add(r)
                for key, hist in r.extra:
                    if key not in seen:
                        seen.add(key)
                        nxt.append(hist)
                if ctx.time_left() < 0:
                    aborted = True
                    break
            if aborted:
                ctx.close()
                ctx.cap_hit(f"{kind} n={n} c={c}: time budget hit inside depth {depth}; depth {depth - 1} complete")
                break
            levels.append({"depth": depth, "alphabet": "core" if core else "full", "expanded_states": len(frontier), "transitions": ctx.n - t_before, "new_states": len(nxt)})
            complete = depth
            frontier = nxt
        per_cfg[f"{kind} n={n} c={c}"] = {"completed_depth": complete, "states": len(seen), "levels": levels, "events_per_state_full": len(alphabet(kind, n)), "events_per_state_core": len(alphabet(kind, n, True))}
        total_states += len(seen)
        if len(ctx.samples) < 6 and frontier:
            ctx.samples.append({"config": f"{kind} n={n} c={c}", "trace": [l + str(list(m)) for l, m in frontier[len(frontier) // 2]]})
    ctx.cov["states"] = total_states
    ctx.cov["transitions"] = ctx.n
    ctx.cov["traces_validated_against_impl"] = ctx.n
    ctx.cov["configurations"] = per_cfg
    ctx.cov["evaluations"] = ctx.n
    ctx.cov["distinct_nontrivial"] = total_states
    ctx.assumptions += [
        "every explored transition is executed on the real simulator (deep copy of the live backend), so every trace is an implementation trace",
        "canonical form = reference state rounded to 1e-8 + representation bits (Fock pure flag, bosonic weight count); sound because a transition is only followed when implementation == reference",
        "parameters from a finite lattice incl. 0, negative values, multiples of pi/2; register sizes 1-3; Fock cutoff 5 (7 thorough)",
        "sf.hbar = 2; numpy/scipy linear algebra trusted; reference gate matrices = expm of the documented generator at an extended cutoff",
    ]


def replay_case(prop, case):
    if case.get("register"):
        return replay_register(prop, case)
    kind, n, c = case["kind"], case["n"], case["c"]
    hist = tuple((l, tuple(m)) for l, m in case["hist"])
    lab, modes = case["event"][0], tuple(case["event"][1])
    res = Res()
    b0, ref0 = rebuild(kind, n, c, hist)
    obs0 = Obs(b0, kind, n, c)
    if lab in ("Del", "New"):
        return [(f"C05|{what}|{kind}", msg) for what, msg, pev in oracle_c05_register(kind, n, c, b0, obs0) if (pev[0], tuple(pev[1])) == (lab, modes)]
    op = make_op(lab, c)
    b = copy.deepcopy(b0)
    try:
        apply_impl(b, kind, op, modes)
        obs = Obs(b, kind, n, c)
    except Exception as e:
        return [(f"{prop}|raises|{cls_tag(lab)}|{kind}", f"{type(e).__name__}: {e}")]
    ref = apply_ref(ref0, kind, make_op(lab, c), modes, obs, n, c)
    if prop == "C01":
        bad = oracle_c01(kind, n, c, ref, obs)
    elif prop == "C05":
        bad = oracle_c05(kind, n, c, lab, op, modes, obs0, obs, (ref0.trace() - ref.trace()) if family(kind) == "fock" else None)
    else:
        bad = oracle_c07(kind, n, c, lab, op, modes, obs0, obs, ref0, ref)
    arr = "desc" if (len(modes) == 2 and modes[0] > modes[1]) else "asc"
    return [(f"{prop}|{what}|{cls_tag(lab)}|{kind}" + (f"|{arr}" if len(modes) == 2 else ""), msg) for what, msg in bad]

# ----------------------------------------------------------------------------- operations after the register changed
# A mode keeps its index for life: after Del / New every operation must still reach the mode it names, through whatever
# renumbering the simulator keeps internally.  Base states with three distinguishable, correlated modes; every sequence of
# <= 2 register events; then EVERY event of the alphabet on every tuple of the surviving indices.
REG_BASES = {
    "gaussian": [
        (("Sq(.25,.4)", (0,)), ("Coh(.3,.5)", (1,)), ("Th(.3)", (2,)), ("BS(.5,.3)", (0, 1)), ("S2(.2,.5)", (1, 2))),
        (("Coh(.3,.5)", (0,)), ("Sq(.25,.4)", (2,)), ("BS(.5,.3)", (2, 0)), ("D(.3,.4)", (1,)), ("BS(.5,.3)", (1, 2))),
    ],
    "fock": [
        (("Fock(1)", (0,)), ("Coh(.3,.5)", (1,)), ("BS(.5,.3)", (0, 1)), ("Sq(.25,.4)", (2,)), ("BS(.5,.3)", (1, 2))),
        (("Coh(.3,.5)", (0,)), ("Th(.3)", (2,)), ("BS(.5,.3)", (2, 0)), ("D(.3,.4)", (1,)), ("S2(.2,.5)", (1, 2))),
    ],
}
REG_BASES["bosonic"] = REG_BASES["gaussian"]
REG_EVENTS = [(("Del", 0),), (("Del", 1),), (("Del", 2),), (("New",),), (("Del", 0), ("New",)), (("Del", 1), ("Del", 0)), (("New",), ("Del", 1)), (("Del", 0), ("Del", 2))]


def _ref_register(ref, kind, c, ext, ev):
    """reference side of a register event; ext = external indices of the active modes in position order"""
    fock = family(kind) == "fock"
    n = len(ext)
    if ev[0] == "Del":
        pos = ext.index(ev[1])
        rest = [k for k in range(n) if k != pos]
        if fock:
            new = fr.FState(n - 1, c, ref.reduced(rest))
        else:
            mu, V = ref.reduced(rest)
            new = ph.GState(n - 1, mu, V)
        return new, [e for e in ext if e != ev[1]]
    if fock:
        vac = np.zeros((c, c))
        vac[0, 0] = 1.0
        new = fr.FState(n + 1, c, np.kron(ref.rho, vac))
    else:
        new = ph.GState(n + 1)
        ix = ph.idx(list(range(n)), n + 1)
        new.mu[ix] = ref.mu
        new.V[np.ix_(ix, ix)] = ref.V
    return new, ext + [max(ext + [ev[2]]) + 1]


def expand_register(task):
    prop, kind, c, base, revs = task
    res = Res()
    n = 3
    fam = family(kind)
    case0 = {"register": True, "kind": kind, "n": n, "c": c, "hist": [[l, list(m)] for l, m in base], "reg_events": [list(e) for e in revs]}
    b0, ref0 = rebuild(kind, n, c, base)
    ext, top = [0, 1, 2], 2
    try:
        with warnings.catch_warnings():
            warnings.simplefilter("ignore")
            for ev in revs:
                if ev[0] == "Del":
                    b0.del_mode([ev[1]])
                    ref0, ext = _ref_register(ref0, kind, c, ext, ev)
                else:
                    b0.add_mode(1)
                    ref0, ext = _ref_register(ref0, kind, c, ext, ("New", None, top))
                    top += 1
            k = len(ext)
            obs0 = Obs(b0, kind, k, c)
    except Exception as e:  # noqa: BLE001
        res.violation(f"{prop}|register-raises|{kind}", f"register events {revs} after {base} raised {type(e).__name__}: {e}", dict(case0, event=None))
        return res
    tagr = "+".join(e[0] for e in revs)
    res.n += 1
    if oracle_c01(kind, k, c, ref0, obs0):
        if prop == "C01":
            res.violation(f"C01|register|{tagr}|{kind}", f"after register events {revs} on {[l + str(list(m)) for l, m in base]} the state differs from the reference ({oracle_c01(kind, k, c, ref0, obs0)[0][1]})", dict(case0, event=None))
        return res
    for lab, pos in alphabet(kind, k):
        res.n += 1
        res.nt += 1
        res.stats[f"register_transitions:{kind}"] += 1
        modes = tuple(ext[q] for q in pos)
        case = dict(case0, event=[lab, list(modes)])
        op = make_op(lab, c)
        b = copy.deepcopy(b0)
        try:
            apply_impl(b, kind, op, modes)
            obs = Obs(b, kind, k, c)
        except Exception as e:  # noqa: BLE001
            res.violation(f"{prop}|raises|{cls_tag(lab)}|{kind}|after-{tagr}", f"{lab} on modes {list(modes)} after register events {revs} raised {type(e).__name__}: {e}", case)
            continue
        ref = apply_ref(ref0, kind, make_op(lab, c), pos, obs, k, c)
        if prop == "C01":
            bad = oracle_c01(kind, k, c, ref, obs)
        elif prop == "C05":
            bad = oracle_c05(kind, k, c, lab, op, pos, obs0, obs, (ref0.trace() - ref.trace()) if fam == "fock" else None)
        else:
            bad = oracle_c07(kind, k, c, lab, op, pos, obs0, obs, ref0, ref)
        for what, msg in bad:
            arr = ("|desc" if pos[0] > pos[1] else "|asc") if len(pos) == 2 else ""
            # the MZ family keeps the signature of the main search (its Fock dagger is a recorded finding, whatever the history)
            sig = f"{prop}|{what}|{cls_tag(lab)}|{kind}{arr}" + ("" if lab.startswith("MZ") else f"|after-{tagr}")
            res.violation(sig, f"{lab} on modes {list(modes)} (active modes {ext}) after register events {revs} on {[l + str(list(m)) for l, m in base]} ({kind}, c={c}): {msg}", case)
    res.sample({"register_events": [list(e) for e in revs], "base": [l + str(list(m)) for l, m in base], "simulator": kind}, cap=1)
    return res


def explore_register(ctx, prop, quick):
    tasks = []
    for kind in ("gaussian", "bosonic", "fock_pure", "fock_mixed"):
        for base in REG_BASES[family(kind)]:
            if kind == "fock_pure" and any(l.startswith("Th") for l, _ in base):
                continue
            for revs in REG_EVENTS if not quick else REG_EVENTS[:6]:
                tasks.append((prop, kind, 5, base, revs))
    n0 = ctx.n
    for r in ctx.pmap(expand_register, tasks):
        ctx.add(r)
        if ctx.time_left() < 0:
            ctx.close()
            ctx.cap_hit("time budget hit in the register-history part")
            break
    ctx.cov["register_history_transitions"] = ctx.n - n0
    ctx.cov["transitions"] = ctx.n
    ctx.cov["traces_validated_against_impl"] = ctx.n
    ctx.cov["evaluations"] = ctx.n


def replay_register(prop, case):
    base = tuple((l, tuple(m)) for l, m in case["hist"])
    revs = tuple(tuple(e) for e in case["reg_events"])
    r = expand_register((prop, case["kind"], case["c"], base, revs))
    return [(s, w) for s, w, c in r.viol if c.get("event") == case.get("event")]
