"""C06, bosonic simulator: SAMPLED homodyne / heterodyne on non-Gaussian states (rejection sampler of measure_dyne).

The sampler draws a peak of the linear combination (numpy.random.choice), a phase-space point from that peak
(numpy.random.multivariate_normal) and a height (numpy.random.random), and keeps the point if the height is below the
exact density.  The harness owns all three draws.  Per (state, measurement) it enumerates
  (1) every peak the sampler can pick (every entry of the requested probability vector above 1e-12): the proposal
      density g(x) = sum_k p_k N(x; m_k, C_k) is reconstructed from the ARGUMENTS of the draws;
  (2) a menu of phase-space points x (centres of the three likeliest peaks, one standard deviation off, a fixed
      point): the acceptance probability a(x) is located by bisection over the answered height (44 answers per x);
and decides, on every x, the law of the returned outcome: a(x) g(x) must be proportional to the Born density of the
pre-measurement state (one constant per measurement, a(x) <= 1).  The Born density is computed by the harness from
the state's published weights/means/covariances before the measurement (those are judged against the dense Fock
reference by C16) with the documented measurement covariance.  For the most easily accepted x the returned value and the
conditional state of the other mode (total weight, first and second moments, Wigner function on a grid, measured
mode in vacuum) are compared with the harness's own conditional mixture.
States: cat states in the real and the complex representation (weights of alternating sign / complex means),
Fock(2), a GKP state; alone or entangled with a second mode; either mode measured.
"""
import math
import warnings

import numpy as np

import strawberryfields as sf
from strawberryfields import ops

from mc.checks import physics
from mc.core.chooser import Chooser, DrawCap, default_menu
from mc.core.ctx import Res

PI = np.pi
EPS = 2e-4
PREPS = {
    "catR(1,0,0)": lambda: ops.Catstate(1.0, 0.0, 0, representation="real"),
    "catR(1,.7,1)": lambda: ops.Catstate(1.0, 0.7, 1, representation="real"),
    "catR(.6,0,1)": lambda: ops.Catstate(0.6, 0.0, 1, representation="real"),
    "catR(1.5,.7,0)": lambda: ops.Catstate(1.5, 0.7, 0, representation="real"),
    "catC(1,0,0)": lambda: ops.Catstate(1.0, 0.0, 0),
    "catC(1,.7,1)": lambda: ops.Catstate(1.0, 0.7, 1),
    "catC(.6,.7,.5)": lambda: ops.Catstate(0.6, 0.7, 0.5),
    "Fock(2)": lambda: ops.Fock(2),
    "GKP(.4)": lambda: ops.GKP(epsilon=0.4),
    "Coh(.3,.5)": lambda: ops.Coherent(0.3, 0.5),
}
QUICK_PREPS = ["catR(1,0,0)", "catR(1,.7,1)", "catR(1.5,.7,0)", "catC(1,.7,1)", "Fock(2)", "Coh(.3,.5)"]
CONFIGS = [(1, None, 0), (2, ("BS(.5,.3)", (0, 1)), 0), (2, ("BS(.5,.3)", (0, 1)), 1), (2, ("BS(.5,.3)", (1, 0)), 1), (2, ("S2(.2,.5)", (0, 1)), 1)]
MEAS = [("hom", 0.0), ("hom", PI / 2), ("hom", 0.4), ("het", None)]
WPTS = np.array([[0.0, 0.0], [0.7, -0.4], [-1.1, 0.9], [1.6, 0.3], [0.2, 1.8]])
BISECT = 44


def build(prep, n, ent, meas=None, mode=0):
    prog = sf.Program(n)
    with warnings.catch_warnings():
        warnings.simplefilter("ignore")
        with prog.context as q:
            PREPS[prep]() | q[0]
            if ent is not None:
                physics.make_op(ent[0], 0) | tuple(q[m] for m in ent[1])
            if meas is not None:
                (ops.MeasureHomodyne(meas[1]) if meas[0] == "hom" else ops.MeasureHeterodyne()) | q[mode]
    return prog


def run(prog):
    with warnings.catch_warnings():
        warnings.simplefilter("ignore")
        return sf.Engine("bosonic").run(prog)


def mix_density(w, m, C, pts):
    """sum_k w_k N(pt; m_k, C_k) for complex weights/means; pts [P, d]"""
    w, m, C = np.asarray(w, dtype=complex), np.asarray(m, dtype=complex), np.asarray(C, dtype=complex)
    inv = np.linalg.inv(C)
    pre = 1 / np.sqrt(np.linalg.det(2 * PI * C))
    out = []
    for x in np.atleast_2d(pts):
        d = x[None, :] - m
        out.append(np.sum(w * pre * np.exp(-0.5 * np.einsum("kj,kji,ki->k", d, inv, d))))
    return np.array(out)


def state_data(st, n):
    """weights, means, covs of a bosonic state, xpxp ordering (as published by the state object)"""
    return np.array(st.weights(), dtype=complex), np.array(st.means(), dtype=complex), np.array(st.covs(), dtype=complex)


def rotate_mode(m, C, mode, theta):
    """phase rotation by theta on one mode of an xpxp mixture"""
    d = m.shape[1]
    R = np.eye(d)
    c, s = math.cos(theta), math.sin(theta)
    R[2 * mode : 2 * mode + 2, 2 * mode : 2 * mode + 2] = [[c, -s], [s, c]]
    return m @ R.T, R @ C @ R.T


def condition(w, m, C, mode, y, M):
    """conditional mixture of the other modes for outcome y of a general-dyne measurement with covariance M; the measured
    mode is returned in vacuum"""
    d = m.shape[1]
    B = [2 * mode, 2 * mode + 1]
    A = [i for i in range(d) if i not in B]
    CB = C[:, B][:, :, B] + M
    inv = np.linalg.inv(CB)
    diff = y[None, :] - m[:, B]
    like = 1 / np.sqrt(np.linalg.det(2 * PI * CB)) * np.exp(-0.5 * np.einsum("kj,kji,ki->k", diff, inv, diff))
    w2 = w * like
    w2 = w2 / np.sum(w2)
    m2 = np.zeros_like(m)
    C2 = np.zeros_like(C)
    if A:
        X = C[:, A][:, :, B]
        K = X @ inv
        m2[:, A] = m[:, A] + np.einsum("kij,kj->ki", K, diff)
        CA = C[:, A][:, :, A] - K @ np.transpose(X, (0, 2, 1))
        for i, a in enumerate(A):
            C2[:, a, A] = CA[:, i, :]
    for b in B:
        C2[:, b, b] = 1.0
    return w2, m2, C2


def moments(w, m, C):
    return np.sum(w), np.einsum("i,ij->j", w, m), np.einsum("i,ijk->jk", w, C) + np.einsum("i,ij,ik->jk", w, m, m)


class Script:
    """answers for the first round of the sampler (peak position, point, height); later rounds: likeliest peak, its centre,
    accept"""

    def __init__(self, k=None, x=None, u=1e-9):
        self.k, self.x, self.u = k, x, u
        self.count = {"choice": 0, "multivariate_normal": 0, "random": 0}

    def __call__(self, fn, a):
        first = fn in self.count and self.count[fn] == 0
        if fn in self.count:
            self.count[fn] += 1
        if fn == "choice" and a["p"] is not None:
            arr = np.arange(a["a"]) if np.isscalar(a["a"]) else np.asarray(a["a"])
            k = self.k if (first and self.k is not None) else int(np.argmax(a["p"]))
            return [arr[k] if a["size"] is None else np.full(a["size"], arr[k])]
        if fn == "multivariate_normal":
            if first and self.x is not None:
                return [np.array(self.x, dtype=float)]
            mean = np.asarray(a["mean"], dtype=float)
            return [mean.copy() if first else mean + np.array([0.5, 0.3] + [0.0] * (len(mean) - 2))]  # off-centre: the density may vanish at a centre
        if fn == "random":
            u = self.u if first else 1e-9
            return [u if a["size"] is None else np.full(a["size"], u)]
        return default_menu(fn, a)


def execute(prog, script):
    ch = Chooser((), script, cap=60)
    with ch:
        try:
            r = run(prog)
        except DrawCap:
            return ch, None
    return ch, r


def structure_ok(ch):
    fns = [d.fn for d in ch.draws]
    return len(fns) >= 3 and len(fns) % 3 == 0 and all(fns[i : i + 3] == ["choice", "multivariate_normal", "random"] for i in range(0, len(fns), 3))


def case_run(prep, config, meas, res, prop="C06"):
    n, ent, mode = config
    case = {"bosonic_sampled": True, "prep": prep, "n": n, "ent": None if ent is None else [ent[0], list(ent[1])], "mode": mode, "meas": [meas[0], meas[1]]}
    tag = f"{'homodyne' if meas[0] == 'hom' else 'heterodyne'}|bosonic|{'non-gaussian' if not prep.startswith('Coh') else 'gaussian'}"
    desc = f"{prep} on mode 0" + (f" ; {ent[0]}{list(ent[1])}" if ent else "") + f" ; sampled {'MeasureHomodyne(%.3g)' % meas[1] if meas[0] == 'hom' else 'MeasureHeterodyne'} on mode {mode}"
    # pre-measurement state as published by the simulator, and the Born density of the outcome from it
    w, m, C = state_data(run(build(prep, n, ent)).state, n)
    if meas[0] == "hom":
        m, C = rotate_mode(m, C, mode, -meas[1])
        M = np.diag([EPS**2, 1 / EPS**2])
    else:
        M = np.eye(2)
    B = [2 * mode, 2 * mode + 1]
    born = lambda pts: mix_density(w, m[:, B], C[:, B][:, :, B] + M, pts)  # noqa: E731
    prog = build(prep, n, ent, meas, mode)
    res.n += 1
    ch0, r0 = execute(prog, Script())
    if r0 is None or not structure_ok(ch0):
        res.stats["unrecognised_sampling_structure"] += 1
        return
    p = np.asarray(ch0.draws[0].args["p"], dtype=float)
    peaks = [k for k in range(len(p)) if p[k] > 1e-12]
    # (1) every peak the sampler can pick: proposal density from the arguments of the draws
    gm, gC = [], []
    for k in peaks:
        res.n += 1
        ch, r = execute(prog, Script(k=k))
        if r is None or not structure_ok(ch):
            res.stats["unrecognised_sampling_structure"] += 1
            return
        a = ch.draws[1].args
        gm.append(np.asarray(a["mean"], dtype=float))
        gC.append(np.asarray(a["cov"], dtype=float))
    gm, gC = np.array(gm), np.array(gC)
    g = lambda pts: mix_density(p[peaks], gm, gC, pts).real  # noqa: E731
    top = [peaks[i] for i in np.argsort(-p[peaks])[:3]]
    X = [gm[peaks.index(k)].copy() for k in top]
    sd = math.sqrt(max(gC[peaks.index(top[0])][0, 0], 0.0))
    X.append(X[0] + np.array([sd, 0.0 if meas[0] == "hom" else 0.5 * sd]))
    X.append(np.array([0.37, 0.1]))
    X.append(np.array([-0.9, -0.3]))
    # (2) acceptance probability on every point of the menu
    acc = []
    for i, x in enumerate(X):
        lo, hi = 0.0, 1.0
        for _ in range(BISECT):
            mid = 0.5 * (lo + hi)
            res.n += 1
            ch, r = execute(prog, Script(x=x, u=mid))
            if r is None or not structure_ok(ch):
                res.stats["unrecognised_sampling_structure"] += 1
                return
            if len(ch.draws) == 3:
                lo = mid
            else:
                hi = mid
        acc.append(0.5 * (lo + hi))
    acc = np.array(acc)
    bx = born(np.array(X))
    if np.max(np.abs(bx.imag)) > 1e-7 * max(1e-30, np.max(np.abs(bx.real))):
        res.stats["born_reference_not_real"] += 1
        return
    bx = bx.real
    law = acc * g(np.array(X))
    c = float(law @ bx / (bx @ bx))
    dev = np.abs(law - c * bx) / np.max(np.abs(c * bx))
    res.stats["acceptance_law_deviation_below_1e%d" % max(-12, min(0, math.ceil(math.log10(max(float(np.max(dev)), 1e-300)))))] += 1
    if np.max(dev) > 1e-5 or c <= 0:
        i = int(np.argmax(dev))
        res.violation(
            f"{prop}|{tag}|sampled|born-distribution",
            f"{desc}: the rejection sampler proposes from g (reconstructed from its draws: {len(peaks)} peaks) and accepts with probability a; a*g must be proportional to the Born density. At x={np.round(X[i], 4).tolist()}: a={acc[i]:.6g}, g={g(np.array([X[i]]))[0]:.6g}, Born={bx[i]:.6g}, constant fitted over {len(X)} points {c:.6g}, relative deviation {dev[i]:.3g}",
            case,
        )
    # (3) returned value and conditional state for the point of the menu that is accepted most easily
    x = X[int(np.argmax(acc))]
    res.n += 1
    ch, r = execute(prog, Script(x=x, u=1e-9))
    if r is None or len(ch.draws) != 3:
        res.stats["no_accepted_point_for_the_conditional_state"] += 1
        return
    val = np.ravel(r.samples)[0]
    want = x[0] if meas[0] == "hom" else (x[0] + 1j * x[1]) / 2
    if abs(complex(val) - want) > 1e-9:
        res.violation(f"{prop}|{tag}|sampled|returned-value", f"{desc}: the sampler accepted {x.tolist()} and the measurement returned {val} (expected {want})", case)
    w2, m2, C2 = condition(w, m, C, mode, x, M)
    wi, mi, Ci = state_data(r.state, n)
    tw, tm, tS = moments(w2, m2, C2)
    iw, im, iS = moments(wi, mi, Ci)
    dd = max(abs(tw - iw), float(np.max(np.abs(tm - im))), float(np.max(np.abs(tS - iS))))
    for md in range(n):
        idx = [2 * md, 2 * md + 1]
        wr = mix_density(w2, m2[:, idx], C2[:, idx][:, :, idx], WPTS)
        wg = mix_density(wi, mi[:, idx], Ci[:, idx][:, :, idx], WPTS)
        dd = max(dd, float(np.max(np.abs(wr - wg))))
    res.stats["conditional_state_deviation_below_1e%d" % max(-12, min(0, math.ceil(math.log10(max(dd, 1e-300)))))] += 1
    if dd > 1e-6:
        res.violation(f"{prop}|{tag}|sampled|conditional-state", f"{desc}, outcome {np.round(x, 4).tolist()}: total weight / moments / Wigner function of the post-state differ from the reference conditional mixture by {dd:.3g}", case)


def tasks(quick):
    items = []
    for prep in QUICK_PREPS if quick else PREPS:
        for cfg in CONFIGS[:3] if quick else CONFIGS:
            for meas in MEAS:
                items.append((prep, cfg, meas))
    return [("bsamp", "bosonic", 2, items[i : i + 3]) for i in range(0, len(items), 3)]


def work(items, prop="C06"):
    res = Res()
    for it in items:
        n0 = res.n
        case_run(*it, res, prop)
        res.nt += res.n - n0
        res.sample({"bosonic_sampled": True, "prep": it[0], "config": str(it[1]), "measurement": it[2][0]}, cap=1)
    return res


def replay(case, prop="C06"):
    res = Res()
    ent = None if case["ent"] is None else (case["ent"][0], tuple(case["ent"][1]))
    case_run(case["prep"], (case["n"], ent, case["mode"]), (case["meas"][0], case["meas"][1]), res, prop)
    return [(s, w) for s, w, c in res.viol]
