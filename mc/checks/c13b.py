"""C13, crop / delay bookkeeping of single-spatial-mode loop programs.

Family: every loop structure of a small set (one and two consecutive loops, delays 1-3) x EVERY assignment of the
beamsplitter arrays over an alphabet {0 (light enters the loop), 0.7, pi/2 (light bypasses the loop)} for T time bins,
all input pulses squeezed.  Reference: my explicit loop with a fresh mode per pulse (same construction as part S); the
"first computational mode" is the first measured pulse whose reduced state is not vacuum.  Oracles:
  get_delays() == the delays the program was built with;
  get_crop_value() == number of measured pulses in vacuum before the first non-vacuum one;
  run(crop=True) returns exactly the uncropped samples with the first get_crop_value() bins removed (routing by ordinals);
  run(space_unroll=True, crop=True, shots=None) returns the state of the pulses from the crop value on.
"""
import itertools
import warnings

import numpy as np

import strawberryfields as sf
from strawberryfields import ops

from mc.checks.c13 import SeqChooser
from mc.core.ctx import Res
from mc.ref import opsem, phase as ph

PI = np.pi
STRUCTS = [(1,), (2,), (3,), (1, 1), (1, 2), (2, 1)]
R = 0.5


def roles_of(D):
    n = [sum(D)]
    for d in D:
        n.append(n[-1] - d)
    return n  # n[0] = N-1 ... n[-1] = 0


def T_of(alphas):
    return max(len(a) for a in alphas if not isinstance(a, float))


def at(a, t):
    return a if isinstance(a, float) else a[t]


def build(D, alphas):
    N = sum(D) + 1
    n = roles_of(D)
    prog = sf.TDMProgram(N=N)
    with warnings.catch_warnings():
        warnings.simplefilter("ignore")
        arrs = [list(a) for a in alphas if not isinstance(a, float)]
        with prog.context(*arrs, [0.0] * T_of(alphas)) as (p, q):
            k = 0
            ops.Sgate(R, 0.0) | q[n[0]]
            for i in range(len(D)):
                if isinstance(alphas[i], float):
                    ops.BSgate(alphas[i], 0.0) | (q[n[i + 1]], q[n[i]])  # a constant angle, not a per-bin array
                else:
                    ops.BSgate(p[k], 0.0) | (q[n[i + 1]], q[n[i]])
                    k += 1
            ops.MeasureHomodyne(0.0) | q[0]
    return prog


def explicit(D, alphas):
    """fresh mode per pulse; returns the Gaussian state and the mode ids of the measured pulses in bin order"""
    T = T_of(alphas)
    N = sum(D) + 1
    n = roles_of(D)
    roles = list(range(N))
    nxt = N
    cmds, outs = [], []
    for t in range(T):
        cmds.append((ops.Sgate(R, 0.0), [roles[n[0]]]))
        for i in range(len(D)):
            cmds.append((ops.BSgate(at(alphas[i], t), 0.0), [roles[n[i + 1]], roles[n[i]]]))
        outs.append(roles[0])
        roles[0] = nxt
        nxt += 1
        roles = roles[1:] + roles[:1]
    gs = ph.GState(nxt)
    for op, modes in cmds:
        opsem.apply_gaussian(op, modes, gs)
    return gs, outs


def check(D, alphas, engine, res):
    case = {"crop": True, "D": list(D), "alphas": [a if isinstance(a, float) else list(map(float, a)) for a in alphas], "engine": engine}
    T = T_of(alphas)
    gs, outs = explicit(D, alphas)
    first = T
    for t, m in enumerate(outs):
        mu, V = gs.reduced([m])
        if np.max(np.abs(V - np.eye(2))) > 1e-9 or np.max(np.abs(mu)) > 1e-9:
            first = t
            break
    prog = build(D, alphas)
    tag = "x".join(map(str, D))
    try:
        with warnings.catch_warnings():
            warnings.simplefilter("ignore")
            delays = [int(x) for x in prog.get_delays()]
            crop = int(prog.get_crop_value())
    except Exception as e:  # noqa: BLE001
        res.violation(f"C13|crop|raises|{type(e).__name__}", f"get_delays/get_crop_value raised {e!r} for loops {list(D)}, arrays {case['alphas']}", case)
        return
    if delays != list(D):
        res.violation(f"C13|get_delays|loops={tag}", f"get_delays() = {delays} for a program built with loop delays {list(D)}", case)
    if crop != first:
        flat = [x for a in alphas for x in ([a] if isinstance(a, float) else a)]
        kind = "constant-angle" if any(isinstance(a, float) for a in alphas) else ("pi" if any(abs(x - PI) < 1e-12 for x in flat) else ("bypass" if any(abs(x - PI / 2) < 1e-12 for x in flat) else "plain"))
        res.violation(f"C13|get_crop_value|loops={tag}|{kind}", f"get_crop_value() = {crop}, but in the explicit loop (delays {list(D)}, arrays {case['alphas']}) the first measured pulse that is not vacuum is bin {first}", case)
        return
    if not engine:
        return
    # engine: cropped samples are the uncropped ones without the first `crop` bins
    S = {}
    for c in (False, True):
        prog = build(D, alphas)
        eng = sf.Engine("gaussian")
        try:
            with warnings.catch_warnings():
                warnings.simplefilter("ignore")
                with SeqChooser():
                    S[c] = np.array(eng.run(prog, shots=1, crop=c).samples)
        except Exception as e:  # noqa: BLE001
            res.violation(f"C13|crop|run-raises|{type(e).__name__}", f"run(crop={c}) raised {e!r} for loops {list(D)}", case)
            return
    exp = np.arange(T, dtype=float).reshape(1, 1, T)
    if S[False].shape != exp.shape or np.max(np.abs(S[False] - exp)) > 1e-9:
        return  # routing itself is judged by part N
    if S[True].shape != (1, 1, T - crop) or (T - crop and np.max(np.abs(S[True] - exp[:, :, crop:])) > 1e-9):
        res.violation(f"C13|crop|samples|loops={tag}", f"run(crop=True) returned {S[True].tolist()}, the uncropped pulses from bin {crop} on are {exp[:, :, crop:].tolist()}", case)
    # space-unrolled, no sampling: the state holds the pulses from the crop value on
    if crop < T:
        prog = build(D, alphas)
        # drop the measurement so that the pulses themselves are returned
        try:
            with warnings.catch_warnings():
                warnings.simplefilter("ignore")
                st = sf.Engine("gaussian").run(prog, shots=None, space_unroll=True, crop=True).state
            mu_r, V_r = gs.reduced(outs[crop:])
            if st.num_modes != T - crop:
                res.violation(f"C13|crop|state-modes|loops={tag}", f"space-unrolled cropped run returned {st.num_modes} modes, expected the {T - crop} pulses from bin {crop} on", case)
            else:
                d = max(np.max(np.abs(np.array(st.means()) - mu_r)), np.max(np.abs(np.array(st.cov()) - V_r)))
                if d > 1e-9:
                    res.violation(f"C13|crop|state|loops={tag}", f"state of the space-unrolled cropped run differs from the explicit loop's pulses {crop}..{T - 1} by {d:.3g}", case)
        except Exception as e:  # noqa: BLE001
            res.violation(f"C13|crop|state-raises|{type(e).__name__}", f"run(shots=None, space_unroll=True, crop=True) raised {e!r} for loops {list(D)}", case)


def tasks(quick):
    T = 4 if quick else 5
    alpha = [0.0, 0.7, PI / 2]
    out = []
    for D in STRUCTS:
        # the value pi (no mixing, like 0) on single loops; on two loops in the thorough tier (with 4 bins)
        al = alpha + [PI] if len(D) == 1 else alpha
        arrays = list(itertools.product(al, repeat=T))
        combos = list(itertools.product(arrays, repeat=len(D)))
        if len(D) == 2 and not quick:
            a4 = list(itertools.product(alpha + [PI], repeat=4))
            combos += [c for c in itertools.product(a4, repeat=2) if any(x == PI for a in c for x in a)]
        if len(D) == 2:
            # one of the two loops with a constant angle instead of an array
            base = list(itertools.product(alpha, repeat=T))
            combos += [(c, a) for c in (0.0, 0.7) for a in base] + [(a, c) for c in (0.0, 0.7) for a in base]
        else:
            combos += [(c,) for c in (0.0, 0.7)] if False else []
        ch = max(1, len(combos) // 12)
        for i in range(0, len(combos), ch):
            out.append(("crop", D, combos[i : i + ch], quick))
    return out


def work(task):
    _, D, combos, quick = task
    res = Res()
    for k, alphas in enumerate(combos):
        res.n += 1
        # engine-level oracles on every third program with a leading zero (where cropping does something); in thorough on
        # every such single-loop program
        lead = any(at(a, 0) == 0.0 for a in alphas)
        check(D, alphas, (lead and (k % 3 == 0 or (not quick and len(D) == 1))), res)
        if lead:
            res.nt += 1
            res.sample({"crop": True, "delays": list(D), "arrays": [a if isinstance(a, float) else list(map(float, a)) for a in alphas]}, cap=1)
    return res


def replay(case):
    res = Res()
    check(tuple(case["D"]), [a if isinstance(a, float) else tuple(a) for a in case["alphas"]], case["engine"], res)
    return [(s, w) for s, w, _ in res.viol]
