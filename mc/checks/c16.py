"""C16 - state observables are consistent with each other and across representations.

Form E x S.  States: every state reached by <= 2 operations of a small-amplitude Gaussian alphabet on 2 modes (and
<= 1 on 3 modes for the phase-space representations), deduplicated, built on the Gaussian, bosonic and Fock
simulators.  Queries: every BaseState observable x every non-empty subset and order of modes the method accepts x
small argument alphabets.  Oracle: each answer equals an independent reference (closed Gaussian formulas and a dense
truncated Fock reference built from the same history); identities between methods of one state; a method asked about
a subset answers for that subset (same method on backend.state(modes=S)); queries do not mutate the state.
"""
import itertools
import math
import warnings

import numpy as np

import strawberryfields as sf

from mc.checks import physics
from mc.core.ctx import Res
from mc.ref import focksem, fockref as fr, opsem, phase as ph

ID = "C16"
LEVEL = "model_checking"
RULE = __doc__
PI = np.pi
CUT = 12
QC = 5  # cutoff passed to Fock-basis queries of phase-space states
ALPH = ["Coh(.3,.5)", "Sq(.25,.4)", "Th(.3)", "D(.3,.4)", "R(.7)", "BS(.5,.3)", "S2(.2,.5)", "Loss(.6)"]
PHIS = [0.0, 0.4, PI / 2]
XV = np.array([-1.0, -0.4, 0.0, 0.3, 0.9, 1.4, 2.0])
PV = np.array([-0.8, -0.1, 0.2, 0.7, 1.5])
ALPHAS = {2: [(0j, 0j), (0.3 + 0.1j, -0.2j)], 3: [(0j, 0j, 0j), (0.3 + 0.1j, -0.2j, 0.1 + 0j)], 1: [(0j,), (0.3 + 0.1j,)]}


def histories(n, depth):
    evs = [(l, m) for l in ALPH for m in itertools.permutations(range(n), physics.EVENTS[l][1])]
    seen, out = set(), []
    for k in range(0, depth + 1):
        for hist in itertools.product(evs, repeat=k):
            ref = ph.GState(n)
            for lab, modes in hist:
                opsem.apply_gaussian(physics.make_op(lab, 0), list(modes), ref)
            key = (np.round(ref.mu, 8) + 0.0).tobytes() + (np.round(ref.V, 8) + 0.0).tobytes()
            if key not in seen:
                seen.add(key)
                out.append(hist)
    return out


def subsets(n):
    for k in range(1, n + 1):
        for s in itertools.permutations(range(n), k):
            yield list(s)


def patterns(n, tot=2):
    return [p for p in itertools.product(range(tot + 1), repeat=n) if sum(p) <= tot]


# ----------------------------------------------------------------------------- reference values
def reference(gs, fs, n):
    """key -> value from the phase-space reference gs (hbar = 2) and the dense Fock reference fs (cutoff CUT)"""
    R = {}
    probs = fs.fock_probs()
    for m in range(n):
        mu, V = gs.reduced([m])
        mean = (np.trace(V) + mu @ mu) / 4 - 0.5
        var = (np.trace(V @ V) + 2 * mu @ V @ mu) / 8 - 0.25
        R[("mean_photon", m)] = np.array([mean, var])
        R[("number_expectation", (m,))] = np.array([mean, var])
        for phi in PHIS:
            R[("quad_expectation", m, phi)] = np.array(gs.homodyne_dist(m, phi))
        Vi = np.linalg.inv(V)
        X, Pp = np.meshgrid(XV, PV, indexing="ij")  # documented: [len(xvec), len(pvec)]
        dx, dp = X - mu[0], Pp - mu[1]
        R[("wigner", m)] = np.exp(-0.5 * (Vi[0, 0] * dx * dx + 2 * Vi[0, 1] * dx * dp + Vi[1, 1] * dp * dp)) / (2 * PI * np.sqrt(np.linalg.det(V)))
    for S in subsets(n):
        if S == sorted(S):
            mu, V = gs.reduced(S)
            R[("reduced_phase_space", tuple(S))] = np.concatenate([mu, V.ravel()])
    R[("displacement",)] = np.array([(gs.mu[m] + 1j * gs.mu[m + n]) / 2 for m in range(n)])
    R[("purity",)] = float(1 / np.sqrt(np.linalg.det(gs.V)))
    nn = np.arange(fs.c)
    for i, j in itertools.permutations(range(n), 2):
        pij = fs.reduced([i, j]).diagonal().real.reshape(fs.c, fs.c)
        prod = np.outer(nn, nn)
        mean = float((pij * prod).sum())
        R[("number_expectation", (i, j))] = np.array([mean, float((pij * prod**2).sum()) - mean**2])
    for S in subsets(n):
        mu, V = gs.reduced(sorted(S))
        R[("parity_expectation", tuple(S))] = float(np.exp(-0.5 * mu @ np.linalg.inv(V) @ mu) / np.sqrt(np.linalg.det(V)))
        if S == sorted(S):
            R[("reduced_dm", tuple(S))] = fs.reduced(S)
    for p in patterns(n):
        R[("fock_prob", p)] = float(probs[p])
    R[("all_fock_probs",)] = probs[tuple(slice(0, QC) for _ in range(n))]
    R[("fidelity_vacuum",)] = float(probs[(0,) * n])
    for al in ALPHAS[n]:
        delta = gs.mu - 2 * np.concatenate([np.real(al), np.imag(al)])
        M = gs.V + np.eye(2 * n)
        R[("fidelity_coherent", al)] = float(2**n / np.sqrt(np.linalg.det(M)) * np.exp(-0.5 * delta @ np.linalg.inv(M) @ delta))
    R[("is_pure",)] = bool(abs(np.linalg.det(gs.V) - 1) < 1e-7)
    # second-order polynomial: r^T A r + d^T r + k with symmetric A
    for tag, (A, d, k) in polys(n).items():
        R[("poly_quad_mean", tag)] = float(np.trace(A @ gs.V) + gs.mu @ A @ gs.mu + d @ gs.mu + k)
    for m in range(n):
        # x_m^2 + p_m^2 = 2 hbar (n_m + 1/2): mean and variance follow from the photon-number moments of mode m
        nm_, nv_ = R[("mean_photon", m)]
        R[("poly_quad_number", m)] = np.array([4 * (nm_ + 0.5), 16 * nv_])
        from scipy.integrate import simpson

        W = R[("wigner", m)]  # [len(XV), len(PV)]
        R[("x_quad_values", m)] = simpson(W, x=PV, axis=1)
        R[("p_quad_values", m)] = simpson(W, x=XV, axis=0)
    return R


def polys(n):
    out = {}
    A = np.zeros((2 * n, 2 * n))
    A[0, 0] = 1.0
    A[n, n] = 1.0
    out["x0^2+p0^2"] = (A, np.zeros(2 * n), 0.0)
    if n >= 2:
        A = np.zeros((2 * n, 2 * n))
        A[0, 1] = A[1, 0] = 0.5
        A[n + 1, n + 1] = 0.3
        d = np.zeros(2 * n)
        d[1] = 0.7
        d[n] = -0.2
        out["x0x1+.3p1^2+.7x1-.2p0+.5"] = (A, d, 0.5)
    return out


# ----------------------------------------------------------------------------- querying a state object
def lib_dm_to_flat(dm, k, c):
    dm = np.asarray(dm)
    if dm.ndim == 2 and k > 1:
        return None  # flattened in some other convention
    if dm.ndim == 2:
        return dm
    return fr.sf_dm_to_flat(dm, k, c)


def query(st, n, rep):
    """key -> value (or ('EXC', type name))"""
    Q = {}
    kw = {} if rep == "fock" else {"cutoff": QC}
    c = CUT if rep == "fock" else QC

    def put(key, fn):
        try:
            with warnings.catch_warnings():
                warnings.simplefilter("ignore")
                Q[key] = fn()
        except Exception as e:  # noqa
            Q[key] = ("EXC", type(e).__name__ + ": " + str(e)[:80])

    for m in range(n):
        put(("mean_photon", m), lambda: np.array(st.mean_photon(m, **kw), dtype=float))
        for phi in PHIS:
            put(("quad_expectation", m, phi), lambda: np.array(st.quad_expectation(m, phi), dtype=float))
        put(("wigner", m), lambda: np.array(st.wigner(m, XV, PV)))
    for S in subsets(n):
        if len(S) <= 2:
            put(("number_expectation", tuple(S)), lambda: np.array(st.number_expectation(S), dtype=float))
        put(("parity_expectation", tuple(S)), lambda: float(np.real(st.parity_expectation(S))))
        if S == sorted(S):
            put(("reduced_dm", tuple(S)), lambda: lib_dm_to_flat(st.reduced_dm(S, **kw), len(S), c))
    for p in patterns(n):
        put(("fock_prob", p), lambda: float(np.real(st.fock_prob(list(p), **kw))))
    put(("all_fock_probs",), lambda: np.array(st.all_fock_probs(**kw)).reshape([c] * n)[tuple(slice(0, QC) for _ in range(n))])
    put(("fidelity_vacuum",), lambda: float(np.real(st.fidelity_vacuum())))
    for al in ALPHAS[n]:
        put(("fidelity_coherent", al), lambda: float(np.real(st.fidelity_coherent(list(al)))))
    if rep == "gaussian":  # for Fock/bosonic states is_pure reports the representation, not the physical purity
        put(("is_pure",), lambda: bool(st.is_pure))
        for S in subsets(n):
            if S == sorted(S):
                put(("reduced_phase_space", tuple(S)), lambda: (lambda r: np.concatenate([np.asarray(r[0]), np.asarray(r[1]).ravel()]))(st.reduced_gaussian(S)))
        put(("displacement",), lambda: np.asarray(st.displacement()))
    if rep == "bosonic":
        def rb(S):
            w, m, cv = st.reduced_bosonic(S)
            if len(w) != 1 or abs(w[0] - 1) > 1e-12:
                raise RuntimeError("Gaussian state with several weights")
            k = len(S)
            ix = [2 * i for i in range(k)] + [2 * i + 1 for i in range(k)]
            return np.concatenate([np.real(np.asarray(m)[0][ix]), np.real(np.asarray(cv)[0][np.ix_(ix, ix)]).ravel()])

        for S in subsets(n):
            if S == sorted(S):
                put(("reduced_phase_space", tuple(S)), lambda: rb(S))
        put(("displacement",), lambda: np.asarray(st.displacement()))
    if rep == "bosonic":  # only the bosonic state class has a purity method
        put(("purity",), lambda: float(np.real(st.purity())))
    for tag, (A, d, k) in polys(n).items():
        put(("poly_quad_mean", tag), lambda: float(np.real(st.poly_quad_expectation(A, d, k)[0])))
    for m in range(n):
        Am = np.zeros((2 * n, 2 * n))
        Am[m, m] = Am[n + m, n + m] = 1.0
        put(("poly_quad_number", m), lambda: np.real(np.array(st.poly_quad_expectation(Am), dtype=complex)))
        put(("x_quad_values", m), lambda: np.asarray(st.x_quad_values(m, XV, PV)))
        put(("p_quad_values", m), lambda: np.asarray(st.p_quad_values(m, XV, PV)))
    return Q


def state_data(st, rep):
    if rep == "gaussian":
        return [np.array(st.means()).copy(), np.array(st.cov()).copy()]
    if rep == "bosonic":
        return [np.array(st.weights()).copy(), np.array(st.means()).copy(), np.array(st.covs()).copy()]
    return [np.array(st.data).copy()]


def tol_for(rep, key, ref_trunc):
    """exact representations: 1e-8.  Anything computed from (or compared with) a Fock-basis quantity carries the
    truncation error of cutoff 12: the lost norm, weighted by up to n^2 <= CUT^2 for photon-number/quadrature moments."""
    moments = key[0] in ("mean_photon", "number_expectation", "quad_expectation", "poly_quad_mean", "poly_quad_number", "wigner", "x_quad_values", "p_quad_values")
    if key[0] == "poly_quad_number" and rep == "fock":
        return 3e-7 + 16 * CUT**4 * ref_trunc
    fockish = key[0] in ("x_quad_values", "p_quad_values", "fock_prob", "all_fock_probs", "fidelity_vacuum", "reduced_dm", "number_expectation", "fidelity_coherent", "parity_expectation", "wigner")
    if rep == "fock":
        return 3e-7 + (4 * CUT**2 if moments else 30) * ref_trunc
    if fockish:
        return 1e-7 + (4 * CUT**2 if moments else 30) * ref_trunc
    return 1e-8


def compare(rep, n, hist, Q, R, res, ref_trunc, case):
    for key, rv in R.items():
        if key not in Q:
            continue
        v = Q[key]
        res.n += 1
        sub = "subset" if (len(key) > 1 and isinstance(key[1], tuple) and len(key[1]) < n and key[0] in ("parity_expectation", "reduced_dm", "number_expectation")) else ""
        sig = f"C16|{key[0]}|{rep}" + (f"|{sub}" if sub else "")
        if isinstance(v, tuple) and v and v[0] == "EXC":
            if "NotImplemented" in v[1]:
                res.stats[f"not_implemented:{rep}:{key[0]}"] += 1
                continue
            res.violation(sig + "|raises", f"{key} on the {rep} state of {htag(hist)} raised {v[1]}", dict(case, key=repr(key)))
            continue
        if v is None:
            res.violation(sig + "|convention", f"{key} on the {rep} state of {htag(hist)} returned an array in another index convention", dict(case, key=repr(key)))
            continue
        a, b = np.asarray(v), np.asarray(rv)
        extra = 0.0
        if key[0] == "reduced_dm" and rep != "fock":
            k = len(key[1])
            b = b.reshape([CUT] * k + [CUT] * k)[tuple(slice(0, QC) for _ in range(2 * k))].reshape(QC**k, QC**k)
            # phase-space states return the matrix normalised inside the requested cutoff (documented behaviour of the
            # underlying routine): allow the norm that lies beyond cutoff QC
            extra = 3 * max(0.0, 1 - float(np.trace(b).real))
        if key[0] == "number_expectation" and len(key[1]) == 2:
            extra = 4 * CUT**4 * ref_trunc
        if key[0] == "wigner" and a.shape == b.T.shape and a.shape != b.shape:
            # documented as [len(xvec), len(pvec)]; every representation returns [len(pvec), len(xvec)]: a documentation
            # mismatch, not an inconsistency between representations - compared in the orientation actually returned
            res.stats["wigner_returned_transposed"] += 1
            b = b.T
        if a.shape != b.shape:
            res.violation(sig + "|shape", f"{key} on the {rep} state of {htag(hist)} has shape {a.shape}, documented/reference shape {b.shape}", dict(case, key=repr(key)))
            continue
        if a.dtype == bool or b.dtype == bool:
            bad = bool(a) != bool(b)
            d = 1.0 if bad else 0.0
        else:
            d = float(np.max(np.abs(a - b))) if a.size else 0.0
            bad = d > (tol_for(rep, key, ref_trunc) + extra) * max(1.0, float(np.max(np.abs(b))) if b.size else 1.0)
        if bad:
            what = "variance" if (a.size == 2 and abs(a.ravel()[0] - b.ravel()[0]) < 1e-7 and key[0] in ("mean_photon", "number_expectation", "quad_expectation")) else "value"
            res.violation(sig + f"|{what}", f"{key} on the {rep} state of {htag(hist)}: got {np.round(a.ravel()[:4].astype(complex), 6).real.tolist()}, reference {np.round(b.ravel()[:4].astype(complex), 6).real.tolist()} (diff {d:.3g})", dict(case, key=repr(key)))


def htag(hist):
    return [l + str(list(m)) for l, m in hist]


def check_state(n, hist, reps, res):
    gs = ph.GState(n)
    for lab, modes in hist:
        opsem.apply_gaussian(physics.make_op(lab, 0), list(modes), gs)
    fs = fr.FState(n, CUT)
    for lab, modes in hist:
        focksem.apply_fock(physics.make_op(lab, CUT), list(modes), fs)
    ref_trunc = max(0.0, 1 - fs.trace())
    # the two references must agree with each other (both are mine): guards the oracle itself
    for m in range(n):
        if abs(fs.mean_photon(m) - gs.mean_photon(m)) > 1e-6 + 30 * ref_trunc:
            raise RuntimeError(f"reference models disagree on {hist}")
    R = reference(gs, fs, n)
    for rep in reps:
        kind = {"gaussian": "gaussian", "bosonic": "bosonic", "fock": "fock_mixed"}[rep]
        case = {"n": n, "hist": [[l, list(m)] for l, m in hist], "rep": rep}
        b = physics.new_backend(kind, n, CUT)
        for lab, modes in hist:
            physics.apply_impl(b, kind, physics.make_op(lab, CUT), modes)
        with warnings.catch_warnings():
            warnings.simplefilter("ignore")
            st = b.state()
        before = state_data(st, rep)
        Q = query(st, n, rep)
        after = state_data(st, rep)
        res.n += 1
        if any(x.shape != y.shape or (x.size and np.max(np.abs(x - y)) > 0) for x, y in zip(before, after)):
            res.violation(f"C16|query-mutates-state|{rep}", f"querying the {rep} state of {htag(hist)} changed its data", case)
        compare(rep, n, hist, Q, R, res, ref_trunc, case)
        # identities inside one state object
        ident(rep, n, hist, Q, res, case, ref_trunc)
        # a method asked about subset S answers for S: same method on backend.state(modes=S)
        for S in [s for s in subsets(n) if s == sorted(s) and len(s) < n]:
            with warnings.catch_warnings():
                warnings.simplefilter("ignore")
                try:
                    sub = b.state(modes=S)
                except Exception as e:
                    res.violation(f"C16|state(modes)|raises|{rep}", f"backend.state(modes={S}) raised {e!r}", case)
                    continue
            k = len(S)
            kw = {} if rep == "fock" else {"cutoff": QC}
            pairs = []
            for j, m in enumerate(S):
                pairs.append((("mean_photon", m), lambda j=j: np.array(sub.mean_photon(j, **kw), dtype=float)))
                pairs.append((("quad_expectation", m, 0.4), lambda j=j: np.array(sub.quad_expectation(j, 0.4), dtype=float)))
            pairs.append((("parity_expectation", tuple(S)), lambda: float(np.real(sub.parity_expectation(list(range(k)))))))
            for key, fn in pairs:
                res.n += 1
                try:
                    with warnings.catch_warnings():
                        warnings.simplefilter("ignore")
                        v = fn()
                except Exception as e:
                    continue
                full = Q.get(key)
                if isinstance(full, tuple) or full is None:
                    continue
                if np.max(np.abs(np.asarray(v) - np.asarray(full))) > 1e-7 + 30 * ref_trunc:
                    res.violation(f"C16|{key[0]}|{rep}|subset-vs-substate", f"{key} on the full {rep} state of {htag(hist)} gives {np.round(np.asarray(full).ravel(), 6).tolist()}, the same method on state(modes={S}) gives {np.round(np.asarray(v).ravel(), 6).tolist()}", dict(case, key=repr(key)))


def ident(rep, n, hist, Q, res, case, ref_trunc):
    def num(k):
        v = Q.get(k)
        return None if (v is None or isinstance(v, tuple)) else np.asarray(v)

    tol = 1e-7 + 30 * ref_trunc
    fv, p0, fc0 = num(("fidelity_vacuum",)), num(("fock_prob", (0,) * n)), num(("fidelity_coherent", ALPHAS[n][0]))
    res.n += 1
    vals = [x for x in (fv, p0, fc0) if x is not None]
    if len(vals) >= 2 and max(float(v) for v in vals) - min(float(v) for v in vals) > tol:
        res.violation(f"C16|identity|vacuum-fidelity|{rep}", f"{rep} state of {htag(hist)}: fidelity_vacuum = {fv}, fock_prob(0..0) = {p0}, fidelity_coherent(0) = {fc0}", case)
    ap = num(("all_fock_probs",))
    if ap is not None:
        for p in patterns(n):
            fp = num(("fock_prob", p))
            res.n += 1
            if fp is not None and abs(float(fp) - float(ap[p])) > tol:
                res.violation(f"C16|identity|fock_prob-vs-all_fock_probs|{rep}", f"{rep} state of {htag(hist)}: fock_prob({p}) = {float(fp):.6g}, all_fock_probs[{p}] = {float(ap[p]):.6g}", case)
                break
    for m in range(n):
        a, b = num(("mean_photon", m)), num(("number_expectation", (m,)))
        res.n += 1
        if a is not None and b is not None and np.max(np.abs(a - b)) > tol:
            res.violation(f"C16|identity|mean_photon-vs-number_expectation|{rep}", f"{rep} state of {htag(hist)}: mean_photon({m}) = {a.tolist()}, number_expectation([{m}]) = {b.tolist()}", case)
    for i, j in itertools.combinations(range(n), 2):
        a, b = num(("number_expectation", (i, j))), num(("number_expectation", (j, i)))
        res.n += 1
        if a is not None and b is not None and np.max(np.abs(a - b)) > tol:
            res.violation(f"C16|identity|number_expectation-order|{rep}", f"{rep} state of {htag(hist)}: number_expectation([{i},{j}]) = {a.tolist()} but [{j},{i}] gives {b.tolist()}", case)


def work(task):
    if task[0] in ("cat", "sub"):
        from mc.checks import c16b

        return c16b.work(task)
    n, hists, reps = task
    res = Res()
    for hist in hists:
        n0 = res.n
        check_state(n, hist, reps, res)
        if hist:
            res.nt += res.n - n0
        if len(hist) == 2:
            res.sample({"state": htag(hist), "representations": list(reps), "queries": res.n - n0}, cap=1)
    return res


def run(ctx):
    quick = ctx.tier == "quick"
    tasks = []
    states = 0
    h2 = histories(2, 2)
    states += len(h2)
    ch = max(1, len(h2) // 48)
    for i in range(0, len(h2), ch):
        tasks.append((2, h2[i : i + ch], ("gaussian", "bosonic", "fock")))
    h3 = histories(3, 1 if quick else 2)
    states += len(h3)
    ch = max(1, len(h3) // 16)
    for i in range(0, len(h3), ch):
        tasks.append((3, h3[i : i + ch], ("gaussian", "bosonic")))
    h1 = histories(1, 3)
    states += len(h1)
    tasks.append((1, h1, ("gaussian", "bosonic", "fock")))
    from mc.checks import c16b

    extra = c16b.tasks(quick)
    tasks = extra + tasks
    ctx.cov["second_part"] = {"cat_state_cases": sum(len(t[1]) for t in extra if t[0] == "cat"), "substate_cases": sum(len(t[1]) for t in extra if t[0] == "sub")}
    for r in ctx.pmap(work, tasks):
        ctx.add(r)
        if ctx.time_left() < 0:
            ctx.close()
            ctx.cap_hit("time budget hit")
            break
    ctx.add(c16b.extra_cases(Res()))
    ctx.cov.update({"states": states * 3, "transitions": ctx.n, "traces_validated_against_impl": ctx.n, "evaluations": ctx.n, "distinct_nontrivial": ctx.nt})
    ctx.assumptions += [
        "reference values: closed Gaussian formulas (hbar = 2) and a dense Fock reference at cutoff 12 built from the same history; the two references are cross-checked against each other on every state",
        "small-amplitude alphabet so that the cutoff-12 truncation error (measured, added 30-fold to the tolerance) stays below 1e-8",
    ]


def replay(case):
    res = Res()
    if "part" in case:
        from mc.checks import c16b

        return c16b.replay(case)
    hist = tuple((l, tuple(m)) for l, m in case["hist"])
    check_state(case["n"], hist, (case["rep"],), res)
    return [(s, w) for s, w, c in res.viol if c.get("key") == case.get("key")]
