"""C02 - decomposed operations implement exactly the documented transformation.

Form S.  (A) every scalar-parameter decomposable class x 15-point parameter lattice per slot x dagger x every ordered
target tuple in 2- and 3-mode registers x every compile target whose table decomposes it: the real
Compiler.decompose output, interpreted by the reference semantics, must equal the documented map (X, Y, d).
(B) Interferometer x all seven meshes x drop_identity over a finite structured unitary family (all phased
permutations, BFS orbit of a generator set, DFT, identity); (C) GaussianTransform over a symplectic orbit, active,
passive and vacuum=True; (D) Gaussian state preparations (pure diagonal, pure rotated, thermal, general mixed,
displaced; decomposed and native); (E) graph embeddings of every graph on <= 4 nodes.
"""
import itertools
import warnings

import numpy as np

import strawberryfields as sf
from strawberryfields import ops
from strawberryfields.compilers import compiler_db
from strawberryfields.program_utils import Command, RegRef

from mc.core.ctx import Res
from mc.ref import opsem, phase as ph

ID = "C02"
LEVEL = "exploration"
RULE = __doc__ + " A case is non-trivial when the decomposition returned more than one command or a command of another class."
PI = np.pi
LATTICE = [0.0, 1e-3, -1e-3, 0.3, -0.3, 1.7, -1.7, PI / 2, -PI / 2, PI, -PI, 2 * PI, 5.0, 0.25 * PI, -0.75 * PI]
SHORT = [0.0, 0.3, -1.7, PI / 2, -PI, 5.0]
TOL = 1e-8

SCALAR = {
    "Xgate": (ops.Xgate, 1, 1),
    "Zgate": (ops.Zgate, 1, 1),
    "Pgate": (ops.Pgate, 1, 1),
    "Fouriergate": (ops.Fouriergate, 0, 1),
    "CXgate": (ops.CXgate, 1, 2),
    "CZgate": (ops.CZgate, 1, 2),
    "S2gate": (ops.S2gate, 2, 2),
    "MZgate": (ops.MZgate, 2, 2),
}
TARGETS = ["fock", "gaussian", "bosonic", "gbs", "gaussian_unitary", "gaussian_merge", "TDM"]


def sem_of(cmds, n, tol=TOL):
    return opsem.program_map(cmds, n)


def maps_equal(a, b, tol=TOL):
    scale = max(1.0, float(np.max(np.abs(a.X))))
    ok, why = a.equal(b, tol * scale)
    return ok, why


def decompose(target, cmd):
    with warnings.catch_warnings():
        warnings.simplefilter("ignore")
        return compiler_db[target]().decompose([cmd])


# ----------------------------------------------------------------------------- (A) scalar classes
def work_scalar(task):
    cname, n = task
    cls, npar, ar = SCALAR[cname]
    res = Res()
    lat = LATTICE if npar <= 1 else None
    grids = [()] if npar == 0 else ([(a,) for a in LATTICE] if npar == 1 else [(a, b) for a in LATTICE for b in LATTICE])
    for params in grids:
        for dag in (False, True):
            for modes in itertools.permutations(range(n), ar):
                for target in TARGETS:
                    if cname not in compiler_db[target].decompositions:
                        continue
                    res.n += 1
                    regs = [RegRef(i) for i in range(n)]
                    op = cls(*params)
                    if dag:
                        op = op.H
                    doc = cls(*params)
                    if dag:
                        doc = doc.H
                    ref = sem_of([Command(doc, [regs[m] for m in modes])], n)
                    case = {"kind": "scalar", "cls": cname, "params": list(params), "dagger": dag, "modes": list(modes), "n": n, "target": target}
                    try:
                        out = decompose(target, Command(op, [regs[m] for m in modes]))
                        got = sem_of(out, n)
                    except Exception as e:
                        res.violation(f"C02|{cname}{'.H' if dag else ''}|raises|{target}", f"decomposing {cname}{params}{'.H' if dag else ''} on {modes} for {target} raised {type(e).__name__}: {e}", case)
                        continue
                    if len(out) > 1 or (out and out[0].op.__class__.__name__ != cname):
                        res.nt += 1
                    ok, why = maps_equal(ref, got)
                    if not ok:
                        zero = "|p0=0" if (params and params[0] == 0) else ""
                        res.violation(f"C02|{cname}{'.H' if dag else ''}|map|{target}{zero}", f"{cname}{params}{'.H' if dag else ''} | {modes} decomposed for {target} into {[str(c) for c in out]}: {why}", case)
                    else:
                        res.sample({"op": f"{cname}{params}{'.H' if dag else ''}", "modes": list(modes), "target": target, "decomposition": [str(c) for c in out]}, cap=1)
    return res


# ----------------------------------------------------------------------------- unitary / symplectic families (own builders)
def P(k, j, phi):
    U = np.eye(k, dtype=complex)
    U[j, j] = np.exp(1j * phi)
    return U


def T(k, j, theta, phi):
    U = np.eye(k, dtype=complex)
    c, s = np.cos(theta), np.sin(theta)
    U[j, j], U[j, j + 1], U[j + 1, j], U[j + 1, j + 1] = np.exp(1j * phi) * c, -s, np.exp(1j * phi) * s, c
    return U


def unitary_family(k, wordlen):
    fam = {}

    def add(U, tag):
        key = (np.round(U.real, 10) + 0.0).tobytes() + (np.round(U.imag, 10) + 0.0).tobytes()
        if key not in fam:
            fam[key] = (U, tag)
            return True
        return False

    add(np.eye(k, dtype=complex), "identity")
    # phased permutations
    phases = [1, 1j, -1, -1j] if k <= 3 else [1, -1]
    for perm in itertools.permutations(range(k)):
        for ph_ in itertools.product(phases, repeat=k):
            U = np.zeros((k, k), dtype=complex)
            for i, j in enumerate(perm):
                U[i, j] = ph_[i]
            add(U, "phased-permutation")
    # DFT
    w = np.exp(2j * PI / k)
    add(np.array([[w ** (i * j) for j in range(k)] for i in range(k)]) / np.sqrt(k), "dft")
    # BFS orbit
    gens = []
    for j in range(k):
        gens.append(P(k, j, PI / 2))
    for j in range(k - 1):
        gens.append(T(k, j, PI / 4, 0.0))
        gens.append(T(k, j, 0.3, 0.7))
    frontier = [np.eye(k, dtype=complex)]
    for _ in range(wordlen):
        nxt = []
        for U in frontier:
            for G in gens:
                V = G @ U
                if add(V, "orbit"):
                    nxt.append(V)
        frontier = nxt
    # a beamsplitter embedded on every ordered pair of modes (adjacent or not), alone and followed by a second one:
    # unitaries whose exact zeros sit in the patterns the nulling routines special-case
    emb = []
    for i, j in itertools.permutations(range(k), 2):
        for th, phv in ((PI / 4, 0.0), (0.3, 0.7)):
            G = np.eye(k, dtype=complex)
            c, sn = np.cos(th), np.sin(th)
            G[i, i], G[i, j], G[j, i], G[j, j] = np.exp(1j * phv) * c, -sn, np.exp(1j * phv) * sn, c
            emb.append(G)
            add(G, "embedded-pair")
    for G1, G2 in itertools.product(emb, repeat=2):
        add(G2 @ G1, "embedded-pair-product")
    return list(fam.values())


MESHES = ["rectangular", "rectangular_phase_end", "rectangular_symmetric", "triangular", "rectangular_compact", "triangular_compact", "sun_compact"]


def work_interferometer(task):
    k, mats = task
    res = Res()
    n = k
    for U, tag in mats:
        for mesh in MESHES:
            if mesh == "sun_compact" and k < 3:
                continue  # documented: needs at least a 3x3 matrix (ValueError)
            for drop in (True, False):
                for order in ("asc", "desc") if k == 2 else ("asc",):
                    res.n += 1
                    modes = list(range(k)) if order == "asc" else list(range(k))[::-1]
                    regs = [RegRef(i) for i in range(n)]
                    case = {"kind": "interferometer", "U": [[[float(z.real), float(z.imag)] for z in row] for row in U], "mesh": mesh, "drop_identity": drop, "modes": modes}
                    try:
                        with warnings.catch_warnings():
                            warnings.simplefilter("ignore")
                            op = ops.Interferometer(U, mesh=mesh, drop_identity=drop)
                            out = decompose("gaussian", Command(op, [regs[m] for m in modes]))
                        got = sem_of(out, n)
                    except Exception as e:
                        res.violation(f"C02|Interferometer|raises|{mesh}|{tag}", f"Interferometer(mesh={mesh}, drop_identity={drop}) of a {k}x{k} {tag} matrix raised {type(e).__name__}: {e}", case)
                        continue
                    if len(out) > 0:
                        res.nt += 1
                    Xref = ph.embed(ph.interferometer(U), modes, n)
                    d = float(np.max(np.abs(got.X - Xref)))
                    if d > TOL or np.max(np.abs(got.Y)) > TOL or np.max(np.abs(got.d)) > TOL:
                        res.violation(f"C02|Interferometer|map|{mesh}|k={k}", f"Interferometer(mesh={mesh}, drop_identity={drop}) of a {k}x{k} {tag} matrix on modes {modes}: decomposed transformation differs from U by {d:.3g} ({len(out)} commands)", case)
                    else:
                        res.sample({"U": tag, "k": k, "mesh": mesh, "commands": len(out)}, cap=1)
    return res


def symplectic_family(nm, wordlen):
    gens = []
    for j in range(nm):
        gens.append(ph.embed(ph.rot(0.6), [j], nm))
        gens.append(ph.embed(ph.squeeze(0.4, 0.0), [j], nm))
    if nm >= 2:
        gens.append(ph.embed(ph.beamsplitter(PI / 4, 0.0), [0, 1], nm))
        gens.append(ph.embed(ph.two_mode_squeeze(0.3, 0.0), [0, 1], nm))
    fam = {}

    def add(S):
        key = (np.round(S, 10) + 0.0).tobytes()
        if key not in fam:
            fam[key] = S
            return True
        return False

    add(np.eye(2 * nm))
    frontier = [np.eye(2 * nm)]
    for _ in range(wordlen):
        nxt = []
        for S in frontier:
            for G in gens:
                V = G @ S
                if add(V):
                    nxt.append(V)
        frontier = nxt
    return list(fam.values())


def work_gtransform(task):
    nm, mats = task
    res = Res()
    for S in mats:
        passive = np.allclose(S @ S.T, np.eye(2 * nm), atol=1e-9)
        for vac in (False, True):
            for target in ("gaussian", "fock"):
                res.n += 1
                regs = [RegRef(i) for i in range(nm)]
                case = {"kind": "gtransform", "S": S.tolist(), "vacuum": vac, "target": target}
                try:
                    with warnings.catch_warnings():
                        warnings.simplefilter("ignore")
                        op = ops.GaussianTransform(S, vacuum=vac)
                        out = decompose(target, Command(op, regs))
                    got = sem_of(out, nm)
                except Exception as e:
                    res.violation(f"C02|GaussianTransform|raises|{'passive' if passive else 'active'}", f"GaussianTransform(vacuum={vac}) raised {type(e).__name__}: {e}", case)
                    continue
                if out:
                    res.nt += 1
                if vac:
                    d = float(np.max(np.abs(got.X @ got.X.T - S @ S.T)))
                else:
                    d = float(np.max(np.abs(got.X - S)))
                if d > TOL * max(1, np.max(np.abs(S)) ** 2):
                    res.violation(f"C02|GaussianTransform|map|{'passive' if passive else 'active'}|vacuum={vac}", f"GaussianTransform(vacuum={vac}) of a {2 * nm}x{2 * nm} {'passive' if passive else 'active'} symplectic: decomposition differs by {d:.3g}", case)
    return res


# ----------------------------------------------------------------------------- (D) Gaussian state preparation
def gaussian_cases():
    cases = []
    for nm in (1, 2):
        I = np.eye(2 * nm)
        # pure, diagonal: x-squeezed, x-anti-squeezed, mixed signs
        for rs in itertools.product([0.0, 0.4, -0.4], repeat=nm):
            V = np.diag([np.exp(-2 * r) for r in rs] + [np.exp(2 * r) for r in rs])
            cases.append(("pure-diagonal", V))
        # pure, block diagonal: rotated squeezed states
        # squeezing angles from every quadrant (the angle must come out of the covariance modulo 2 pi, not modulo pi)
        for rs in itertools.product([(0.4, 0.6), (0.3, -1.2), (0.0, 0.0), (0.5, PI / 2), (0.5, 2.5), (0.4, -2.5), (0.3, PI), (0.5, -PI / 2 - 0.2)], repeat=nm):
            S = np.eye(2 * nm)
            for j, (r, phi) in enumerate(rs):
                S = ph.embed(ph.squeeze(r, phi), [j], nm) @ S
            cases.append(("pure-block-diagonal", S @ S.T))
        # thermal
        for nb in itertools.product([0.0, 0.3, 1.2], repeat=nm):
            V = np.diag([2 * x + 1 for x in nb] * 2)
            cases.append(("thermal", V))
        # general
        for S in symplectic_family(nm, 2)[:40]:
            for D in ([1.0] * nm, [1.5] * nm, [1.0, 2.2][:nm]):
                V = S @ np.diag(list(D) * 2) @ S.T
                cases.append(("general", (V + V.T) / 2))
    # three modes: a thermal-diagonal, a pure and a general mixed state (all 64 zero patterns of the means are applied)
    V3 = np.diag([1.0, 1.6, 2.2] * 2)
    S3 = ph.embed(ph.beamsplitter(0.4, 0.3), [0, 2], 3) @ ph.embed(ph.squeeze(0.3, 0.5), [1], 3) @ ph.embed(ph.two_mode_squeeze(0.2, 0.1), [0, 1], 3)
    cases.append(("thermal", V3))
    cases.append(("pure-general", S3 @ S3.T))
    V = S3 @ V3 @ S3.T
    cases.append(("general", (V + V.T) / 2))
    return cases


def work_gaussian(task):
    cases = task
    res = Res()
    for tag, V in cases:
        nm = V.shape[0] // 2
        base = np.array([0.3, -0.2, 0.5, 0.1, 0.4, -0.6][:nm] + [0.25, 0.7, -0.35, 0.15, -0.45, 0.55][:nm])
        # every pattern of exactly-zero entries in the vector of means (plus no vector at all)
        for r in [None] + [base * np.array(mask) for mask in itertools.product([1.0, 0.0], repeat=2 * nm)]:
            for hbar in (2.0,):
                res.n += 1
                regs = [RegRef(i) for i in range(nm)]
                case = {"kind": "gaussian", "tag": tag, "V": V.tolist(), "r": None if r is None else r.tolist()}
                try:
                    with warnings.catch_warnings():
                        warnings.simplefilter("ignore")
                        op = ops.Gaussian(V, r)
                        out = decompose("gaussian", Command(op, regs))
                    got = sem_of(out, nm)
                except Exception as e:
                    res.violation(f"C02|Gaussian|raises|{tag}", f"Gaussian({tag}) raised {type(e).__name__}: {e}", case)
                    continue
                res.nt += 1
                # a preparation: whatever the input, the output is the requested state
                Vout = got.Y
                mu = got.d
                d = max(float(np.max(np.abs(Vout - V))), float(np.max(np.abs(mu - (np.zeros(2 * nm) if r is None else r)))), float(np.max(np.abs(got.X))))
                if d > 1e-7:
                    zp = "" if r is None or np.all(r != 0) else "|zero-entries"
                    res.violation(f"C02|Gaussian|state|{tag}|{'displaced' if r is not None else 'centred'}{zp}", f"Gaussian({tag}, {nm} modes{', displaced' if r is not None else ''}) decomposed into {[str(c)[:40] for c in out]} prepares a state that differs from the requested one by {d:.3g}", case)
    return res


# ----------------------------------------------------------------------------- (E) graph embeddings
def bmatrix(V):
    """B block of the A-matrix of a pure zero-mean Gaussian state with covariance V (hbar=2, xxpp)."""
    n = V.shape[0] // 2
    W = 0.5 * np.block([[np.eye(n), 1j * np.eye(n)], [np.eye(n), -1j * np.eye(n)]])
    sigma = W @ V @ W.conj().T
    Q = sigma + 0.5 * np.eye(2 * n)
    Xm = np.block([[np.zeros((n, n)), np.eye(n)], [np.eye(n), np.zeros((n, n))]])
    A = Xm @ (np.eye(2 * n) - np.linalg.inv(Q))
    return A[:n, :n]


def all_graphs(k):
    pairs = list(itertools.combinations(range(k), 2))
    for bits in itertools.product([0, 1], repeat=len(pairs)):
        A = np.zeros((k, k))
        for b, (i, j) in zip(bits, pairs):
            A[i, j] = A[j, i] = b
        if A.any():
            yield A


def work_graphs(task):
    mats = task
    res = Res()
    for kind, A in mats:
        edges = kind == "bipartite-edges"
        Bm = A
        if edges:  # the matrix of edge weights between the two vertex sets; the graph has twice as many nodes
            A = np.block([[np.zeros_like(Bm), Bm], [Bm.T, np.zeros_like(Bm)]])
        k = A.shape[0]
        ident = "|identity-matrix" if np.array_equal(Bm, np.eye(len(Bm))) else ""
        for nbar in (0.5, 1.0):
            res.n += 1
            regs = [RegRef(i) for i in range(k)]
            case = {"kind": kind, "A": Bm.tolist(), "mean_photon": nbar}
            try:
                with warnings.catch_warnings():
                    warnings.simplefilter("ignore")
                    op = ops.GraphEmbed(A, mean_photon_per_mode=nbar, make_traceless=True) if kind == "graph-traceless" else ops.GraphEmbed(A, mean_photon_per_mode=nbar) if kind == "graph" else (ops.BipartiteGraphEmbed(Bm, mean_photon_per_mode=nbar, edges=True) if edges else ops.BipartiteGraphEmbed(A, mean_photon_per_mode=nbar))
                    out = decompose("gaussian", Command(op, regs))
                got = sem_of(out, k)
            except Exception as e:
                res.violation(f"C02|{kind}|raises", f"{kind} embedding raised {type(e).__name__}: {e}", case)
                continue
            res.nt += 1
            # the documented option make_traceless: the matrix that is embedded is A - tr(A)/n * 1
            T = A - np.trace(A) * np.eye(k) / k if kind == "graph-traceless" else A
            V = got.X @ got.X.T + got.Y
            B = bmatrix(V)
            nb = sum((V[i, i] + V[i + k, i + k]) / 4 - 0.5 for i in range(k)) / k
            mask = np.abs(T) > 0
            c = float(np.real(np.vdot(T[mask], B[mask]) / np.vdot(T[mask], T[mask])))
            if abs(nb - nbar) > 1e-7:
                res.violation(f"C02|{kind}|mean-photon{ident}", f"{kind} embedding of a {k}-node graph has mean photon number per mode {nb:.6g}, requested {nbar}", case)
            elif c <= 0 or np.max(np.abs(B - c * T)) > 1e-7:
                res.violation(f"C02|{kind}|adjacency{ident}", f"{kind} embedding of a {k}-node graph: state's A matrix is not a positive multiple of the adjacency matrix (best c = {c:.4g}, residual {np.max(np.abs(B - c * T)):.3g})", case)
    return res


# ----------------------------------------------------------------------------- driver
def run(ctx):
    quick = ctx.tier == "quick"
    tasks = []
    for cname in SCALAR:
        for n in (2, 3):
            if SCALAR[cname][1] == 2 and n == 3 and quick:
                continue
            tasks.append((cname, n))
    for r in ctx.pmap(work_scalar, tasks):
        ctx.add(r)
    ctx.stats["scalar_cases"] = ctx.n
    # interferometers
    n0 = ctx.n
    tasks = []
    fam_sizes = {}
    for k, wl in ((2, 3), (3, 3 if quick else 4), (4, 2 if quick else 3)):
        fam = unitary_family(k, wl)
        fam_sizes[k] = len(fam)
        ch = max(1, len(fam) // 32)
        for i in range(0, len(fam), ch):
            tasks.append((k, fam[i : i + ch]))
    for r in ctx.pmap(work_interferometer, tasks):
        ctx.add(r)
    ctx.stats["interferometer_cases"] = ctx.n - n0
    ctx.cov["unitary_family_sizes"] = fam_sizes
    # Gaussian transforms
    n0 = ctx.n
    tasks = []
    for nm, wl in ((1, 3), (2, 2 if quick else 3)):
        fam = symplectic_family(nm, wl)
        ch = max(1, len(fam) // 16)
        for i in range(0, len(fam), ch):
            tasks.append((nm, fam[i : i + ch]))
    for r in ctx.pmap(work_gtransform, tasks):
        ctx.add(r)
    ctx.stats["gaussiantransform_cases"] = ctx.n - n0
    n0 = ctx.n
    gc = gaussian_cases()
    ch = max(1, len(gc) // 32)
    for r in ctx.pmap(work_gaussian, [gc[i : i + ch] for i in range(0, len(gc), ch)]):
        ctx.add(r)
    ctx.stats["gaussian_prep_cases"] = ctx.n - n0
    n0 = ctx.n
    graphs = []
    for k in (2, 3, 4):
        for A in all_graphs(k):
            graphs.append(("graph", A))
    graphs.append(("graph", np.array([[0, 0.5, 1.0], [0.5, 0, 0.3], [1.0, 0.3, 0]])))
    for k in (1, 2):
        for bits in itertools.product([0, 1, 0.5], repeat=k * k):
            Bm = np.array(bits, dtype=float).reshape(k, k)
            if Bm.any():
                A = np.block([[np.zeros((k, k)), Bm], [Bm.T, np.zeros((k, k))]])
                graphs.append(("bipartite", A))
    # graphs with self-loops (diagonal weights) incl. the identity matrix; edge-weight matrices given directly
    for k in (1, 2, 3):
        graphs.append(("graph", np.eye(k)))
        graphs.append(("graph", 0.5 * np.eye(k)))
    graphs.append(("graph", np.array([[1.0, 0.5], [0.5, 0.3]])))
    # the option make_traceless on graphs with unequal self-loops (2 and 3 nodes, every edge set incl. none)
    for k in (2, 3):
        for A in [np.zeros((k, k))] + list(all_graphs(k)):
            for D in (np.diag([1.0] + [0.0] * (k - 1)), np.diag([(i + 1) / k for i in range(k)])):
                graphs.append(("graph-traceless", A + D))
    for k in (1, 2):
        for bits in itertools.product([0, 1, 0.5], repeat=k * k):
            Bm = np.array(bits, dtype=float).reshape(k, k)
            if Bm.any():
                graphs.append(("bipartite-edges", Bm))
    ch = max(1, len(graphs) // 32)
    for r in ctx.pmap(work_graphs, [graphs[i : i + ch] for i in range(0, len(graphs), ch)]):
        ctx.add(r)
    ctx.stats["graph_embedding_cases"] = ctx.n - n0
    ctx.assumptions += [
        "documented meaning of each operation transcribed from its docstring (mc/ref/opsem.py, mc/ref/phase.py); decompositions obtained from the real Compiler.decompose of each target and interpreted command by command",
        "real parameters covered on a 15-point lattice per slot (0, +-1e-3, +-0.3, +-1.7, multiples of pi/4, 2 pi, 5); matrices from finite structured families (phased permutations, generator orbits, DFT); sMZgate has no documented closed form and is judged only through the interferometer meshes that use it",
    ]


def replay(case):
    res = Res()
    k = case["kind"]
    if k == "scalar":
        # re-run only that case
        cls, npar, ar = SCALAR[case["cls"]]
        n = case["n"]
        regs = [RegRef(i) for i in range(n)]
        op = cls(*case["params"])
        doc = cls(*case["params"])
        if case["dagger"]:
            op, doc = op.H, doc.H
        ref = sem_of([Command(doc, [regs[m] for m in case["modes"]])], n)
        try:
            out = decompose(case["target"], Command(op, [regs[m] for m in case["modes"]]))
            got = sem_of(out, n)
            ok, why = maps_equal(ref, got)
            if not ok:
                return [(f"C02|{case['cls']}|map|{case['target']}", why)]
        except Exception as e:
            return [(f"C02|{case['cls']}|raises|{case['target']}", repr(e))]
        return []
    if k == "interferometer":
        U = np.array([[complex(a, b) for a, b in row] for row in case["U"]])
        r = work_interferometer((U.shape[0], [(U, "replay")]))
        return [(s, w) for s, w, c in r.viol if c["mesh"] == case["mesh"] and c["drop_identity"] == case["drop_identity"] and c["modes"] == case["modes"]]
    if k == "gtransform":
        S = np.array(case["S"])
        r = work_gtransform((S.shape[0] // 2, [S]))
        return [(s, w) for s, w, c in r.viol if c["vacuum"] == case["vacuum"] and c["target"] == case["target"]]
    if k == "gaussian":
        r = work_gaussian([(case["tag"], np.array(case["V"]))])
        return [(s, w) for s, w, c in r.viol if c["r"] == case["r"]]
    r = work_graphs([(k, np.array(case["A"]))])
    return [(s, w) for s, w, c in r.viol if c["mean_photon"] == case["mean_photon"]]
