"""C07 - see physics.py (shared explorer) and DESIGN.md section 4."""
from mc.checks import physics

ID = "C07"
LEVEL = "model_checking"
RULE = physics.__doc__


def configs(tier):
    if tier == "quick":
        return [
            ("gaussian", 1, 0, 3, 0), ("gaussian", 2, 0, 2, 1), ("gaussian", 3, 0, 2, 0),
            ("bosonic", 2, 0, 2, 1), ("bosonic", 3, 0, 1, 1),
            ("fock_pure", 1, 5, 3, 0), ("fock_pure", 2, 5, 2, 0), ("fock_pure", 3, 5, 1, 1),
            ("fock_mixed", 2, 5, 2, 0), ("fock_mixed", 3, 5, 1, 1),
        ]
    return [
        ("gaussian", 1, 0, 4, 0), ("gaussian", 2, 0, 3, 1), ("gaussian", 3, 0, 2, 1),
        ("bosonic", 1, 0, 3, 0), ("bosonic", 2, 0, 3, 0), ("bosonic", 3, 0, 2, 1),
        ("fock_pure", 1, 5, 4, 0), ("fock_pure", 2, 5, 3, 0), ("fock_pure", 3, 5, 2, 1), ("fock_pure", 2, 7, 2, 1),
        ("fock_mixed", 1, 5, 3, 0), ("fock_mixed", 2, 5, 2, 1), ("fock_mixed", 3, 5, 1, 1), ("fock_mixed", 2, 7, 2, 0),
    ]


def run(ctx):
    physics.explore(ctx, ID, configs(ctx.tier))
    physics.explore_register(ctx, ID, ctx.tier == "quick")
    from mc.checks import c07b

    n0 = ctx.n
    for r in ctx.pmap(c07b.work, c07b.tasks(ctx.tier == "quick")):
        ctx.add(r)
    ctx.cov["bosonic_cat_states_checked"] = ctx.n - n0
    ctx.cov["evaluations"] = ctx.n


def replay(case):
    if case.get("cat_physical"):
        from mc.checks import c07b

        return c07b.replay(case)
    return physics.replay_case(ID, case)
