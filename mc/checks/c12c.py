"""C12, single-loop time-domain device (TDM compiler): acceptance is decided exactly by conformance.

Closed system: one single-loop homodyne device (layout Sgate(r0, 0) | 1 ; BSgate({bs}, 0) | (1, 0) ; Rgate({r}) | 1 ;
MeasureHomodyne({m}) | 0, parameter ranges published or not) x the full product of small source deviations:
squeezing amplitude (layout value / other), squeezing phase (0 / 0.4), beamsplitter phase (0 / 0.3), gate order
(layout / rotation before the beamsplitter), each of the three parameter arrays (in range / one entry out of range),
number of time bins (4 / more than temporal_max), concurrent modes (2 / 3), compiler named explicitly or taken from
the device.  Oracle: the program is accepted iff it deviates in nothing the device can check (hard-coded arguments and
topology always; parameter ranges only when the device publishes them); a refusal is a CircuitError or ValueError; an
accepted circuit is the layout gate for gate and mode for mode, carries the source arrays unchanged and the layout's
hard-coded values.
"""
import inspect
import itertools
import warnings

import numpy as np

from strawberryfields import ops
from strawberryfields.compilers import compiler_db
from strawberryfields.device import Device
from strawberryfields.program_utils import CircuitError
from strawberryfields.tdm import TDMProgram

from mc.core.ctx import Res

PI = np.pi
R0 = 0.5643
DEV_TM = 100


def device(ranges):
    tm = 4
    layout = inspect.cleandoc(
        f"""
        name template_tdm
        version 1.0
        target TDM (shots=1)
        type tdm (temporal_modes={tm}, copies=1)

        float array p1[1, {tm}] =
            {{r}}
        float array p2[1, {tm}] =
            {{bs}}
        float array p3[1, {tm}] =
            {{m}}

        Sgate({R0}, 0) | 1
        BSgate({{bs}}, 0) | (1, 0)
        Rgate({{r}}) | 1
        MeasureHomodyne({{m}}) | 0
        """
    )
    spec = {
        "target": "TDM",
        "layout": layout,
        "modes": {"concurrent": 2, "spatial": 1, "temporal_max": DEV_TM},
        "compiler": ["TDM"],
        # the measurement angle has a DISCRETE set of settings: a value between two allowed ones is out of range
        "gate_parameters": {"bs": [0, [0, 2 * PI]], "r": [0, [0, PI], PI], "m": [0, PI / 2, 6.5 if False else 2 * PI]} if ranges else None,
    }
    return Device(spec)


DEVIATIONS = ["sq_amp", "sq_phase", "bs_phase", "bs_phase_array", "order", "bs_range", "r_range", "m_range", "m_gap", "timebins", "concurrent"]
RANGE_DEVS = {"bs_range", "r_range", "m_range", "m_gap"}


def build(dev):
    """dev: set of deviation names"""
    T = DEV_TM + 1 if "timebins" in dev else 4
    bs = [PI / 4, 0.0] * (T // 2) + [0.0] * (T % 2)
    r = [0.0, PI / 2] * (T // 2) + [0.0] * (T % 2)
    m = [0.0, 0.0, PI / 2, PI / 2] * (T // 4) + [0.0] * (T % 4)
    if "bs_range" in dev:
        bs[1] = 7.0
    if "r_range" in dev:
        r[2] = -0.5
    if "m_range" in dev:
        m[0] = 6.5
    if "m_gap" in dev:
        m[1] = 1.0  # strictly between the smallest and the largest entry, which are both allowed settings
    N = 3 if "concurrent" in dev else 2
    prog = TDMProgram(N=N)
    with warnings.catch_warnings():
        warnings.simplefilter("ignore")
        with prog.context(bs, r, m, [0.0] * T) as (p, q):
            a, b = (q[N - 1], q[N - 2])
            ops.Sgate(0.3 if "sq_amp" in dev else R0, 0.4 if "sq_phase" in dev else 0.0) | a
            if "order" in dev:
                ops.Rgate(p[1]) | a
                ops.BSgate(p[0], p[3] if "bs_phase_array" in dev else (0.3 if "bs_phase" in dev else 0.0)) | (a, b)
            else:
                ops.BSgate(p[0], p[3] if "bs_phase_array" in dev else (0.3 if "bs_phase" in dev else 0.0)) | (a, b)
                ops.Rgate(p[1]) | a
            ops.MeasureHomodyne(p[2]) | b
    return prog, [bs, r, m]


def check(dev_names, ranges, explicit, res):
    dev = set(dev_names)
    case = {"tdm_single_loop": True, "deviations": sorted(dev), "ranges": ranges, "explicit": explicit}
    prog, arrays = build(dev)
    d = device(ranges)
    compiler_db["TDM"].reset_circuit()
    must_refuse = dev - (RANGE_DEVS if not ranges else set())
    try:
        with warnings.catch_warnings():
            warnings.simplefilter("ignore")
            out = prog.compile(device=d, compiler="TDM") if explicit else prog.compile(device=d)
    except (CircuitError, ValueError) as e:
        if not must_refuse:
            res.violation("C12|TDM|rejects-admissible", f"single-loop program with deviations {sorted(dev)} (device {'with' if ranges else 'without'} published ranges) was refused: {str(e)[:140]}", case)
        return False
    except Exception as e:  # noqa: BLE001
        res.violation(f"C12|TDM|crash|{type(e).__name__}", f"single-loop program with deviations {sorted(dev)}: compile raised {type(e).__name__}: {str(e)[:140]}", case)
        return False
    if must_refuse:
        kind = ("range-gap" if must_refuse == {"m_gap"} else "range") if must_refuse <= RANGE_DEVS else ("modes" if must_refuse <= {"timebins", "concurrent"} else ("topology" if "order" in must_refuse else "fixed-parameter"))
        res.violation(f"C12|TDM|accepts-nonconforming|{kind}", f"single-loop program deviating from the device in {sorted(must_refuse)} (device {'with' if ranges else 'without'} published ranges, compiler {'named' if explicit else 'from device'}) was accepted", case)
        return True
    got = [(c.op.__class__.__name__, tuple(r.ind for r in c.reg)) for c in out.circuit]
    exp = [("Sgate", (1,)), ("BSgate", (1, 0)), ("Rgate", (1,)), ("MeasureHomodyne", (0,))]
    if got != exp:
        res.violation("C12|TDM|layout-mismatch", f"compiled single-loop circuit {got} does not follow the layout {exp}", case)
        return True
    fixed = [float(out.circuit[0].op.p[0]), float(out.circuit[0].op.p[1]), float(out.circuit[1].op.p[1])]
    if np.max(np.abs(np.array(fixed) - np.array([R0, 0.0, 0.0]))) > 1e-12:
        res.violation("C12|TDM|fixed-values", f"compiled circuit carries hard-coded values {fixed}, layout says {[R0, 0.0, 0.0]}", case)
    params = [list(map(float, a)) for a in out.tdm_params[:3]]  # the fourth array is only used by the bs_phase_array deviation
    src = [list(map(float, a)) for a in arrays]
    if len(params) != len(src) or any(len(x) != len(y) or any(abs(((u - v) + PI) % (2 * PI) - PI) > 1e-9 for u, v in zip(x, y)) for x, y in zip(params, src)):
        res.violation("C12|TDM|arrays-changed", "the TDM compiler changed the parameter arrays of a conforming program (beyond multiples of 2 pi)", case)
    return True


def cases(quick):
    out = []
    # every subset of deviations of size <= 2 (quick) / every subset (thorough)
    sizes = range(0, 3) if quick else range(0, len(DEVIATIONS) + 1)
    for k in sizes:
        for dev in itertools.combinations(DEVIATIONS, k):
            for ranges in (True, False):
                for explicit in (True, False):
                    out.append((dev, ranges, explicit))
    return out


def work(task):
    res = Res()
    for c in task:
        res.n += 1
        check(*c, res)
        if c[0]:
            res.nt += 1  # non-trivial: at least one deviation (the outcome, accept or refuse, is decided by the oracle)
        res.sample({"tdm_single_loop": True, "deviations": list(c[0]), "ranges_published": c[1], "compiler_named": c[2]}, cap=1)
    return res


def replay(case):
    res = Res()
    check(tuple(case["deviations"]), case["ranges"], case["explicit"], res)
    return [(s, w) for s, w, _ in res.viol]
