"""C09 - running programs is compositional and leaves user programs untouched.

Form E: breadth-first search over engine call histories.  Events on one Engine per backend: run(P) as successor
segment, run([P, Q]) in one call, compile-then-run, run with compile_options (optimize), reset(), a run that
raises midway, re-run of the last user program on a fresh engine.  State = sequence of program fragments executed
since the last reset (after a passed oracle the engine is a function of it).  Oracle (differential, no hand-written
expected values): the engine's state after any history equals the state of a fresh engine that runs the
concatenation of the fragments as ONE program; every user program's deep snapshot is unchanged by every call.
"""
import itertools
import warnings

import numpy as np

import strawberryfields as sf
from strawberryfields import ops

from mc.core.chooser import install_default
from mc.core.ctx import Res

install_default()  # the Gaussian post-selected homodyne draws the unobserved conjugate quadrature from numpy.random

ID = "C09"
LEVEL = "model_checking"
RULE = __doc__
CUTOFF = 7
ARGS = {"a": 0.25}
BOSONIC_RESTART = "C09|sequencing|later-segment-restarts|bosonic"


# ----------------------------------------------------------------------------- fragments
def f_prep(P, q):
    ops.Coherent(0.3, 0.2) | q[0]
    ops.BSgate(0.4, 0.1) | (q[0], q[1])


def f_dagger(P, q):
    ops.CZgate(0.4).H | (q[0], q[1])
    ops.S2gate(0.2, 0.3).H | (q[1], q[0])
    ops.Xgate(0.2).H | q[1]


def f_free(P, q):
    ops.Dgate(P.params("a"), 0.4) | q[0]
    ops.Rgate(P.params("a")).H | q[1]


def f_meas(P, q):
    ops.Squeezed(0.3, 0.0) | q[0]
    ops.BSgate(0.5, 0.0) | (q[0], q[1])
    ops.MeasureHomodyne(0.0, select=0.2) | q[0]
    ops.Xgate(q[0].par) | q[1]


def f_meas2(P, q):
    """one mode measured twice in one segment, with different outcomes"""
    ops.Squeezed(0.3, 0.0) | q[0]
    ops.MeasureHomodyne(0.0, select=0.2) | q[0]
    ops.Coherent(0.1, 0.0) | q[0]
    ops.MeasureHomodyne(0.0, select=-0.4) | q[0]


def f_ffprev(P, q):
    """feed-forward of the latest outcome of mode 0, measured in this or an earlier segment"""
    ops.Xgate(q[0].par) | q[1]


MEASURING = ("meas", "meas2")


def f_delspare(P, q):
    """a later segment deletes a mode it inherited (the third, otherwise idle, mode of the register)"""
    ops.Del | P.reg_refs[2]


def f_loss2(P, q):
    """two adjacent channels of one family on one mode: merged by the optimiser"""
    ops.LossChannel(0.7) | q[1]
    ops.LossChannel(0.8) | q[1]


def f_newdel(P, q):
    (r,) = ops.New(1)
    ops.Squeezed(0.2, 0.1) | r
    ops.BSgate(0.3, 0.2) | (q[0], r)
    ops.Del | r


def f_loss(P, q):
    ops.Rgate(0.3).H | q[0]
    ops.LossChannel(0.7) | q[1]
    ops.Sgate(0.2, 0.1) | q[1]


def f_raise(P, q):
    """raises midway: the daggered gate depends on a value that has not been measured"""
    ops.Coherent(0.2, 0.0) | q[0]
    ops.Dgate(q[1].par, 0.0).H | q[0]
    ops.BSgate(0.4, 0.1) | (q[0], q[1])


def f_raise2(P, q):
    ops.Sgate(0.1, 0.0) | q[1]
    ops.Dgate(0.3 + 0.1j, 0.0).H | q[1]


def f_msshot(P, q):
    """measurement-based squeezing with a sampled ancilla outcome (bosonic simulator only): one ancilla sample per run"""
    ops.MSgate(0.4, 0.0, 1.0, 0.95, avg=False) | q[0]


FRAGS = {"prep": f_prep, "dagger": f_dagger, "free": f_free, "meas": f_meas, "newdel": f_newdel, "loss": f_loss, "meas2": f_meas2, "ffprev": f_ffprev, "delspare": f_delspare, "loss2": f_loss2, "msshot": f_msshot}
BAD = {"raise-unmeasured": f_raise, "raise-complex": f_raise2}


def _args(P):
    return {k: v for k, v in ARGS.items() if k in P.free_params}


def avail(backend):
    return [f for f in FRAGS if f != "msshot" or backend == "bosonic"]


def new_engine(backend):
    return sf.Engine(backend, backend_options={"cutoff_dim": CUTOFF} if backend == "fock" else None)


def build(parent, frag_names, table=FRAGS):
    """A user program with the given fragments appended; parent is None (fresh 2-mode register) or a Program."""
    P = sf.Program(3 if parent is None else parent)  # modes 0, 1 carry the fragments, mode 2 is a spare that may be deleted
    with warnings.catch_warnings():
        warnings.simplefilter("ignore")
        with P.context:
            q = [P.reg_refs[0], P.reg_refs[1]]
            for f in frag_names:
                table[f](P, q)
    return P


def snapshot(prog):
    snap = []
    for c in prog.circuit:
        op = c.op
        ps = tuple((id(x), x.tobytes() if isinstance(x, np.ndarray) else repr(x)) for x in op.p)
        snap.append((id(c), id(op), op.__class__.__name__, ps, getattr(op, "dagger", None), repr(getattr(op, "select", None)), tuple((id(r), r.ind, r.active) for r in c.reg)))
    return (tuple(snap), tuple((i, r.active) for i, r in prog.reg_refs.items()), tuple(sorted(prog.free_params)), prog.name, prog.target)


def state_data(backend, st):
    if backend == "gaussian":
        return [np.array(st.means()), np.array(st.cov())]
    if backend == "bosonic":
        return [np.array(st.weights()), np.array(st.means()), np.array(st.covs())]
    return [np.array(st.dm())]


def same(a, b, tol=1e-9):
    if len(a) != len(b):
        return False, "different structure"
    for x, y in zip(a, b):
        if x.shape != y.shape:
            return False, f"shape {x.shape} vs {y.shape}"
        if x.size and np.max(np.abs(x - y)) > tol:
            return False, f"differs by {np.max(np.abs(x - y)):.3g}"
    return True, ""


_REF = {}


def reference(backend, frs):
    """state of a fresh engine running all fragments as one program"""
    key = (backend, frs)
    if key not in _REF:
        eng = new_engine(backend)
        P = build(None, frs)
        with warnings.catch_warnings():
            warnings.simplefilter("ignore")
            rr = eng.run(P, args=_args(P))
            _REF[key] = (state_data(backend, rr.state), anc_counts(rr))
    return _REF[key]


def anc_counts(result):
    a = getattr(result, "ancillae_samples", None) or {}
    return {k: len(v) for k, v in a.items()}


class World:
    def __init__(self, backend):
        self.backend = backend
        self.eng = new_engine(backend)
        self.users = []  # (program, snapshot) of every user-held program
        self.last = None  # last user program in the chain of segments
        self.frs = ()
        self.calls = 0  # run calls since reset
        self.was_reset = False

    def hold(self, P):
        self.users.append((P, snapshot(P)))
        return P

    def check_snapshots(self, res, what, case):
        for P, snap in self.users:
            if snapshot(P) != snap:
                res.violation(f"C09|user-program-modified|{what}|{self.backend}", f"{what} altered a user program (circuit/parameters/dagger/registers): now {[str(c) for c in P.circuit]}", case)
                return False
        return True

    def apply(self, ev, res, case):
        """returns True if the successor state is sound"""
        kind = ev[0]
        be = self.backend
        with warnings.catch_warnings():
            warnings.simplefilter("ignore")
            try:
                if kind == "reset":
                    if self.calls == 0:
                        return None  # resetting an engine that never ran is outside the property (see DESIGN)
                    self.eng.reset()
                    self.frs, self.last, self.calls = (), None, 0
                    self.was_reset = True
                    if not self.check_snapshots(res, "reset", case):
                        return False
                    return True
                if kind == "run":
                    P = self.hold(build(self.last, [ev[1]]))
                    r = self.eng.run(P, args=_args(P))
                    self.last, new = P, (ev[1],)
                elif kind == "runopt":
                    P = self.hold(build(self.last, [ev[1]]))
                    opts = {"optimize": True}
                    r = self.eng.run(P, args=_args(P), compile_options=opts)
                    if opts != {"optimize": True}:
                        res.violation(f"C09|input-modified|compile_options|{be}", f"run(..., compile_options={{'optimize': True}}) changed the caller's dictionary to {opts}", case)
                        return False
                    self.last, new = P, (ev[1],)
                elif kind == "runlist":
                    P = self.hold(build(self.last, [ev[1]]))
                    Q = self.hold(build(P, [ev[2]]))
                    r = self.eng.run([P, Q], args=_args(P))
                    self.last, new = Q, (ev[1], ev[2])
                elif kind in ("runchain", "runchain-seq"):
                    # three segments built BEFORE anything runs (so that no measured value is copied at construction)
                    P = self.hold(build(self.last, [ev[1]]))
                    Q = self.hold(build(P, [ev[2]]))
                    R = self.hold(build(Q, [ev[3]]))
                    if kind == "runchain":
                        r = self.eng.run([P, Q, R], args=_args(P))
                    else:
                        self.eng.run(P, args=_args(P))
                        self.eng.run(Q, args=_args(Q))
                        r = self.eng.run(R, args=_args(R))
                    self.last, new = R, (ev[1], ev[2], ev[3])
                elif kind == "compilerun":
                    P = self.hold(build(self.last, [ev[1]]))
                    C = P.compile(compiler=self.eng.backend.compiler)
                    if not self.check_snapshots(res, "compile", case):
                        return False
                    r = self.eng.run(C, args=_args(P))
                    self.last, new = P, (ev[1],)
                elif kind == "bad":
                    P = self.hold(build(self.last, [ev[1]], BAD))
                    try:
                        self.eng.run(P, args=_args(P))
                    except Exception:
                        ok = self.check_snapshots(res, "failed-run", case)
                        # the engine may hold a half-applied segment: a reset must bring it back
                        self.eng.reset()
                        self.frs, self.last, self.calls = (), None, 0
                        return ok
                    res.violation(f"C09|bad-program-accepted|{ev[1]}|{be}", f"{ev} ran without error", case)
                    return False
                else:
                    raise RuntimeError(ev)
            except Exception as e:
                sig = f"C09|raises|{kind}|{be}"
                if be == "bosonic" and (self.calls >= 1 or kind == "runlist" or kind.startswith("runchain")):
                    sig = BOSONIC_RESTART
                res.violation(sig, f"{ev} after fragments {self.frs} raised {type(e).__name__}: {e}", case)
                return False
        self.calls += 1
        self.frs = self.frs + new
        if not self.check_snapshots(res, kind, case):
            return False
        # compositionality: equals ONE program on a fresh engine
        got = state_data(be, r.state)
        ref_state, ref_anc = reference(be, self.frs)
        if be == "bosonic" and anc_counts(r) != ref_anc and not (self.calls >= 2 or kind == "runlist" or kind.startswith("runchain")):
            res.violation(f"C09|ancilla-samples|{'after-reset' if self.was_reset else 'first-run'}|bosonic", f"after {ev} (fragments since reset: {self.frs}) Result.ancillae_samples holds {anc_counts(r)} outcomes per mode, one fresh run of the same program holds {ref_anc}", case)
            return False
        ok, why = same(got, ref_state)
        if not ok:
            sig = f"C09|sequencing|{kind}|{be}"
            if be == "bosonic" and (self.calls >= 2 or kind == "runlist" or kind.startswith("runchain")):
                sig = BOSONIC_RESTART
            res.violation(sig, f"state after {ev} (fragments since reset: {self.frs}) differs from one fresh run of the concatenated program: {why}", case)
            return False
        # run_progs follows
        if len(self.eng.run_progs) != self.calls + sum(1 for _ in ()) and kind != "runlist":
            pass
        return True

    def rerun_check(self, res, case):
        """running the last user program object again on a fresh engine reproduces the segment (needs the same predecessor state: only for first segments)"""
        if self.last is None or len(self.frs) != 1 or self.calls != 1:
            return
        eng = new_engine(self.backend)
        with warnings.catch_warnings():
            warnings.simplefilter("ignore")
            try:
                r = eng.run(self.last, args=_args(self.last))
            except Exception as e:
                res.violation(f"C09|rerun-raises|{self.backend}", f"running the same Program object again raised {type(e).__name__}: {e}", case)
                return
        ok, why = same(state_data(self.backend, r.state), reference(self.backend, self.frs)[0])
        if not ok:
            res.violation(f"C09|rerun-differs|{self.backend}", f"running the same Program object ({self.frs}) again on a fresh engine gives a different state: {why}", case)


# ----------------------------------------------------------------------------- after a reset: differential against a fresh engine
# The state key merges "engine after reset()" with "fresh engine" - which is exactly what the property promises, so it is
# checked here instead of assumed: after every explored reset a fixed set of continuations is run on the reset engine (the
# history is replayed once per continuation) and on a fresh one; outcomes (states, refusals, measured values left in the user's
# registers) must agree.  All measurements in the continuations are post-selected, hence deterministic.
RESET_PROBES = [
    (("prep",), ("ffprev",)),  # feed-forward of a value nobody measured since the reset: refused by a fresh engine
    (("meas",), ("loss",), ("ffprev",)),
    (("prep", "newdel"), ("delspare",)),
    (("loss2",),),
]
_FRESH = {}


def run_probe(w, probe):
    out, last = [], w.last
    for frs in probe:
        P = build(last, list(frs))
        with warnings.catch_warnings():
            warnings.simplefilter("ignore")
            try:
                r = w.eng.run(P, args=_args(P))
            except Exception as e:  # noqa: BLE001
                out.append(("raises", type(e).__name__))
                break
        last = P
        vals = np.array([np.nan if P.reg_refs[k].val is None else complex(np.ravel(P.reg_refs[k].val)[0]) for k in sorted(P.reg_refs)], dtype=complex)
        out.append(("ok", state_data(w.backend, r.state) + [vals]))
    return out


def same_outcome(a, b):
    if [x[0] for x in a] != [x[0] for x in b]:
        return False, f"{[x[0] if x[0] == 'ok' else x for x in a]} vs {[x[0] if x[0] == 'ok' else x for x in b]}"
    for k, (x, y) in enumerate(zip(a, b)):
        if x[0] == "raises":
            if x != y:
                return False, f"segment {k}: {x} vs {y}"
            continue
        xa = [np.nan_to_num(np.asarray(v, dtype=complex), nan=-77.0) for v in x[1]]
        ya = [np.nan_to_num(np.asarray(v, dtype=complex), nan=-77.0) for v in y[1]]
        ok, why = same(xa, ya)
        if not ok:
            return False, f"segment {k}: {why}"
    return True, ""


def reset_probes(backend, hist, res, case):
    for k, probe in enumerate(RESET_PROBES):
        if (backend, k) not in _FRESH:
            _FRESH[(backend, k)] = run_probe(World(backend), probe)
        w = rebuild(backend, hist + (("reset",),))
        got = run_probe(w, probe)
        res.stats["after_reset_continuations"] += 1
        ok, why = same_outcome(got, _FRESH[(backend, k)])
        if not ok:
            res.violation(f"C09|after-reset-differs-from-fresh|{backend}", f"history {[list(e) for e in hist]} then reset(): running the segments {[list(f) for f in probe]} gives {why} (reset engine vs fresh engine; states, refusals and the measured values left in the program's registers are compared)", dict(case, probe=k))
            return


def events(backend, quick):
    evs = [("reset",)]
    fr = avail(backend)
    for f in fr:
        evs += [("run", f), ("compilerun", f), ("runopt", f)]
    pairs = list(itertools.product(fr, fr))
    if quick:
        pairs = [p for k, p in enumerate(pairs) if k % 5 == 0 or p[0] == p[1]]
    for a, b in pairs:
        if (a == "free") != (b == "free"):
            continue  # one args dict is bound to every program of the list: an unknown name is (rightly) an error
        evs.append(("runlist", a, b))
    # a value measured two segments earlier, fed forward across a segment that measures nothing
    for a in MEASURING:
        for b in ("prep", "loss", "dagger"):
            evs.append(("runchain", a, b, "ffprev"))
            evs.append(("runchain-seq", a, b, "ffprev"))
    for b in BAD:
        evs.append(("bad", b))
    return evs


def rebuild(backend, hist):
    w = World(backend)
    dummy = Res()
    for ev in hist:
        ok = w.apply(ev, dummy, {})
        if ok is False:
            raise RuntimeError(f"history {hist} does not replay: {dummy.viol}")
    return w


def expand(task):
    backend, quick, hists, maxfr = task[:4]
    part, parts = task[4:] if len(task) > 4 else (0, 1)  # a slice of the events (so that a small frontier still fills all workers)
    res = Res()
    res.extra = []
    for hist in hists:
        for ev in events(backend, quick)[part::parts]:
            w = rebuild(backend, hist)
            nfr = len(w.frs) + (3 if ev[0].startswith("runchain") else 2 if ev[0] == "runlist" else 1 if ev[0] in ("run", "runopt", "compilerun") else 0)
            if nfr > maxfr:
                continue
            # feed-forward of an earlier outcome is only defined once mode 0 has been measured
            before = list(w.frs)
            skip = False
            for f in ev[1:]:
                if f == "ffprev" and not any(x in MEASURING for x in before):
                    skip = True
                if f == "delspare" and "delspare" in before:
                    skip = True  # a mode can be deleted once
                before.append(f)
            if skip:
                continue
            res.n += 1
            case = {"backend": backend, "hist": [list(e) for e in hist], "event": list(ev)}
            ok = w.apply(ev, res, case)
            if ok is None:
                res.n -= 1
                continue
            if ok:
                w.rerun_check(res, case)
                if ev[0] == "reset":
                    reset_probes(backend, hist, res, case)
                res.extra.append(((backend, w.frs, w.calls > 0), hist + (ev,)))
    return res


def ancilla_histories(res):
    """bosonic simulator, sampled measurement-based squeezing: every history over {run, reset} of length <= 4 that ends in
    a run; the ancilla outcomes reported by each Result are those of its own run since the last reset - and stay so"""
    for hist in itertools.product(("run", "reset"), repeat=4):
        for L in range(1, 5):
            h = hist[:L]
            if h[-1] != "run" or h[0] == "reset" or (L < 4 and hist[L:] != ("run",) * (4 - L)):
                continue
            res.n += 1
            res.nt += 1
            case = {"ancilla_history": list(h)}
            w = World("bosonic")
            results, expected, since = [], [], 0
            try:
                for ev in h:
                    if ev == "reset":
                        w.eng.reset()
                        w.last, since = None, 0
                    else:
                        P = build(w.last, ["msshot"])
                        with warnings.catch_warnings():
                            warnings.simplefilter("ignore")
                            results.append(w.eng.run(P))
                        w.last = P
                        since += 1
                        expected.append(since)
            except Exception as e:  # noqa: BLE001
                res.violation(BOSONIC_RESTART if "run" in h[:-1] else f"C09|ancilla-samples|raises|{type(e).__name__}", f"history {h} raised {e!r}", case)
                continue
            got = [anc_counts(r).get(0, 0) for r in results]
            if got != expected:
                res.violation("C09|ancilla-samples|history|bosonic", f"history {list(h)} on the bosonic engine (each run applies one sampled MSgate to mode 0): the Results report {got} ancilla outcomes for mode 0, the runs since the last reset are {expected}", case)
    return res


def compile_isolation(res):
    """Program.compile(..., shots=N / cutoff_dim=c) writes its run and backend options into the compiled copy only: the
    user's program keeps its own (empty) options, and a second compile does not change the first compiled copy"""
    import copy as _copy

    from mc.core.ctx import Res as _Res  # noqa: F401

    for compiler in ("gaussian", "fock", "bosonic"):
        for first, second in ((({"shots": 3}), {"shots": 5}), ({"shots": 3, "cutoff_dim": 6}, {"cutoff_dim": 4}), ({"cutoff_dim": 6}, {"shots": 2})):
            res.n += 1
            res.nt += 1
            case = {"compile_isolation": True, "compiler": compiler, "first": first, "second": second}
            P = sf.Program(2)
            with P.context as q:
                ops.Sgate(0.3) | q[0]
                ops.BSgate(0.4, 0.2) | (q[0], q[1])
            before = (_copy.deepcopy(P.run_options), _copy.deepcopy(P.backend_options))
            try:
                with warnings.catch_warnings():
                    warnings.simplefilter("ignore")
                    C1 = P.compile(compiler=compiler, **first)
                    snap1 = (_copy.deepcopy(C1.run_options), _copy.deepcopy(C1.backend_options))
                    C2 = P.compile(compiler=compiler, **second)
            except Exception as e:  # noqa: BLE001
                res.stats[f"compile_isolation:raises:{type(e).__name__}"] += 1
                continue
            after = (P.run_options, P.backend_options)
            if after != before:
                res.violation("C09|user-program-modified|compile-options", f"Program.compile(compiler={compiler!r}, **{first}) then **{second}: the user's program now has run_options={after[0]}, backend_options={after[1]} (before: {before})", case)
            if (C1.run_options, C1.backend_options) != snap1:
                res.violation("C09|compiled-copy-modified|second-compile", f"after a second compile with {second} the first compiled copy (compiled with {first}) has run_options={C1.run_options}, backend_options={C1.backend_options} (had {snap1})", case)
            want2 = ({k: v for k, v in second.items() if k == "shots"}, {k: v for k, v in second.items() if k == "cutoff_dim"})
            if (C2.run_options, C2.backend_options) != want2:
                res.violation("C09|compiled-copy|options", f"compile with {second} after one with {first}: the copy carries run_options={C2.run_options}, backend_options={C2.backend_options}, expected {want2}", case)
    return res


def run(ctx):
    global CUTOFF
    ctx.add(compile_isolation(Res()))
    quick = ctx.tier == "quick"
    CUTOFF = 5 if quick else 7  # the oracle is differential at one cutoff: the value only sets the cost (workers inherit it)
    plans = {"gaussian": (3, 3) if quick else (4, 4), "fock": (2, 2) if quick else (3, 4), "bosonic": (2, 2) if quick else (3, 3)}
    total = 0
    per = {}
    for backend, (maxfr, depth) in plans.items():
        seen = {(backend, (), False)}
        frontier = [()]
        levels = []
        complete = 0
        for d in range(1, depth + 1):
            if ctx.time_left() < 3:
                ctx.cap_hit(f"{backend}: time budget before depth {d}")
                break
            chunk = max(1, len(frontier) // (ctx.procs * 3) or 1)
            parts = max(1, (ctx.procs * 2) // max(1, len(frontier)))
            tasks = [(backend, quick, frontier[i : i + chunk], maxfr, k, parts) for i in range(0, len(frontier), chunk) for k in range(parts)]
            nxt = []
            n0 = ctx.n
            aborted = False
            for r in ctx.pmap(expand, tasks):
                ctx.add(r)
                for key, hist in r.extra:
                    if key not in seen:
                        seen.add(key)
                        nxt.append(hist)
                if ctx.time_left() < 0:
                    aborted = True
                    break
            if aborted:
                ctx.close()
                ctx.cap_hit(f"{backend}: time budget hit inside depth {d}")
                break
            levels.append({"depth": d, "expanded": len(frontier), "transitions": ctx.n - n0, "new_states": len(nxt)})
            complete = d
            frontier = nxt
            if not frontier:
                break
        per[backend] = {"max_fragments_since_reset": maxfr, "completed_depth": complete, "states": len(seen), "levels": levels}
        total += len(seen)
        if frontier and len(ctx.samples) < 6:
            ctx.samples.append({"backend": backend, "history": [list(e) for e in frontier[len(frontier) // 2]]})
    ctx.add(ancilla_histories(Res()))
    if not ctx.samples:
        ctx.samples.append({"history": [["run", "prep"], ["runlist", "dagger", "meas"], ["reset"]]})
    ctx.cov.update({"states": total, "transitions": ctx.n, "traces_validated_against_impl": ctx.n, "configurations": per, "evaluations": ctx.n, "distinct_nontrivial": total,
                    "fragments": list(FRAGS), "raising_fragments": list(BAD)})
    ctx.assumptions += [
        "state key = (backend, fragments executed since the last reset, engine has run): after a passed oracle the engine state is a function of it; merging 'after reset()' with 'fresh' is not assumed but checked: after every explored reset four fixed continuations (incl. a feed-forward of a value nobody measured since the reset, a three-segment feed-forward, mode creation/deletion) are run on the reset engine and on a fresh one and must agree in states, refusals and measured values left in the registers",
        "reset() of an engine that never ran is not explored (the property speaks about behaviour after a reset of a used engine)",
        "snapshot excludes Program.locked, bound free-parameter values and RegRef.val, which running is documented to set",
    ]


def replay(case):
    if case.get("compile_isolation"):
        r = compile_isolation(Res())
        return [(s, w) for s, w, c in r.viol if c["compiler"] == case["compiler"] and c["first"] == case["first"] and c["second"] == case["second"]]
    res = Res()
    if "ancilla_history" in case:
        r = ancilla_histories(Res())
        return [(s, wh) for s, wh, c in r.viol if c["ancilla_history"] == case["ancilla_history"]]
    if "probe" in case:
        reset_probes(case["backend"], tuple(tuple(e) for e in case["hist"]), res, case)
        return [(s, wh) for s, wh, _ in res.viol]
    w = rebuild(case["backend"], tuple(tuple(e) for e in case["hist"]))
    ok = w.apply(tuple(case["event"]), res, case)
    if ok:
        w.rerun_check(res, case)
    return [(s, wh) for s, wh, _ in res.viol]
