"""C04 - every internal circuit reordering respects mode and measurement dependencies.

Form S x N: every command sequence up to length L over a 25-letter abstract alphabet on 3 modes (one-mode op,
one-mode marked op, two-mode op on every ordered pair, marked two-mode op, multi-mode measurement on every subset,
op whose parameter depends on the measurement of another mode) is pushed through the real list_to_grid,
grid_to_DAG, list_to_DAG, DAG_to_list, group_operations (two predicates), optimize_circuit (unmergeable ops) and
GBS.compile.  For short sequences networkx' topological sorts are replaced by a chooser and the routines are
re-run for EVERY linearisation the sort may legally return (choice-DFS with replay).
"""
import itertools

import networkx as nx
import numpy as np

from strawberryfields import ops
from strawberryfields import program_utils as pu
from strawberryfields.compilers import compiler_db
from strawberryfields.program_utils import Command, RegRef

from mc.core.ctx import Res

ID = "C04"
LEVEL = "exploration"
RULE = (
    "all command sequences up to length L over 33 letters on 3 modes (+1 created in mid-program) x 9 routines (x every legal linearisation answer for short "
    "sequences); a case is non-trivial when at least one routine returned an order different from the input order"
)

N = 3
ONE_CLASSES = [ops.Rgate, ops.Sgate, ops.Kgate, ops.Vgate, ops.Pgate, ops.Xgate, ops.Zgate]


class Crash(Exception):
    """an exception other than CircuitError escaped from a routine"""


def letters():
    ls = []
    for i in range(N):
        ls.append(("U1", (i,)))  # unmarked one-mode op
    for i in range(N):
        ls.append(("MF", (i,)))  # MeasureFock on one mode (marked for predicate 1)
    for p in itertools.permutations(range(N), 2):
        ls.append(("BS", p))
    for p in itertools.combinations(range(N), 2):
        ls.append(("S2", p))  # marked for predicate 2
    for k in (2, 3):
        for s in itertools.combinations(range(N), k):
            ls.append(("MF", s))
    for i, j in itertools.permutations(range(N), 2):
        ls.append(("FF", (i, j)))  # op on mode j whose parameter is the measurement of mode i
    for i in range(N):
        ls.append(("FS", (i,)))  # op on mode i whose parameter is the measurement of mode i itself
    for i, j in itertools.combinations(range(N), 2):
        ls.append(("FB", (i, j)))  # two-mode op on (i, j) whose parameter is the measurement of mode i
    ls.append(("NW", (N,)))  # creation of a further mode in mid-program (a command that takes no existing subsystem)
    ls.append(("UN", (N,)))  # one-mode op on the created mode
    return ls


LETTERS = letters()
BASE = [l for l in LETTERS if l[0] not in ("FS", "FB", "NW", "UN")]  # the 25 letters without self-feed operations and mode creation


def build(seq, distinct_classes=False, offset=0):
    """offset > 0: the register has `offset` deleted modes in front, the letters act on modes offset..offset+N-1"""
    regs = [RegRef(i + offset) for i in range(N + 1)]
    cmds = []
    k = 0
    for lab, ms in seq:
        if lab == "U1":
            cls = ONE_CLASSES[k % len(ONE_CLASSES)] if distinct_classes else ops.Rgate
            k += 1
            cmds.append(Command(cls(0.1), [regs[ms[0]]]))
        elif lab == "MF":
            cmds.append(Command(ops.MeasureFock(), [regs[m] for m in ms]))
        elif lab == "BS":
            cmds.append(Command(ops.BSgate(0.3, 0.1), [regs[m] for m in ms]))
        elif lab == "S2":
            cmds.append(Command(ops.S2gate(0.3, 0.1), [regs[m] for m in ms]))
        elif lab == "FF":
            cmds.append(Command(ops.Dgate(regs[ms[0]].par, 0.0), [regs[ms[1]]]))
        elif lab == "FS":
            cmds.append(Command(ops.Dgate(regs[ms[0]].par, 0.0), [regs[ms[0]]]))
        elif lab == "FB":
            cmds.append(Command(ops.BSgate(regs[ms[0]].par, 0.0), [regs[ms[0]], regs[ms[1]]]))
        elif lab == "NW":
            cmds.append(Command(ops._New_modes(1), [regs[N]]))
        elif lab == "UN":
            cls = ONE_CLASSES[k % len(ONE_CLASSES)] if distinct_classes else ops.Rgate
            k += 1
            cmds.append(Command(cls(0.2), [regs[N]]))
    return regs, cmds


def required_pairs(seq):
    """(i, j), i < j, whose relative order every reordering must keep: share a target mode, or one acts on /
    measures the mode whose measured value parametrises the other."""
    req = []
    for i in range(len(seq)):
        li, mi = seq[i]
        ti = {mi[1]} if li == "FF" else set(mi)
        pi = {mi[0]} if li in ("FF", "FS", "FB") else set()
        for j in range(i + 1, len(seq)):
            lj, mj = seq[j]
            tj = {mj[1]} if lj == "FF" else set(mj)
            pj = {mj[0]} if lj in ("FF", "FS", "FB") else set()
            if (ti & tj) or (ti & pj) or (pi & tj):
                req.append((i, j))
    return req


def check_order(name, cmds, out, req, res, case, seq):
    """out must be a permutation of cmds (same objects, same multiplicity) keeping every required pair in order."""
    if len(out) != len(cmds) or sorted(map(id, out)) != sorted(map(id, cmds)):
        res.violation(f"C04|{name}|not-a-permutation", f"{name}({fmt(seq)}) returned {len(out)} commands for {len(cmds)} (lost, duplicated or foreign commands)", case)
        return False
    pos = {id(c): k for k, c in enumerate(out)}
    for i, j in req:
        if pos[id(cmds[i])] > pos[id(cmds[j])]:
            res.violation(f"C04|{name}|order|{seq[i][0]}-{seq[j][0]}", f"{name}({fmt(seq)}) moved command {j} ({seq[j]}) before command {i} ({seq[i]})", case)
            return False
    return True


def fmt(seq):
    return " ".join(f"{l}{list(m)}" for l, m in seq)


# ----------------------------------------------------------------------------- chooser for topological sorts
class SortChooser:
    """Owns nx.algorithms.dag.topological_sort / lexicographical_topological_sort: every call is a choice point whose
    menu is the set of ALL orders the documented contract allows."""

    def __init__(self, prefix):
        self.prefix = list(prefix)
        self.choices = []  # (chosen index, menu size)

    @staticmethod
    def _all_orders(G, key=None, cap=5000):
        nodes = list(G.nodes())
        indeg = {id(n): G.in_degree(n) for n in nodes}
        out = []

        def rec(order, avail, indeg):
            if len(out) >= cap:
                return
            if len(order) == len(nodes):
                out.append(list(order))
                return
            if key is not None and avail:
                kmin = min(key(n) for n in avail)
                cands = [n for n in avail if key(n) == kmin]
            else:
                cands = list(avail)
            for n in cands:
                navail = [a for a in avail if a is not n]
                nd = dict(indeg)
                for s in G.successors(n):
                    nd[id(s)] -= 1
                    if nd[id(s)] == 0:
                        navail.append(s)
                rec(order + [n], navail, nd)

        rec([], [n for n in nodes if indeg[id(n)] == 0], indeg)
        return out

    def _pick(self, menu):
        k = len(self.choices)
        idx = self.prefix[k] if k < len(self.prefix) else 0
        if idx >= len(menu):
            raise RuntimeError("chooser replay diverged: menu shrank")
        self.choices.append((idx, len(menu)))
        return menu[idx]

    def topological_sort(self, G):
        return iter(self._pick(self._all_orders(G)))

    def lexicographical_topological_sort(self, G, key=None):
        return iter(self._pick(self._all_orders(G, key)))

    def __enter__(self):
        self._saved = (nx.algorithms.dag.topological_sort, nx.algorithms.dag.lexicographical_topological_sort, nx.topological_sort, nx.lexicographical_topological_sort)
        nx.algorithms.dag.topological_sort = self.topological_sort
        nx.algorithms.dag.lexicographical_topological_sort = self.lexicographical_topological_sort
        nx.topological_sort = self.topological_sort
        nx.lexicographical_topological_sort = self.lexicographical_topological_sort
        return self

    def __exit__(self, *a):
        (nx.algorithms.dag.topological_sort, nx.algorithms.dag.lexicographical_topological_sort, nx.topological_sort, nx.lexicographical_topological_sort) = self._saved


def all_answers(fn, max_execs=400):
    """Run fn() under every sequence of chooser answers (stateless DFS with replay). Yields (answers, result)."""
    stack = [[]]
    n = 0
    while stack:
        prefix = stack.pop()
        with SortChooser(prefix) as ch:
            result = fn()
        n += 1
        yield [c[0] for c in ch.choices], result
        if n >= max_execs:
            yield None, None  # cap marker
            return
        for i in range(len(prefix), len(ch.choices)):
            for alt in range(1, ch.choices[i][1]):
                stack.append([c[0] for c in ch.choices[:i]] + [alt])


# ----------------------------------------------------------------------------- routines under test
def is_mf(op):
    return isinstance(op, ops.MeasureFock)


def is_s2(op):
    return isinstance(op, ops.S2gate)


def routines(seq, res, case, chooser_mode):
    """Run every routine on the sequence; returns True if any output order differed from the input order."""
    req = required_pairs(seq)
    moved = False

    # 1. list_to_grid ---------------------------------------------------------------
    regs, cmds = build(seq)
    grid = pu.list_to_grid(cmds)
    for w in range(N + 1):
        exp = []
        for k, (lab, ms) in enumerate(seq):
            wires = set(ms)  # FF letters sit on the measured wire and the target wire
            if w in wires:
                exp.append(cmds[k])
        got = grid.get(w, [])
        if [id(c) for c in got] != [id(c) for c in exp]:
            res.violation("C04|list_to_grid|wire-content", f"list_to_grid({fmt(seq)}) wire {w} holds {[str(c) for c in got]}", case)
    extra = set(grid) - set(range(N + 1))
    if extra:
        res.violation("C04|list_to_grid|foreign-wire", f"list_to_grid({fmt(seq)}) produced wires {extra}", case)

    # 2. grid_to_DAG / list_to_DAG: nodes are exactly the commands, closure contains every required pair ----------
    for nm, dag in (("grid_to_DAG", pu.grid_to_DAG(grid)), ("list_to_DAG", pu.list_to_DAG(cmds))):
        if sorted(map(id, dag.nodes())) != sorted(map(id, cmds)):
            res.violation(f"C04|{nm}|nodes", f"{nm}({fmt(seq)}) has {dag.number_of_nodes()} nodes for {len(cmds)} commands", case)
            continue
        if not nx.is_directed_acyclic_graph(dag):
            res.violation(f"C04|{nm}|cycle", f"{nm}({fmt(seq)}) is cyclic", case)
            continue
        for i, j in req:
            if not nx.has_path(dag, cmds[i], cmds[j]):
                res.violation(f"C04|{nm}|missing-dependency|{seq[i][0]}-{seq[j][0]}", f"{nm}({fmt(seq)}) has no path from command {i} to {j}", case)
                break

    # 3..6 under default or all linearisation answers ----------------------------------------------
    def run_all():
        out = {}
        regs, cmds = build(seq)
        out["DAG_to_list"] = (cmds, pu.DAG_to_list(pu.list_to_DAG(cmds)))
        for pname, pred in (("MeasureFock", is_mf), ("S2gate", is_s2)):
            regs, cmds = build(seq)
            out["group_operations:" + pname] = (cmds, pu.group_operations(cmds, pred), pred)
        regs, cmds = build(seq, distinct_classes=True)
        out["optimize_circuit"] = (cmds, pu.optimize_circuit(cmds))
        regs, cmds = build(seq)
        try:
            out["GBS.compile"] = (cmds, compiler_db["gbs"]().compile(list(cmds), regs))
        except pu.CircuitError as e:
            out["GBS.compile"] = (cmds, e)
        # the same circuit on a register whose first mode has been deleted (active register = modes 1..N)
        regs, cmds = build(seq, offset=1)
        try:
            out["GBS.compile/deleted-mode"] = (cmds, compiler_db["gbs"]().compile(list(cmds), regs))
        except pu.CircuitError as e:
            out["GBS.compile/deleted-mode"] = (cmds, e)
        except Exception as e:
            out["GBS.compile/deleted-mode"] = (cmds, Crash(f"{type(e).__name__}: {e}"))
        return out

    if chooser_mode:
        runs = all_answers(run_all)
    else:
        runs = [([], run_all())]
    for answers, out in runs:
        if answers is None:
            res.stats["chooser_cap_hit"] += 1
            break
        res.stats["executions"] += 1
        c2 = dict(case, answers=answers)
        cmds, got = out["DAG_to_list"]
        if check_order("DAG_to_list", cmds, got, req, res, c2, seq) and [id(c) for c in got] != [id(c) for c in cmds]:
            moved = True
        cmds, got = out["optimize_circuit"]
        if check_order("optimize_circuit", cmds, got, req, res, c2, seq) and [id(c) for c in got] != [id(c) for c in cmds]:
            moved = True
        for pname in ("MeasureFock", "S2gate"):
            cmds, (A, B, C), pred = out["group_operations:" + pname]
            nm = "group_operations"
            if check_order(nm, cmds, list(A) + list(B) + list(C), req, res, c2, seq):
                if [id(c) for c in list(A) + list(B) + list(C)] != [id(c) for c in cmds]:
                    moved = True
            if any(pred(c.op) for c in A) or any(pred(c.op) for c in C):
                res.violation(f"C04|{nm}|marked-outside-B|{pname}", f"group_operations({fmt(seq)}, {pname}) left a marked operation in A or C", c2)
            if not B and C:
                res.violation(f"C04|{nm}|C-without-B|{pname}", f"group_operations({fmt(seq)}, {pname}) returned empty B with non-empty C", c2)
        for gkey in ("GBS.compile", "GBS.compile/deleted-mode"):
          cmds, got = out[gkey]
          if isinstance(got, Crash):
            res.violation("C04|GBS.compile|crash|deleted-mode", f"GBS.compile({fmt(seq)}) on a register with a deleted first mode raised {got}", c2)
          elif isinstance(got, Exception):
            res.stats["gbs_rejected"] += 1
          else:
              res.stats["gbs_accepted"] += 1
              src_rest = [c for c in cmds if not is_mf(c.op)]
              out_rest = [c for c in got if not is_mf(c.op)]
              out_mf = [c for c in got if is_mf(c.op)]
              measured = sorted({r.ind for c in cmds if is_mf(c.op) for r in c.reg})
              n_meas = sum(len(c.reg) for c in cmds if is_mf(c.op))
              if sorted(map(id, src_rest)) != sorted(map(id, out_rest)):
                  res.violation("C04|GBS.compile|commands", f"GBS.compile({fmt(seq)}) changed the non-measurement commands", c2)
              elif len(out_mf) != 1 or got[-1] is not out_mf[0] or [r.ind for r in out_mf[0].reg] != measured or n_meas != len(measured):
                  res.violation("C04|GBS.compile|measurement", f"GBS.compile({fmt(seq)}) output measurement {[str(c) for c in out_mf]} for measured modes {measured}", c2)
              else:
                  # order of the Gaussian part, and nothing that had to follow a measurement was moved before it
                  idx = [k for k, c in enumerate(cmds) if not is_mf(c.op)]
                  pos = {id(c): k for k, c in enumerate(got)}
                  for i, j in req:
                      a, b = cmds[i], cmds[j]
                      if is_mf(a.op) and not is_mf(b.op):
                          res.violation("C04|GBS.compile|order|MF-before", f"GBS.compile({fmt(seq)}) accepted a circuit where command {j} must follow the measurement {i}", c2)
                          break
                      if not is_mf(a.op) and not is_mf(b.op) and pos[id(a)] > pos[id(b)]:
                          res.violation("C04|GBS.compile|order", f"GBS.compile({fmt(seq)}) swapped dependent commands {i},{j}", c2)
                          break
    return moved


def work(task):
    prefix, L, chooser_mode, full = task
    res = Res()
    alpha = LETTERS if full else BASE
    for k in range(0, L - len(prefix) + 1):
        for tail in itertools.product(alpha, repeat=k):
            seq = tuple(prefix) + tail
            if not seq:
                continue
            res.n += 1
            case = {"seq": [[l, list(m)] for l, m in seq], "chooser": chooser_mode}
            if routines(seq, res, case, chooser_mode):
                res.nt += 1
                res.sample({"sequence": fmt(seq), "all_linearisations": chooser_mode})
    return res


def run(ctx):
    quick = ctx.tier == "quick"
    # (L, all linearisation answers?, full 31-letter alphabet?)
    plans = [(4, False, False), (3, False, True), (3, True, False), (2, True, True)] if quick else [(5, False, False), (4, False, True), (4, True, False), (3, True, True)]
    expected = 0
    for L, mode, full in plans:
        alpha = LETTERS if full else BASE
        expected += sum(len(alpha) ** k for k in range(1, L + 1))
        plen = min(L, 2)
        tasks = []
        for k in range(1, plen):
            for pre in itertools.product(alpha, repeat=k):
                tasks.append((pre, k, mode, full))
        for pre in itertools.product(alpha, repeat=plen):
            tasks.append((pre, L, mode, full))
        for r in ctx.pmap(work, tasks, chunksize=4):
            ctx.add(r)
            if ctx.time_left() < 0:
                ctx.close()
                ctx.cap_hit(f"time budget hit in L={L} chooser={mode} full={full}")
                break
    ctx.cov["space_size_closed_form"] = expected
    if ctx.exhaustive and ctx.n != expected:
        raise RuntimeError(f"enumerated {ctx.n}, closed form {expected}")
    ctx.cov["letters"] = len(LETTERS)
    ctx.cov["bounds"] = {"plans (L, all linearisations, 33-letter alphabet)": [list(p) for p in plans], "modes": N}
    ctx.assumptions += [
        "dependency reference: two commands must keep their order iff they share a target mode or one targets the mode whose measured value parametrises the other (O(L^2) pairwise check on the input)",
        "legal answers of topological_sort = all topological orders; of lexicographical_topological_sort = all orders obtained by repeatedly taking any available node of minimal key",
    ]


def replay(case):
    res = Res()
    seq = tuple((l, tuple(m)) for l, m in case["seq"])
    routines(seq, res, {"seq": case["seq"], "chooser": case.get("chooser", False)}, case.get("chooser", False))
    return [(s, w) for s, w, _ in res.viol]
