"""C08 - register and simulator agree on which modes exist, for every history.

Form E: breadth-first search over histories of {New(1), New(2), Del one/two modes, tagging preparation, swap,
measurement, illegal uses of deleted/unknown modes, segment boundary (run + successor program), probe with a fresh
integer-register program} on one engine per backend.  State = (reference register, pending events of the open
segment, segment count); every state is rebuilt by replaying its history on a fresh real Engine.  Reference =
dict index -> (alive, tag).  A mode's tag is the displacement of the coherent state prepared in it, so a mode's data
identifies it in the returned state.
"""
import warnings

import numpy as np

import strawberryfields as sf
from strawberryfields import ops
from strawberryfields import program_utils as pu

from mc.core.chooser import install_default
from mc.core.ctx import Res

install_default()  # post-selected homodyne draws the unobserved conjugate quadrature from numpy.random

ID = "C08"
LEVEL = "model_checking"
RULE = __doc__

INIT_N = 2
CUTOFF = 6
ERRS = (pu.RegRefError, ValueError, IndexError)
# one recorded defect: the bosonic simulator restarts from vacuum (and renumbers modes) at every program segment,
# so nothing observed in a later bosonic segment can be attributed to anything else
BOSONIC_RESTART = "C08|later-segment-restarts|bosonic"


def amp(i):
    return 0.1 * (i + 1)


SQ_R, SQ_PHI = 0.3, 0.2  # tag states of the phase-space simulators are displaced AND squeezed
MIX = (0.6, 0.4)  # beamsplitter with a complex phase: mixing two tagged modes leaves them correlated with a complex <a_i^ a_j>


class Ref:
    """index -> alive, plus the Gaussian state (hbar = 2, xxpp over all indices ever created; dead modes are vacuum).
    rich = displaced squeezed tags and the Mix event (phase-space simulators); otherwise coherent tags (Fock)."""

    def __init__(self, rich=False):
        self.rich = rich
        self.alive = [True] * INIT_N
        self.mu = np.zeros(2 * INIT_N)
        self.V = np.eye(2 * INIT_N)

    def copy(self):
        r = Ref.__new__(Ref)
        r.rich, r.alive, r.mu, r.V = self.rich, list(self.alive), self.mu.copy(), self.V.copy()
        return r

    @property
    def n(self):
        return len(self.alive)

    @property
    def active(self):
        return [i for i, a in enumerate(self.alive) if a]

    @property
    def tag(self):
        """<x_i>/2 of every index (the coherent amplitude for plain tags)"""
        return [self.mu[i] / 2 for i in range(self.n)]

    def key(self):
        return (tuple(self.alive), (np.round(self.mu, 6) + 0.0).tobytes(), (np.round(self.V, 6) + 0.0).tobytes())

    def _ix(self, modes):
        return list(modes) + [m + self.n for m in modes]

    def _reset(self, i):
        ix = self._ix([i])
        self.mu[ix] = 0
        self.V[ix, :] = 0
        self.V[:, ix] = 0
        self.V[np.ix_(ix, ix)] = np.eye(2)

    def _symp(self, S, modes):
        ix = self._ix(modes)
        self.mu[ix] = S @ self.mu[ix]
        self.V[ix, :] = S @ self.V[ix, :]
        self.V[:, ix] = self.V[:, ix] @ S.T

    def reduced(self, modes):
        ix = self._ix(modes)
        return self.mu[ix], self.V[np.ix_(ix, ix)]

    def apply(self, ev):
        k = ev[0]
        if k == "New":
            n0, n1 = self.n, self.n + ev[1]
            mu, V = np.zeros(2 * n1), np.eye(2 * n1)
            old = list(range(n0)) + [n1 + i for i in range(n0)]
            mu[old] = self.mu
            V[np.ix_(old, old)] = self.V
            self.mu, self.V = mu, V
            self.alive += [True] * ev[1]
        elif k == "Del":
            for i in ev[1]:
                self.alive[i] = False
                self._reset(i)
        elif k == "Tag":
            i = ev[1]
            self._reset(i)
            if self.rich:
                from mc.ref import phase as ph

                mu, V = ph.displaced_squeezed(amp(i), SQ_R, SQ_PHI)
                ix = self._ix([i])
                self.mu[ix] = mu
                self.V[np.ix_(ix, ix)] = V
            else:
                self.mu[i] = 2 * amp(i)
        elif k == "Swap":
            from mc.ref import phase as ph

            self._symp(ph.beamsplitter(np.pi / 2, 0.0), [ev[1], ev[2]])
        elif k == "Mix":
            from mc.ref import phase as ph

            self._symp(ph.beamsplitter(*MIX), [ev[1], ev[2]])
        elif k in ("Meas", "MeasF"):
            if self.rich:
                # homodyne x = 0 on mode i: Gaussian conditioning of the rest, measured mode to vacuum
                from mc.ref import phase as ph

                g = ph.GState(self.n, self.mu, self.V).condition_homodyne(ev[1], 0.0, 0.0)
                self.mu, self.V = g.mu, g.V
            else:
                self._reset(ev[1])


def enabled(ref, pending, segs, cfg):
    cap_total, cap_active, max_segs, max_pending = cfg[:4]
    act = ref.active
    evs = []
    if len(pending) < max_pending:
        for k in (1, 2):
            if len(ref.alive) + k <= cap_total and len(act) + k <= cap_active:
                evs.append(("New", k))
        if len(act) >= 2:
            for i in act:
                evs.append(("Del", (i,)))
        if len(act) >= 3:
            for a in range(len(act)):
                for b in range(len(act)):
                    if a != b and abs(a - b) == 1:
                        evs.append(("Del", (act[a], act[b])))
        for i in act:
            evs.append(("Tag", i))
            evs.append(("Meas", i))
            if len(cfg) > 4 and cfg[4] == "photon-counting":
                evs.append(("MeasF", i))
        for a in range(len(act)):
            for b in range(len(act)):
                if a != b:
                    evs.append(("Swap", act[a], act[b]))
                if a < b and ref.rich:
                    evs.append(("Mix", act[a], act[b]))
        dead = [i for i, a in enumerate(ref.alive) if not a]
        for i in dead[:2]:
            evs.append(("BadUseInt", i))
            evs.append(("BadDelInt", i))
        evs.append(("BadUseInt", len(ref.alive)))
        evs.append(("BadStale",))
    if segs < max_segs:
        evs.append(("Seg",))
        for k in sorted({len(act), len(ref.alive)}):
            if k >= 1:
                evs.append(("Probe", k))
    return evs


class Impl:
    """One real engine plus the chain of programs, driven event by event."""

    def __init__(self, backend):
        self.backend = backend
        self.rich = backend != "fock"
        opts = {"cutoff_dim": CUTOFF} if backend == "fock" else None
        self.eng = sf.Engine(backend, backend_options=opts)
        self.prog = sf.Program(INIT_N)
        self.last_deleted = None  # a RegRef object that was deleted in the open segment (stale reference)
        self.result = None

    def _do(self, fn):
        with warnings.catch_warnings():
            warnings.simplefilter("ignore")
            try:
                with self.prog.context:
                    fn()
            finally:
                if pu.Program_current_context is not None:
                    pu.Program_current_context = None

    def apply(self, ev):
        """returns None or the exception raised"""
        k = ev[0]
        rr = self.prog.reg_refs
        try:
            if k == "New":
                self._do(lambda: ops.New(ev[1]))
            elif k == "Del":
                refs = [rr[i] for i in ev[1]]
                self.last_deleted = refs[0]
                self._do(lambda: ops.Del | (refs if len(refs) > 1 else refs[0]))
            elif k == "Tag":
                if self.rich:
                    self._do(lambda: ops.DisplacedSqueezed(amp(ev[1]), 0.0, SQ_R, SQ_PHI) | rr[ev[1]])
                else:
                    self._do(lambda: ops.Coherent(amp(ev[1]), 0.0) | rr[ev[1]])
            elif k == "Mix":
                self._do(lambda: ops.BSgate(*MIX) | (rr[ev[1]], rr[ev[2]]))
            elif k == "Swap":
                self._do(lambda: ops.BSgate(np.pi / 2, 0.0) | (rr[ev[1]], rr[ev[2]]))
            elif k == "Meas":
                self._do(lambda: ops.MeasureHomodyne(0.0, select=0.0) | rr[ev[1]])
            elif k == "MeasF":
                # product of coherent states: whatever is counted, only the measured mode changes (reset to vacuum)
                self._do(lambda: ops.MeasureFock() | rr[ev[1]])
            elif k == "BadUseInt":
                self._do(lambda: ops.Dgate(0.5, 0.0) | ev[1])
            elif k == "BadDelInt":
                self._do(lambda: ops.Del | ev[1])
            elif k == "BadStale":
                if self.last_deleted is None:
                    return pu.RegRefError("no stale reference available")
                self._do(lambda: ops.Dgate(0.5, 0.0) | self.last_deleted)
            elif k == "Seg":
                self.run_segment()
            elif k == "Probe":
                p = sf.Program(ev[1])
                with warnings.catch_warnings():
                    warnings.simplefilter("ignore")
                    self.result = self.eng.run(p)
                self.prog = sf.Program(p)
                self.last_deleted = None
        except Exception as e:  # noqa
            return e
        return None

    def run_segment(self):
        with warnings.catch_warnings():
            warnings.simplefilter("ignore")
            self.result = self.eng.run(self.prog)
        self.prog = sf.Program(self.prog)
        self.last_deleted = None


def observe_register(prog):
    return [r.ind for r in prog.register], len(prog.reg_refs)


def check_state(impl, ref, backend, st=None):
    """after a run: returned state has exactly the active modes in index order, each carrying its own data"""
    bad = []
    act = ref.active
    st = impl.result.state if st is None else st
    modes = list(impl.eng.backend.get_modes())
    if modes != act:
        bad.append(("backend-modes", f"backend.get_modes() = {modes}, register says {act}"))
    if st.num_modes != len(act):
        bad.append(("num-modes", f"state has {st.num_modes} modes, {len(act)} are active"))
        return bad
    names = list(st.mode_names.values()) if isinstance(st.mode_names, dict) else list(st.mode_names)
    if names != [f"q[{i}]" for i in act]:
        bad.append(("mode-names", f"state.mode_names = {names}, active indices {act}"))
    if st is impl.result.state if impl.result is not None else False:
        bad += check_substates(impl, ref, backend)
        if bad:
            return bad
    if backend != "fock":
        # the whole Gaussian state of the active modes: every mode carries its own data AND its own correlations
        mu_r, V_r = ref.reduced(act)
        if backend == "gaussian":
            mu, V = np.array(st.means()), np.array(st.cov())
        else:
            kk = len(act)
            ix = [2 * j for j in range(kk)] + [2 * j + 1 for j in range(kk)]
            mu, V = np.real(np.array(st.means())[0][ix]), np.real(np.array(st.covs())[0][np.ix_(ix, ix)])
        # post-selected homodyne projects on a finitely squeezed state (eps = 2e-4): conditional updates agree to ~1e-6
        tol = 1e-5
        d1, d2 = float(np.max(np.abs(mu - mu_r))), float(np.max(np.abs(V - V_r)))
        if d1 > tol:
            k = int(np.argmax(np.abs(mu - mu_r))) % len(act)
            bad.append(("mode-data", f"mode k={k} (index {act[k]}) has means differing from its own data by {d1:.3g}"))
        elif d2 > tol:
            bad.append(("mode-correlations", f"covariance of the active modes {act} differs from the modes' own data by {d2:.3g}"))
        return bad
    tol = 2e-3
    for k, i in enumerate(act):
        with warnings.catch_warnings():
            warnings.simplefilter("ignore")
            x = st.quad_expectation(k, 0)[0]
            p = st.quad_expectation(k, np.pi / 2)[0]
        exp = 2 * ref.tag[i]
        if abs(x - exp) > tol or abs(p) > tol:
            bad.append(("mode-data", f"mode k={k} (index {i}) has <x>={float(np.real(x)):.4f}, <p>={float(np.real(p)):.4f}; its own data is <x>={exp:.4f}"))
            break
    return bad


def check_substates(impl, ref, backend):
    """backend.state(modes=S) after any history: one mode at a time, a descending pair, a deleted and an unknown index"""
    bad = []
    act = ref.active
    b = impl.eng.backend

    def one_mode_x(st, k):
        with warnings.catch_warnings():
            warnings.simplefilter("ignore")
            return float(np.real(st.quad_expectation(k, 0)[0]))

    tol = 1e-5 if backend != "fock" else 2e-3
    for i in act:
        try:
            with warnings.catch_warnings():
                warnings.simplefilter("ignore")
                st = b.state(modes=[i])
            names = list(st.mode_names.values()) if isinstance(st.mode_names, dict) else list(st.mode_names)
            x = one_mode_x(st, 0)
        except Exception as e:  # noqa: BLE001
            bad.append(("state(modes)-raises", f"backend.state(modes=[{i}]) raised {type(e).__name__}: {str(e)[:80]} although mode {i} is active ({act})"))
            return bad
        if st.num_modes != 1 or names != [f"q[{i}]"]:
            bad.append(("state(modes)-label", f"backend.state(modes=[{i}]) is labelled {names} ({st.num_modes} modes)"))
            return bad
        if abs(x - ref.mu[i]) > tol:
            bad.append(("state(modes)-data", f"backend.state(modes=[{i}]) has <x> = {x:.4f}, mode {i}'s own data is {ref.mu[i]:.4f} (active modes {act})"))
            return bad
    if len(act) >= 2:
        a, c = act[-1], act[0]
        try:
            with warnings.catch_warnings():
                warnings.simplefilter("ignore")
                st = b.state(modes=[a, c])
            names = list(st.mode_names.values()) if isinstance(st.mode_names, dict) else list(st.mode_names)
            xs = [one_mode_x(st, 0), one_mode_x(st, 1)]
        except Exception as e:  # noqa: BLE001
            bad.append(("state(modes)-raises", f"backend.state(modes=[{a}, {c}]) raised {type(e).__name__}: {str(e)[:80]}"))
            return bad
        # whatever order is returned (the bosonic simulator documents ascending order), label k must describe position k
        for k, nm in enumerate(names):
            idx = int(nm[2:-1]) if nm.startswith("q[") else None
            if idx not in (a, c) or abs(xs[k] - ref.mu[idx]) > tol:
                bad.append(("state(modes)-label-vs-data", f"backend.state(modes=[{a}, {c}]) labels position {k} as {nm} but it holds <x> = {xs[k]:.4f} (own data of the two modes: {ref.mu[a]:.4f}, {ref.mu[c]:.4f})"))
                return bad
    # an invalid index alone, and mixed with an active mode on either side
    for d in [i for i, al in enumerate(ref.alive) if not al][:1] + [len(ref.alive)]:
        for sel in [[d]] + ([[act[0], d], [d, act[-1]]] if act else []):
            try:
                with warnings.catch_warnings():
                    warnings.simplefilter("ignore")
                    st = b.state(modes=sel)
                bad.append(("state(modes)-accepts-invalid" + ("" if len(sel) == 1 else "|mixed-with-active"), f"backend.state(modes={sel}) returned a state ({list(st.mode_names.values()) if isinstance(st.mode_names, dict) else st.mode_names}) although mode {d} is {'deleted' if d < len(ref.alive) else 'unknown'} (active modes {act})"))
                return bad
            except ERRS:
                pass
            except Exception as e:  # noqa: BLE001
                bad.append(("state(modes)-wrong-exception", f"backend.state(modes={sel}) raised {type(e).__name__}: {str(e)[:80]}"))
                return bad
    return bad


def step(impl, ref, pending, segs, ev, backend, res, case):
    """apply one event to implementation and reference; record violations. returns (ok, ref, pending, segs)"""
    k = ev[0]
    if k == "Probe":  # a probe first closes and runs the open segment
        ok, ref, pending, segs = step(impl, ref, pending, segs, ("Seg",), backend, res, case)
        if not ok:
            return False, ref, pending, segs
    reg_before = observe_register(impl.prog)
    exc = impl.apply(ev)
    tag = k
    if k.startswith("Bad"):
        if exc is None:
            res.violation(f"C08|accepted-invalid|{k}|{backend}", f"{ev} was accepted instead of raising (register {ref.key()})", case)
            return False, ref, pending, segs
        if not isinstance(exc, ERRS):
            res.violation(f"C08|wrong-exception|{k}|{backend}", f"{ev} raised {type(exc).__name__}: {exc}", case)
            return False, ref, pending, segs
        if observe_register(impl.prog) != reg_before:
            res.violation(f"C08|register-changed-by-rejected-op|{k}|{backend}", f"{ev} was rejected but changed the register", case)
            return False, ref, pending, segs
        return True, ref, pending, segs
    nref = ref.copy()
    if k == "Probe":
        fits = all(nref.alive) and len(nref.alive) == ev[1]
        if fits and exc is not None:
            res.violation(f"C08|probe-rejected|{backend}", f"a fresh Program({ev[1]}) matches the register {ref.key()} but the run raised {type(exc).__name__}: {exc}", case)
            return False, ref, pending, segs
        if not fits:
            if exc is None:
                res.violation(f"C08|probe-accepted|{backend}", f"a fresh Program({ev[1]}) does not match the register {ref.key()} but the engine ran it", case)
                return False, ref, pending, segs
            # the rejected run must leave the engine usable: continue from the previous segment and look at the state
            impl.prog = sf.Program(impl.eng.run_progs[-1])
            impl.last_deleted = None
            with warnings.catch_warnings():
                warnings.simplefilter("ignore")
                st = impl.eng.backend.state()
            bad = check_state(impl, nref, backend, st)
            for what, msg in bad:
                res.violation(f"C08|{what}|after-rejected-probe|{backend}", msg, case)
            return (not bad), nref, (), segs
    elif exc is not None:
        res.violation(BOSONIC_RESTART if (backend == "bosonic" and segs >= 1 and k == "Seg") else f"C08|raises|{tag}|{backend}", f"{ev} on register {ref.key()} with pending {list(pending)} raised {type(exc).__name__}: {exc}", case)
        return False, ref, pending, segs
    if k in ("Seg", "Probe"):
        bad = check_state(impl, nref, backend)
        for what, msg in bad:
            sig_ops = sorted({e[0] for e in pending})
            where = "first-segment" if segs == 0 else "later-segment"
            sig = f"C08|{what}|{where}|{'+'.join(sig_ops) or 'empty'}|{backend}"
            if backend == "bosonic" and segs >= 1:
                sig = BOSONIC_RESTART
            res.violation(sig, f"after running segment #{segs} {list(pending)} (register before: {case.get('reg_before')}): {msg}", case)
        if bad:
            return False, ref, pending, segs
        pending, segs = (), segs + 1
    else:
        nref.apply(ev)
        pending = pending + (ev,)
    # program-level register must follow the reference after every event
    act, total = observe_register(impl.prog)
    if act != nref.active or total != len(nref.alive):
        res.violation(f"C08|program-register|{tag}|{backend}", f"after {ev}: Program.register = {act} ({total} indices), reference {nref.active} ({len(nref.alive)})", case)
        return False, ref, pending, segs
    return True, nref, pending, segs


def rebuild(backend, hist):
    impl, ref, pending, segs = Impl(backend), Ref(backend != "fock"), (), 0
    dummy = Res()
    for ev in hist:
        ok, ref, pending, segs = step(impl, ref, pending, segs, ev, backend, dummy, {})
        if not ok:
            raise RuntimeError(f"history {hist} no longer replays: {dummy.viol}")
    return impl, ref, pending, segs


def state_key(backend, ref, pending, segs, has_stale):
    return (backend, ref.key(), pending, segs, has_stale)


def expand(task):
    backend, cfg, hists = task
    res = Res()
    res.extra = []
    for hist in hists:
        try:
            impl0, ref0, pending0, segs0 = rebuild(backend, hist)
        except Exception as e:
            res.violation(f"C08|rebuild|{backend}", repr(e), {"backend": backend, "hist": [list(map(_j, h)) for h in hist]})
            continue
        for ev in enabled(ref0, pending0, segs0, cfg):
            res.n += 1
            case = {"backend": backend, "hist": [_j(h) for h in hist], "event": _j(ev), "reg_before": str(ref0.key())}
            impl, ref, pending, segs = rebuild(backend, hist)  # live engines do not copy cheaply; replay instead
            ok, ref, pending, segs = step(impl, ref, pending, segs, ev, backend, res, case)
            if ok:
                res.extra.append((state_key(backend, ref, pending, segs, impl.last_deleted is not None), hist + (ev,)))
    return res


def _j(ev):
    return [list(x) if isinstance(x, tuple) else x for x in ev]


def _unj(ev):
    return tuple(tuple(x) if isinstance(x, list) else x for x in ev)


def run(ctx):
    quick = ctx.tier == "quick"
    # cfg = (cap on indices ever created, cap on simultaneously active modes, max segments, max pending events per segment)
    plans = {
        "gaussian": ((5, 4, 3, 3), 5) if quick else ((6, 4, 3, 3), 6),
        "bosonic": ((5, 4, 2, 3), 5) if quick else ((6, 4, 2, 4), 6),
        "fock": ((4, 3, 2, 2, "photon-counting"), 4) if quick else ((5, 3, 3, 3, "photon-counting"), 5),
    }
    total_states = 0
    per = {}
    for backend, (cfg, depth) in plans.items():
        seen = {state_key(backend, Ref(backend != "fock"), (), 0, False)}
        frontier = [()]
        complete = 0
        levels = []
        for d in range(1, depth + 1):
            if ctx.time_left() < 3:
                ctx.cap_hit(f"{backend}: time budget before depth {d}")
                break
            chunk = max(1, min(32, len(frontier) // (ctx.procs * 4) or 1))
            tasks = [(backend, cfg, frontier[i : i + chunk]) for i in range(0, len(frontier), chunk)]
            nxt = []
            n0 = ctx.n
            aborted = False
            for r in ctx.pmap(expand, tasks):
                ctx.add(r)
                for key, hist in r.extra:
                    if key not in seen:
                        seen.add(key)
                        nxt.append(hist)
                if ctx.time_left() < 0:
                    aborted = True
                    break
            if aborted:
                ctx.close()
                ctx.cap_hit(f"{backend}: time budget inside depth {d}")
                break
            levels.append({"depth": d, "expanded": len(frontier), "transitions": ctx.n - n0, "new_states": len(nxt)})
            complete = d
            frontier = nxt
            if not frontier:
                break
        per[backend] = {"cfg(cap_total,cap_active,max_segments,max_pending)": list(cfg), "completed_depth": complete, "states": len(seen), "levels": levels, "closed": not frontier}
        total_states += len(seen)
        if frontier and len(ctx.samples) < 6:
            ctx.samples.append({"backend": backend, "trace": [_j(e) for e in frontier[len(frontier) // 2]]})
    ctx.cov.update({"states": total_states, "transitions": ctx.n, "traces_validated_against_impl": ctx.n, "configurations": per, "evaluations": ctx.n, "distinct_nontrivial": total_states})
    ctx.assumptions += [
        "every transition is executed on a real Engine rebuilt by replaying the history; the reference is a dict index -> (alive, tag)",
        "states merged on (reference register with tags, pending events of the open segment, segment count, stale-reference availability): after a passed oracle the engine state is a function of these",
        "index cap 5-6, at most 4 (Fock 3) simultaneously active modes, at most 3 segments; Fock cutoff 6 with mode-data tolerance 2e-3",
    ]


def replay(case):
    res = Res()
    hist = tuple(_unj(e) for e in case["hist"])
    impl, ref, pending, segs = rebuild(case["backend"], hist)
    step(impl, ref, pending, segs, _unj(case["event"]), case["backend"], res, case)
    return [(s, w) for s, w, _ in res.viol]
