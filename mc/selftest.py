"""./check --selftest : offline setup check. Imports the library from /repo, validates the manifest and the
evidence writer against the schemas (python3-vt has jsonschema), and checks the reference models' own identities."""
import json
import os
import subprocess
import sys

import numpy as np

from mc.core.ctx import VERIF, Ctx
from mc.ref import fockref as fr
from mc.ref import phase as ph


def _validate(schema, doc_path):
    code = (
        "import json,sys,jsonschema;"
        "s=json.load(open(sys.argv[1]));d=json.load(open(sys.argv[2]));"
        "jsonschema.Draft202012Validator(s).validate(d);print('valid')"
    )
    try:
        r = subprocess.run(["python3-vt", "-c", code, schema, doc_path], capture_output=True, text=True, timeout=120)
    except FileNotFoundError:
        print("selftest: python3-vt not available, schema validation skipped")
        return True
    if r.returncode != 0:
        print("selftest: schema validation failed for", doc_path, r.stderr[-2000:])
        return False
    return True


def main():
    ok = True
    # reference identities ---------------------------------------------------
    for S in [ph.rot(0.7), ph.squeeze(0.3, 0.5), ph.beamsplitter(0.4, 0.9), ph.two_mode_squeeze(0.3, 0.2), ph.mz(0.3, 0.4), ph.controlled_x(0.3), ph.controlled_z(0.2), ph.quadratic_phase(0.4)]:
        ok &= ph.is_symplectic(S)
    U = ph.mz_unitary(0.3, 0.8)
    ok &= np.allclose(ph.interferometer(U), ph.mz(0.3, 0.8))
    # S2 = BS^dag (S(z) x S(-z)) BS  (documented identity) in the reference itself
    bs = ph.beamsplitter(np.pi / 4, 0)
    lhs = np.linalg.inv(bs) @ ph.embed(ph.squeeze(0.3, 0.2), [0], 2) @ ph.embed(ph.squeeze(-0.3, 0.2), [1], 2) @ bs
    ok &= np.allclose(lhs, ph.two_mode_squeeze(0.3, 0.2))
    c = 6
    for G in [fr.displacement(0.3, 0.4, c), fr.squeezing(0.2, 0.3, c)]:
        ok &= abs(np.linalg.norm(G[:, 0]) - 1) < 1e-5  # image of the vacuum stays inside the cutoff
    B = fr.beamsplitter(0.5, 0.3, c)
    v = np.zeros(c * c, dtype=complex)
    v[1 * c + 1] = 1
    ok &= abs(np.linalg.norm(B @ v) - 1) < 1e-12  # |1,1> stays inside the cutoff
    ks = fr.loss_kraus(0.6, c)
    ok &= np.allclose(sum(E.conj().T @ E for E in ks), np.eye(c))
    # Fock vs phase-space reference agree on a small two-mode circuit (both are mine)
    f = fr.FState(2, 10)
    f.prepare(np.outer(fr.coherent_ket(0.3, 10), fr.coherent_ket(0.3, 10).conj()), [0])
    f.gate(fr.beamsplitter(0.5, 0.3, 10), [0, 1])
    g = ph.GState(2).displace(0.3, 0).symp(ph.beamsplitter(0.5, 0.3), [0, 1])
    ok &= abs(f.mean_photon(1) - g.mean_photon(1)) < 1e-6
    if not ok:
        print("selftest: reference-model identities FAILED")
        return 2
    # manifest and evidence writer ----------------------------------------------
    man = os.path.join(VERIF, "MANIFEST.json")
    if os.path.exists(man):
        ok &= _validate("/root/.vp/MANIFEST.schema.json", man) if os.path.exists("/root/.vp/MANIFEST.schema.json") else True
    ctx = Ctx("SELFTEST", "quick", 0, "exploration", "selftest")
    ctx.n, ctx.nt = 2, 2
    ctx.samples = [{"demo": 1}]
    path = ctx.write_evidence(0, [])
    if os.path.exists("/root/.vp/EVIDENCE.schema.json"):
        ok &= _validate("/root/.vp/EVIDENCE.schema.json", path)
    os.remove(path)
    try:
        json.load(open(os.path.join(VERIF, "known_findings.json")))
    except Exception as e:
        print("selftest: known_findings.json unreadable", e)
        ok = False
    print("selftest:", "ok" if ok else "FAILED")
    return 0 if ok else 2


if __name__ == "__main__":
    sys.exit(main())
