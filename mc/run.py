"""CLI: python -m mc.run <ID> [--tier quick|thorough] [--replay FILE] | --selftest"""
import argparse
import importlib
import json
import os
import sys
import traceback

repo = os.environ.get("SF_REPO", "/repo")
if repo not in sys.path:
    sys.path.insert(0, repo)

import warnings  # noqa: E402

warnings.filterwarnings("ignore")


def main():
    ap = argparse.ArgumentParser()
    ap.add_argument("pid", nargs="?")
    ap.add_argument("--tier", default=os.environ.get("VERIF_TIER", "quick"), choices=["quick", "thorough"])
    ap.add_argument("--replay")
    ap.add_argument("--selftest", action="store_true")
    a = ap.parse_args()
    seed = int(os.environ.get("VERIF_SEED", "0") or 0)

    import strawberryfields as sf

    sfpath = os.path.dirname(os.path.dirname(os.path.abspath(sf.__file__)))
    if os.path.realpath(sfpath) != os.path.realpath(repo):
        print(f"HARNESS-ERROR strawberryfields imported from {sfpath}, expected {repo}")
        return 2

    if a.selftest:
        from mc import selftest

        return selftest.main()

    if not a.pid:
        ap.error("property id required")
    pid = a.pid.upper()
    mod = importlib.import_module(f"mc.checks.{pid.lower()}")

    if a.replay:
        with open(a.replay) as f:
            rec = json.load(f)
        out = mod.replay(rec["case"])
        for sig, what in out:
            print(f"REPLAY-VIOLATION property={pid} signature={sig} :: {what}")
        if out:
            print(f"VIOLATION property={pid} replay={a.replay}")
            return 1
        print(f"replay of {a.replay}: no violation reproduced")
        return 0

    from mc.core.ctx import Ctx

    import numpy as np

    np.random.seed(seed)
    ctx = Ctx(pid, a.tier, seed, mod.LEVEL, getattr(mod, "RULE", ""))
    try:
        mod.run(ctx)
    except Exception:
        ctx.close()
        traceback.print_exc()
        print(f"HARNESS-ERROR property={pid} exception in check driver")
        return 2
    rc = ctx.finish()
    print(
        f"[{pid}] tier={a.tier} seed={seed} evaluations={ctx.cov.get('evaluations', ctx.n)} "
        f"nontrivial={ctx.cov.get('distinct_nontrivial', ctx.nt)} states={ctx.cov.get('states', '-')} "
        f"transitions={ctx.cov.get('transitions', '-')} exhaustive={ctx.exhaustive} wall={ctx.elapsed():.1f}s rc={rc}"
    )
    return rc


if __name__ == "__main__":
    sys.exit(main())
