"""Ownership of the library's random source.

The simulators draw from numpy.random.* (and thewalrus samplers).  `Chooser` replaces the module attributes for
the duration of an execution: every draw is a *choice point*; the arguments (= the distribution the code asked
for) are recorded, and the answer comes from the prefix being replayed or, beyond it, from the default answer
(the distribution's mean / first admissible outcome).  `install_default()` puts the default-answer chooser in
place permanently for checks that only need determinism.
"""
import numpy as np


class Draw:
    __slots__ = ("fn", "args", "menu", "chosen")

    def __init__(self, fn, args, menu):
        self.fn, self.args, self.menu, self.chosen = fn, args, menu, 0


class DrawCap(RuntimeError):
    """more draws than the harness allows in one execution (a sampler that never accepts would loop for ever)"""


class Chooser:
    """menu_fn(fn_name, args) -> list of admissible answers (first = default)."""

    def __init__(self, prefix=(), menu_fn=None, cap=None):
        self.prefix = list(prefix)
        self.draws = []
        self.menu_fn = menu_fn or default_menu
        self.cap = cap

    def _answer(self, fn, args):
        if self.cap is not None and len(self.draws) >= self.cap:
            raise DrawCap(f"more than {self.cap} draws in one execution")
        menu = self.menu_fn(fn, args)
        d = Draw(fn, args, menu)
        k = len(self.draws)
        if k < len(self.prefix):
            if self.prefix[k] >= len(menu):
                raise RuntimeError(f"chooser replay diverged at draw {k}: menu has {len(menu)} answers")
            d.chosen = self.prefix[k]
        self.draws.append(d)
        return menu[d.chosen]

    # numpy.random replacements -------------------------------------------------------------
    def normal(self, loc=0.0, scale=1.0, size=None):
        return self._answer("normal", {"loc": loc, "scale": scale, "size": size})

    def multivariate_normal(self, mean, cov, size=None, **kw):
        return self._answer("multivariate_normal", {"mean": np.array(mean), "cov": np.array(cov), "size": size})

    def choice(self, a, size=None, replace=True, p=None):
        return self._answer("choice", {"a": a, "size": size, "replace": replace, "p": None if p is None else np.array(p)})

    def random(self, size=None):
        return self._answer("random", {"size": size})

    def rand(self, *shape):
        return self._answer("random", {"size": shape or None})

    def uniform(self, low=0.0, high=1.0, size=None):
        return self._answer("uniform", {"low": low, "high": high, "size": size})

    def multinomial(self, n, pvals, size=None):
        return self._answer("multinomial", {"n": n, "pvals": np.array(pvals), "size": size})

    def shuffle(self, x):
        perm = self._answer("shuffle", {"n": len(x)})
        x[:] = [x[i] for i in perm]

    NAMES = ["normal", "multivariate_normal", "choice", "random", "rand", "uniform", "multinomial", "shuffle"]

    def __enter__(self):
        self._saved = {n: getattr(np.random, n) for n in self.NAMES}
        for n in self.NAMES:
            setattr(np.random, n, getattr(self, n))
        return self

    def __exit__(self, *a):
        for n, f in self._saved.items():
            setattr(np.random, n, f)


def _shape(size):
    if size is None:
        return None
    return (size,) if np.isscalar(size) else tuple(size)


def default_menu(fn, a):
    """Single default answer per draw: the mean of the requested distribution / first outcome."""
    if fn == "normal":
        sh = _shape(a["size"])
        return [a["loc"] if sh is None else np.broadcast_to(np.asarray(a["loc"], dtype=float), sh).copy()]
    if fn == "multivariate_normal":
        sh = _shape(a["size"])
        m = np.asarray(a["mean"], dtype=float)
        return [m.copy() if sh is None else np.broadcast_to(m, sh + m.shape).copy()]
    if fn == "choice":
        arr = np.arange(a["a"]) if np.isscalar(a["a"]) else np.asarray(a["a"])
        if a["p"] is not None:
            k = int(np.argmax(a["p"]))
        else:
            k = 0
        sh = _shape(a["size"])
        return [arr[k] if sh is None else np.full(sh, arr[k])]
    if fn in ("random", "uniform"):
        lo, hi = (a.get("low", 0.0), a.get("high", 1.0)) if fn == "uniform" else (0.0, 1.0)
        sh = _shape(a["size"])
        v = lo + 0.5 * (hi - lo)
        return [v if sh is None else np.full(sh, v)]
    if fn == "multinomial":
        out = np.zeros(len(a["pvals"]), dtype=int)
        out[int(np.argmax(a["pvals"]))] = a["n"]
        return [out]
    if fn == "shuffle":
        return [list(range(a["n"]))]
    raise KeyError(fn)


_installed = None


def install_default():
    """Deterministic default answers for the whole process (idempotent)."""
    global _installed
    if _installed is None:
        _installed = Chooser()
        _installed.__enter__()
        # do not let the draw log grow without bound in long-lived workers
        _installed._answer = lambda fn, args: default_menu(fn, args)[0]
    return _installed
