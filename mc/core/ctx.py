"""Run context shared by all checks: worker pool, violation bookkeeping, evidence, exit status.

A check module exposes
    ID, LEVEL ("model_checking" | "exploration"), RULE (str)
    run(ctx)            explores and calls ctx.add(res) / ctx.violation(...)
    replay(case)        re-executes one recorded case with plain calls, returns [(sig, what), ...]
"""
import collections
import hashlib
import json
import multiprocessing as mp
import os
import subprocess
import sys
import time

VERIF = os.path.dirname(os.path.dirname(os.path.dirname(os.path.abspath(__file__))))
FINDINGS_FILE = os.path.join(VERIF, "known_findings.json")
# where replays/ and evidence/ are written: /verif, unless a scratch run (seeded change on a copy of the tree) redirects it
OUT = os.environ.get("VERIF_OUT_DIR") or VERIF


class Res:
    """Picklable result of one unit of work in a worker."""

    __slots__ = ("n", "nt", "stats", "viol", "samples", "extra")

    def __init__(self):
        self.n = 0  # evaluations
        self.nt = 0  # distinct non-trivial cases (by the module's RULE)
        self.stats = collections.Counter()
        self.viol = []  # (sig, what, case)
        self.samples = []
        self.extra = None

    def violation(self, sig, what, case):
        # keep only the first case per signature within one work unit (bounded memory)
        self.stats["viol:" + sig] += 1
        for s, _, _ in self.viol:
            if s == sig:
                return
        self.viol.append((sig, what, case))

    def sample(self, s, cap=2):
        if len(self.samples) < cap:
            self.samples.append(s)


def _jsonable(o):
    import numpy as np

    if isinstance(o, dict):
        return {str(k): _jsonable(v) for k, v in o.items()}
    if isinstance(o, (list, tuple)):
        return [_jsonable(v) for v in o]
    if isinstance(o, (np.integer,)):
        return int(o)
    if isinstance(o, (np.floating,)):
        return float(o)
    if isinstance(o, (np.bool_,)):
        return bool(o)
    if isinstance(o, complex) or isinstance(o, np.complexfloating):
        return {"re": float(o.real), "im": float(o.imag)}
    if isinstance(o, np.ndarray):
        return _jsonable(o.tolist())
    if isinstance(o, (set, frozenset)):
        return sorted(_jsonable(v) for v in o)
    if o is None or isinstance(o, (str, int, float, bool)):
        return o
    return repr(o)


class Ctx:
    def __init__(self, pid, tier, seed, level, rule=""):
        self.pid = pid
        self.tier = tier
        self.seed = seed
        self.level = level
        self.rule = rule
        self.t0 = time.time()
        self.budget = float(os.environ.get("VERIF_BUDGET_S", 0)) or (420.0 if tier == "quick" else 2400.0)
        self.procs = int(os.environ.get("VERIF_PROCS", 0)) or min(16, os.cpu_count() or 1)
        self.n = 0
        self.nt = 0
        self.stats = collections.Counter()
        self.samples = []
        self.cov = {}
        self.assumptions = []
        self.exhaustive = True
        self.caps = []
        self._viol = collections.OrderedDict()
        self._pool = None

    # ------------------------------------------------------------------ time
    def elapsed(self):
        return time.time() - self.t0

    def time_left(self):
        return self.budget - self.elapsed()

    def cap_hit(self, what):
        self.exhaustive = False
        self.caps.append(what)
        print(f"[{self.pid}] CAP: {what}", file=sys.stderr)

    # ------------------------------------------------------------------ results
    def violation(self, sig, what, case, count=1):
        v = self._viol.get(sig)
        if v is None:
            self._viol[sig] = {"count": count, "what": what, "case": case}
        else:
            v["count"] += count

    def add(self, res):
        self.n += res.n
        self.nt += res.nt
        self.stats.update(res.stats)
        for sig, what, case in res.viol:
            self.violation(sig, what, case, count=0)
        for s in res.samples:
            if len(self.samples) < 6:
                self.samples.append(s)
        return res

    # ------------------------------------------------------------------ pool
    def pool(self):
        if self._pool is None:
            ctx = mp.get_context("fork")
            self._pool = ctx.Pool(self.procs)
        return self._pool

    def pmap(self, fn, tasks, chunksize=1, ordered=False):
        """Map fn over tasks in worker processes; yields results. Falls back to serial when VERIF_PROCS=1."""
        tasks = list(tasks)
        if self.procs <= 1 or len(tasks) <= 1:
            for t in tasks:
                yield fn(t)
            return
        p = self.pool()
        it = p.imap(fn, tasks, chunksize) if ordered else p.imap_unordered(fn, tasks, chunksize)
        for r in it:
            yield r

    def close(self):
        if self._pool is not None:
            self._pool.terminate()
            self._pool.join()
            self._pool = None

    # ------------------------------------------------------------------ finish
    def finish(self):
        self.close()
        known = load_findings(self.pid)
        new, seen_known = [], []
        for sig, v in self._viol.items():
            cnt = self.stats.get("viol:" + sig, v["count"])
            v["count"] = cnt
            if sig in known:
                seen_known.append(sig)
                print(f"KNOWN-FINDING: property={self.pid} {known[sig]['what']} [signature={sig}; {cnt} failing cases this run]")
            else:
                new.append(sig)
        rc = 0
        replay_paths = []
        if new:
            d = os.path.join(OUT, "replays", self.pid)
            os.makedirs(d, exist_ok=True)
            for sig in new:
                v = self._viol[sig]
                h = hashlib.sha1(sig.encode()).hexdigest()[:12]
                path = os.path.join(d, f"{h}.json")
                with open(path, "w") as f:
                    json.dump(_jsonable({"property": self.pid, "signature": sig, "what": v["what"], "case": v["case"]}), f, indent=1)
                replay_paths.append((sig, path))
            # determinism gate: replay the first few in fresh interpreters, twice
            gate = os.environ.get("VERIF_NO_GATE") is None
            confirmed = []
            for sig, path in replay_paths[:4] if gate else []:
                outs = []
                for _ in range(2):
                    pr = subprocess.run([os.path.join(VERIF, "check"), self.pid, "--replay", path], capture_output=True, text=True, timeout=900)
                    outs.append((pr.returncode, [l for l in pr.stdout.splitlines() if l.startswith("REPLAY-VIOLATION")]))
                if outs[0] != outs[1] or outs[0][0] not in (0, 1):
                    print(f"HARNESS-ERROR property={self.pid} nondeterministic or broken replay for {sig}: {outs}")
                    rc = 2
                elif outs[0][0] == 0:
                    print(f"HARNESS-ERROR property={self.pid} violation {sig} not reproduced by plain replay of {path}")
                    rc = 2
                else:
                    confirmed.append(sig)
            if rc == 0:
                rc = 1
                for sig, path in replay_paths:
                    v = self._viol[sig]
                    print(f"VIOLATION property={self.pid} replay={path}")
                    print(f"  signature: {sig}\n  what: {v['what']}\n  failing cases this run: {v['count']}")
        self.write_evidence(len(new), seen_known)
        return rc

    def write_evidence(self, n_new, seen_known):
        cov = dict(self.cov)
        cov.setdefault("evaluations", self.n)
        cov.setdefault("distinct_nontrivial", self.nt)
        cov.setdefault("rule", self.rule)
        cov.setdefault("samples", _jsonable(self.samples))
        if not isinstance(cov["samples"], list):
            cov["samples"] = [cov["samples"]]
        cov["exhaustive"] = bool(self.exhaustive)
        if self.caps:
            cov["caps_hit"] = self.caps
        cov["stats"] = {k: int(v) for k, v in sorted(self.stats.items()) if not k.startswith("viol:")}
        cov["known_findings_observed"] = seen_known
        cov["failing_cases_by_signature"] = {k[5:]: int(v) for k, v in self.stats.items() if k.startswith("viol:")}
        ev = {
            "property_id": self.pid,
            "tier": self.tier,
            "seed": int(self.seed),
            "level": self.level,
            "coverage": _jsonable(cov),
            "assumptions": self.assumptions,
            "wall_s": round(self.elapsed(), 2),
            "violations": int(n_new),
        }
        os.makedirs(os.path.join(OUT, "evidence"), exist_ok=True)
        path = os.path.join(OUT, "evidence", f"{self.pid}.json")
        tmp = path + ".tmp"
        with open(tmp, "w") as f:
            json.dump(ev, f, indent=1)
        os.replace(tmp, path)
        return path


def load_findings(pid):
    try:
        with open(FINDINGS_FILE) as f:
            data = json.load(f)
    except FileNotFoundError:
        return {}
    return {e["signature"]: e for e in data.get("findings", []) if e["property"] == pid}
