#!/venv/bin/python
"""summarise /verif/seeded/*/meta.json: markdown table + list of changes that must not be kept"""
import glob, json, os, re, sys

rows, reject = [], []
for f in sorted(glob.glob("/verif/seeded/*/meta.json")):
    m = json.load(open(f))
    d = os.path.dirname(f)
    # later rounds: staged first, confirmed by seed_recheck.sh (demo, check) and seed_group_suite.sh (suite)
    for k in ("demo_exit_with_change", "demo_exit_without_change", "check_exit", "check_signatures"):
        if k not in m and "recheck" in m:
            m[k] = m["recheck"].get(k)
    m.setdefault("compiles", True)
    suite = m.get("repo_suite_with_change", "FAILING WITH THE CHANGE: ? (suite not run)")
    failing = re.search(r"FAILING WITH THE CHANGE: (\[.*\])", suite)
    failing = failing.group(1) if failing else "?"
    ok = m["compiles"] and m["demo_exit_with_change"] == 1 and m["demo_exit_without_change"] == 0 and failing == "[]"
    if not ok:
        reject.append((m["id"], f"compiles={m['compiles']} demo={m['demo_exit_with_change']}/{m['demo_exit_without_change']} failing={failing[:200]}"))
    # what was changed: first -/+ lines of the patch and the file
    patch = open(os.path.join(d, "patch.diff")).read()
    files = re.findall(r"^\+\+\+ b/(.*)$", patch, re.M)
    title = ""
    notes = os.path.join(d, "notes.md")
    if os.path.exists(notes):
        for line in open(notes):
            if line.startswith("#"):
                title = line.strip("# \n")
                break
    sigs = m["check_signatures"]
    verdict = "caught" if m["check_exit"] == 1 else "MISSED"
    rc = m.get("recheck")
    if rc:
        if not rc.get("applies"):
            verdict += f"; DOES NOT APPLY to {rc['head']}"
        else:
            good = rc["demo_exit_with_change"] == 1 and rc["demo_exit_without_change"] == 0 and rc["check_exit"] == 1
            verdict = ("caught" if rc["check_exit"] == 1 else "MISSED") + f" (re-confirmed at {rc['head']}" + ("" if good else f": demo {rc['demo_exit_with_change']}/{rc['demo_exit_without_change']}") + ")"
            sigs = rc["check_signatures"] or sigs
    if m.get("direct") and not verdict.startswith("caught"):
        verdict = "caught after widening (" + m["direct"]["how"] + ")"
        sigs = m["direct"]["signatures"]
    rows.append((m["id"], ", ".join(os.path.basename(x) for x in files), title[:110], verdict, "; ".join(sigs[:2]) + (" ..." if len(sigs) > 2 else ""), ok))
if "--md" in sys.argv:
    print("| Change | File | What (seeding agent's title) | Verdict of the property's check | First signatures |")
    print("|---|---|---|---|---|")
    for r in rows:
        if r[5]:
            print(f"| {r[0]} | {r[1]} | {r[2]} | {r[3]} | `{r[4]}` |")
else:
    for r in rows:
        print(r[0], "KEEP" if r[5] else "REJECT", r[3], r[4][:100])
print()
for r in reject:
    print("REJECT", *r)
