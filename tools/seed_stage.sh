#!/bin/bash
# usage: seed_stage.sh <PROP> <x>   - copy an agent's output /tmp/seed/<PROP>.out/<x>.* into /verif/seeded/<PROP>_<x>/ with a stub meta.json
P=$1; X=$2; SRC=/tmp/seed/$P.out; DST=/verif/seeded/${P}_$X
mkdir -p "$DST"
cp "$SRC/$X.diff" "$DST/patch.diff"; cp "$SRC/${X}_demo.py" "$DST/demo.py"; cp "$SRC/${X}_notes.md" "$DST/notes.md" 2>/dev/null
[ -f "$DST/meta.json" ] || echo "{\"id\": \"${P}_$X\", \"property\": \"$P\", \"staged\": true}" > "$DST/meta.json"
