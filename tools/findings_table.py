#!/venv/bin/python
"""markdown lists of every repair (fix: commit) and every recorded finding, from known_findings.json"""
import json, re, subprocess

d = json.load(open("/verif/known_findings.json"))
log = subprocess.check_output(["git", "-C", "/repo", "log", "--format=%h %s"], text=True).splitlines()
subj = {l.split(" ", 1)[0]: l.split(" ", 1)[1] for l in log}
print("### Repairs (`fix:` commits in /repo, oldest first)\n")
print("| Property | Commit | What failed |")
print("|---|---|---|")
for f in d["fixed"]:
    w = re.sub(r"^fixed: property=\S+ \S+ ", "", f["what"]).replace("|", "\\|")
    print(f"| {f['property']} | `{f['commit']}` | {w} |")
missing = [h for h in subj if subj[h].startswith("fix:") and not any(h.startswith(f["commit"]) or f["commit"].startswith(h) for f in d["fixed"])]
print(f"\n{len(d['fixed'])} entries; fix: commits in /repo: {sum(1 for h in subj if subj[h].startswith('fix:'))}; not listed: {missing}\n")
print("### Recorded findings (not repaired)\n")
print("| Property | Signature | What fails / why not repaired |")
print("|---|---|---|")
for f in d["findings"]:
    print(f"| {f['property']} | `{f['signature'].replace('|', chr(92) + '|')}` | {f['what'].replace('|', chr(92) + '|')} |")
print(f"\n{len(d['findings'])} signatures")
