#!/bin/bash
# usage: seed_recheck.sh <ID> ...   (ID = directory name under /verif/seeded)
# Re-confirms kept seeded changes against the CURRENT head of /repo (after later repairs): the patch still applies, the
# demonstration still fails with / passes without it, the property's quick check still reports it.  No test-suite run
# (that was done when the change was first confirmed).  Appends the verdict to meta.json under "recheck".
export OMP_NUM_THREADS=1 OPENBLAS_NUM_THREADS=1 MKL_NUM_THREADS=1
HEAD=$(git -C /repo rev-parse --short HEAD)
for ID in "$@"; do
  P=${ID%%_*}
  DST=/verif/seeded/$ID
  D=$(mktemp -d /tmp/sfre.XXXXXX)
  rsync -a --exclude .git --exclude doc --exclude tests --exclude examples /repo/ "$D/"
  SF_REPO="$D" PYTHONPATH="$D" timeout 900 /venv/bin/python "$DST/demo.py" > /dev/null 2>&1; dwo=$?
  if ! ( cd "$D" && { git apply -p1 "$DST/patch.diff" > /dev/null 2>&1 || patch -p1 -s --no-backup-if-mismatch < "$DST/patch.diff" > /dev/null 2>&1; } ); then
    echo "$ID head=$HEAD PATCH-DOES-NOT-APPLY"
    /venv/bin/python - "$DST/meta.json" "$HEAD" <<'PY'
import json, sys
m = json.load(open(sys.argv[1])); m["recheck"] = {"head": sys.argv[2], "applies": False}
json.dump(m, open(sys.argv[1], "w"), indent=1)
PY
    rm -rf "$D"; continue
  fi
  SF_REPO="$D" PYTHONPATH="$D" timeout 900 /venv/bin/python "$DST/demo.py" > /dev/null 2>&1; dw=$?
  out=$(SF_REPO="$D" VERIF_OUT_DIR="$D/.verif_out" VERIF_NO_GATE=1 VERIF_BUDGET_S=3000 /verif/check $P --tier quick 2>&1); rc=$?
  sigs=$(echo "$out" | grep '  signature:' | sed 's/  signature: //' | head -4 | tr '\n' ';')
  echo "$ID head=$HEAD applies demo_with=$dw demo_without=$dwo check_rc=$rc :: $sigs"
  /venv/bin/python - "$DST/meta.json" "$HEAD" "$dw" "$dwo" "$rc" "$sigs" <<'PY'
import json, sys
m = json.load(open(sys.argv[1]))
m["recheck"] = {"head": sys.argv[2], "applies": True, "demo_exit_with_change": int(sys.argv[3]), "demo_exit_without_change": int(sys.argv[4]), "check_exit": int(sys.argv[5]), "check_signatures": [s for s in sys.argv[6].split(";") if s]}
json.dump(m, open(sys.argv[1], "w"), indent=1)
PY
  rm -rf "$D"
done
