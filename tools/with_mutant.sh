#!/bin/bash
# usage: with_mutant.sh <patch.diff> <check args...>   -- applies the patch to a scratch copy of /repo's tree and runs ./check against it
set -e
PATCH="$(readlink -f "$1")"; shift
D=$(mktemp -d /tmp/sfmut.XXXXXX)
mkdir -p "$D"
rsync -a --exclude .git --exclude doc --exclude tests --exclude examples /repo/ "$D/"
( cd "$D" && patch -p1 -s < "$PATCH" )
set +e
SF_REPO="$D" VERIF_OUT_DIR="$D/.verif_out" VERIF_NO_GATE=${VERIF_NO_GATE-1} /verif/check "$@" ; rc=$?
rm -rf "$D"
exit $rc
