#!/opt/veriftools/pyvenv/bin/python
"""validate MANIFEST.json and every evidence/*.json against the schemas in /root/.vp (run with python3-vt)"""
import glob
import json
import sys

import jsonschema

bad = 0
ev = json.load(open("/root/.vp/EVIDENCE.schema.json"))
for f in sorted(glob.glob("/verif/evidence/*.json")):
    try:
        jsonschema.validate(json.load(open(f)), ev)
    except jsonschema.ValidationError as e:
        bad += 1
        print(f, "INVALID:", e.message[:200], list(e.absolute_path))
try:
    jsonschema.validate(json.load(open("/verif/MANIFEST.json")), json.load(open("/root/.vp/MANIFEST.schema.json")))
except jsonschema.ValidationError as e:
    bad += 1
    print("MANIFEST INVALID:", e.message[:200])
print("invalid:", bad)
sys.exit(1 if bad else 0)
