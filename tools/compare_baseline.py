#!/usr/bin/env python3
"""Compare a junit xml of the repository suite with stable_pass of /root/.vp/BASELINE.json."""
import json, sys, xml.etree.ElementTree as ET
base = json.load(open('/root/.vp/BASELINE.json'))
stable = set(base['stable_pass'])
root = ET.parse(sys.argv[1]).getroot()
res = {}
for tc in root.iter('testcase'):
    name = tc.get('classname', '') + '::' + tc.get('name', '')
    bad = any(ch.tag in ('failure', 'error') for ch in tc)
    skipped = any(ch.tag == 'skipped' for ch in tc)
    res[name] = 'fail' if bad else ('skip' if skipped else 'pass')
print("sample stable ids:", list(stable)[:2]); print("sample junit ids:", list(res)[:2])
missing = [s for s in stable if res.get(s) != 'pass']
print(f"stable_pass={len(stable)} junit_cases={len(res)} stable-not-passing={len(missing)}")
for m in missing[:30]: print("  ", m, res.get(m))
