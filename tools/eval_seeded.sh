#!/bin/bash
# usage: eval_seeded.sh <PROP> <a|b> [check tier]   evaluates /tmp/seed/<PROP>.out/<x>.diff
# prints: demo verdicts (with change must exit 1, without 0) and the verdict of the property's check on the changed tree
P=$1; X=$2; TIER=${3:-quick}
OUT=/tmp/seed/$P.out
D=$(mktemp -d /tmp/sfseed.XXXXXX)
rsync -a --exclude .git --exclude doc --exclude tests --exclude examples /repo/ "$D/"
if ! ( cd "$D" && patch -p1 -s < "$OUT/$X.diff" ); then echo "$P/$X PATCH-FAILED"; rm -rf "$D"; exit 3; fi
SF_REPO="$D" PYTHONPATH="$D" timeout 600 /venv/bin/python "$OUT/${X}_demo.py" > "$D/demo_with.log" 2>&1; dw=$?
SF_REPO=/repo PYTHONPATH=/repo timeout 600 /venv/bin/python "$OUT/${X}_demo.py" > "$D/demo_without.log" 2>&1; dwo=$?
out=$(SF_REPO="$D" VERIF_OUT_DIR="$D/.verif_out" VERIF_NO_GATE=1 VERIF_BUDGET_S=3000 /verif/check $P --tier $TIER 2>&1); rc=$?
nsig=$(echo "$out" | grep -c '^VIOLATION')
echo "$P/$X demo_with_change=$dw demo_without=$dwo check_rc=$rc new_violation_signatures=$nsig :: $(echo "$out" | grep '  signature:' | head -3 | tr '\n' ' ' | cut -c1-300)"
rm -rf "$D"
