#!/venv/bin/python
"""(re)generates the appendix of DESIGN.md: seeded-change table and the complete lists of repairs and findings"""
import subprocess

MARK = "<!-- GENERATED APPENDIX: do not edit below this line (tools/finish_design.py) -->"
p = "/verif/DESIGN.md"
s = open(p).read()
if MARK in s:
    s = s[: s.index(MARK)]
s = s.rstrip("\n") + "\n\n" + MARK + "\n\n"
s += "## Appendix B - seeded changes kept in /verif/seeded (section 12)\n\n"
s += subprocess.check_output(["/verif/tools/seeded_table.py", "--md"], text=True)
s += "\n## Appendix C - every repair and every recorded finding (sections 10, 12, 13; from known_findings.json)\n\n"
s += subprocess.check_output(["/verif/tools/findings_table.py"], text=True)
open(p, "w").write(s)
print("appendix written")
