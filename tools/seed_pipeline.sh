#!/bin/bash
# usage: seed_pipeline.sh <PROP> <a|b> [NPROC]
# Confirms one independently written seeded change on a scratch git worktree of /repo's HEAD:
#   demonstration fails with / passes without the change, the repository's whole test suite still passes with it,
#   and what the property's check says about it.  Stores /verif/seeded/<PROP>_<x>/ and removes the worktree.
P=$1; X=$2; NP=${3:-4}
export OMP_NUM_THREADS=1 OPENBLAS_NUM_THREADS=1 MKL_NUM_THREADS=1 NUMEXPR_NUM_THREADS=1 TF_NUM_INTRAOP_THREADS=1 TF_NUM_INTEROP_THREADS=1
SRC=/tmp/seed/$P.out
ID=${P}_$X
DST=/verif/seeded/$ID
W=/tmp/sw/$ID
mkdir -p /tmp/sw "$DST"
git -C /repo worktree remove --force "$W" 2>/dev/null
git -C /repo worktree add --detach "$W" HEAD -q || exit 3
cp "$SRC/$X.diff" "$DST/patch.diff"
[ -f "$DST/demo.py" ] || cp "$SRC/${X}_demo.py" "$DST/demo.py"
cp "$SRC/${X}_notes.md" "$DST/notes.md" 2>/dev/null
# without the change
SF_REPO="$W" PYTHONPATH="$W" timeout 900 /venv/bin/python "$DST/demo.py" > "$W/.demo_without.log" 2>&1; dwo=$?
if ! git -C "$W" apply "$DST/patch.diff"; then echo "$ID PATCH-FAILED"; git -C /repo worktree remove --force "$W"; exit 3; fi
/venv/bin/python -m compileall -q "$W/strawberryfields" > /dev/null; comp=$?
SF_REPO="$W" PYTHONPATH="$W" timeout 900 /venv/bin/python "$DST/demo.py" > "$W/.demo_with.log" 2>&1; dw=$?
# the property's check on the changed tree
out=$(SF_REPO="$W" VERIF_NO_GATE=1 VERIF_BUDGET_S=3000 VERIF_OUT_DIR="$W/.verif_out" /verif/check $P --tier quick 2>&1); rc=$?
sigs=$(echo "$out" | grep '  signature:' | sed 's/  signature: //' | head -8 | tr '\n' ';')
# the repository's own suite on the changed tree
( cd "$W" && PYTHONPATH="$W" timeout 7200 /venv/bin/python -m pytest -q -p no:cacheprovider --timeout=900 --continue-on-collection-errors -n $NP --junitxml="$W/.junit.xml" tests > "$W/.suite.log" 2>&1 )
suite=$(/venv/bin/python - "$W/.junit.xml" <<'PY'
import sys, xml.etree.ElementTree as ET
try:
    root = ET.parse(sys.argv[1]).getroot()
except Exception as e:
    print("NOJUNIT"); sys.exit()
bad = []
tot = 0
for tc in root.iter("testcase"):
    tot += 1
    if tc.find("failure") is not None or tc.find("error") is not None:
        bad.append(tc.get("classname", "") + "::" + tc.get("name", ""))
known = [b for b in bad if "TestGaussianCloning" in b]
other = [b for b in bad if "TestGaussianCloning" not in b]
# failures under the parallel runner are re-run alone, serially: order/statistics dependent tests pass then
import subprocess, os
still = []
W = os.path.dirname(sys.argv[1])
for b in other:
    cls, name = b.split("::")
    parts = cls.split(".")
    # classname is module path (+ class): find the file
    for k in range(len(parts), 0, -1):
        path = os.path.join(W, "tests", *parts[:k]) + ".py"
        if os.path.exists(path):
            nodeid = "::".join([path] + parts[k:] + [name])
            break
    else:
        still.append(b); continue
    ok = False
    for _ in range(2):
        r = subprocess.run(["/venv/bin/python", "-m", "pytest", "-q", "-p", "no:cacheprovider", nodeid], cwd=W, env=dict(os.environ, PYTHONPATH=W), capture_output=True, text=True)
        if r.returncode == 0:
            ok = True
            break
    if not ok:
        still.append(b)
print(f"{tot} tests; {len(known)} always-failing (TestGaussianCloning, fail without the change too); failed under -n and passed when re-run alone: {[b for b in other if b not in still]}; FAILING WITH THE CHANGE: {still}")
PY
)
/venv/bin/python - "$DST/meta.json" <<PY
import json, sys
meta = {
  "id": "$ID", "property": "$P",
  "head": "$(git -C /repo rev-parse --short HEAD)",
  "compiles": $comp == 0,
  "demo_exit_with_change": $dw, "demo_exit_without_change": $dwo,
  "repo_suite_with_change": """$suite""",
  "check_cmd": "SF_REPO=<scratch worktree with patch> /verif/check $P --tier quick",
  "check_exit": $rc,
  "check_signatures": [s for s in """$sigs""".split(";") if s],
  "what_it_needs_to_manifest": "see notes.md (written by the seeding agent)",
  "ran": ["git -C /repo worktree add --detach $W HEAD", "git -C $W apply patch.diff", "python -m compileall strawberryfields", "python demo.py (with / without)", "pytest -n $NP tests (whole suite)", "/verif/check $P --tier quick with SF_REPO=$W"],
}
json.dump(meta, open(sys.argv[1], "w"), indent=1)
PY
echo "$ID compiles=$comp demo_with=$dw demo_without=$dwo check_rc=$rc suite: $suite :: $sigs"
git -C /repo worktree remove --force "$W"
