#!/bin/bash
# runs every claimed check of one tier sequentially; prints one summary line per check
TIER=${1:-quick}
cd "$(dirname "$0")/.."
for i in $(seq -w 1 20); do
  id=C$i
  s=$(date +%s)
  out=$(./check $id --tier $TIER 2>&1); rc=$?
  e=$(date +%s)
  echo "$id rc=$rc wall=$((e-s))s $(echo "$out" | grep -c '^KNOWN-FINDING') known $(echo "$out" | grep -c '^VIOLATION') violations :: $(echo "$out" | tail -1 | cut -c1-160)"
done
