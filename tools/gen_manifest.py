#!/usr/bin/env python3
"""Regenerates /verif/MANIFEST.json from the table below (single source of truth for what is claimed)."""
import json
import os

HERE = os.path.dirname(os.path.dirname(os.path.abspath(__file__)))

# id -> (category, technique, text, note, design_ref)
CLAIMED = {
    "C03": (
        "exploration",
        "exhaustive enumeration of all operation sequences up to a length bound, executed on the real optimizer, judged by a reference affine-map semantics",
        "Every program of length <= 2 over 127 letters and length <= 3 over a 53-letter core alphabet on 2 modes (length <= 2 on 3 modes) - thorough: length 3 full / 4 core - is optimised by the real Program.optimize and compile(optimize=True); the reference phase-space map (X,Y,d) on the measurement-extended register of output and source must be equal (decides 'for every input state' exactly), also after decomposition to backend primitives, and the source program snapshot must be unchanged.",
        "Trusted: the docstring transcription in mc/ref/opsem.py, numpy linear algebra. Parameters come from a finite lattice (inverse pairs, T=1, U U^-1 included); sequences longer than the bound and non-Gaussian gate families (same merge rule) are not enumerated.",
        "DESIGN.md section 4, C03",
    ),
}

NOT_YET = {}


def main():
    props = [json.loads(l) for l in open(os.path.join(HERE, "properties.jsonl"))]
    checks = []
    na = []
    for p in props:
        pid = p["id"]
        if pid in CLAIMED:
            cat, tech, text, note, ref = CLAIMED[pid]
            checks.append(
                {
                    "property_id": pid,
                    "quick_cmd": f"./check {pid} --tier quick",
                    "thorough_cmd": f"./check {pid} --tier thorough",
                    "evidence_file": f"/verif/evidence/{pid}.json",
                    "replay_cmd_template": f"./check {pid} --replay {{path}}",
                    "engine": "mc-explorer",
                    "level_claimed": {"category": cat, "text": text, "design_ref": ref},
                    "level_note": note,
                    "technique": tech,
                }
            )
        else:
            na.append({"property_id": pid, "reason": NOT_YET.get(pid, "check not built yet in this round; planned in DESIGN.md section 4 (bounded exhaustive exploration applies)")})
    man = {
        "version": 1,
        "setup_cmd": "./check --selftest",
        "hooks": {
            "guard": "SF_VERIF",
            "enable": "none needed: every seam (numpy.random, thewalrus samplers, networkx topological sorts, sf.hbar, Compiler class attributes) is a module attribute owned by the harness; ./check exports SF_VERIF=1 for symmetry only",
            "baseline_off_cmd": "cd /repo && /venv/bin/python -m pytest -ra -q -p no:cacheprovider --timeout=900 --continue-on-collection-errors",
            "source_commits": [],
            "add_only": True,
        },
        "engines": [
            {
                "name": "mc-explorer",
                "path": "/verif/mc",
                "serves_properties": sorted(CLAIMED),
                "kind_free_text": "hand-written bounded exhaustive explorer for Python: BFS over real implementation states with canonical-hash dedup, exhaustive sequence enumeration, and choice-DFS over environment answers; reference models in mc/ref (numpy)",
            }
        ],
        "checks": checks,
        "not_applicable": na,
        "notes": "All checks drive the real library in /repo (SF_REPO overrides) and compare against independent numpy reference models; no model-to-code gap to bridge. known_findings.json lists recorded genuine defects and fix: commits.",
    }
    with open(os.path.join(HERE, "MANIFEST.json"), "w") as f:
        json.dump(man, f, indent=1)
    print("claimed:", sorted(CLAIMED), "not claimed:", [x["property_id"] for x in na])


if __name__ == "__main__":
    main()
