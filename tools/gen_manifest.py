#!/usr/bin/env python3
"""Regenerates /verif/MANIFEST.json from the table below (single source of truth for what is claimed)."""
import json
import os

HERE = os.path.dirname(os.path.dirname(os.path.abspath(__file__)))

# id -> (category, technique, text, note, design_ref)
CLAIMED = {
    "C12": (
        "exploration",
        "exhaustive enumeration of (device specification, source-program variant, linearisation) combinations through the real hardware compilers, judged by an own layout matcher, range check and photon-statistics reference",
        "Generated X-series devices with 1, 2 (thorough 3) spatial modes x 3 parameter-range variants; sources = every combination of a squeezer variant per pair (none, S2(0), S2(1), S2(.5), twice, reversed, wrong pair) x interferometer variant (Interferometer(U) over a finite unitary family, explicit BS/MZ/R words, different / mixing / one-sided halves) x measurement variant (all, subset, split, gate after) x every order of the squeezer commands (3e4 cases quick), compiled with Xunitary and Xcov; the device's own template with in- and out-of-range values through Xstrict; device A -> device B on one compiler class. Either CircuitError/ValueError exactly where the reference deems the source inadmissible or out of range, or: wire-by-wire match with the parsed layout, every matched parameter inside the device range, same Gaussian state (Xunitary/Xstrict) / same photon statistics up to local phases (Xcov: vacuum probability, |B_ij|, all four-photon hafnian moduli).",
        "blackbird parser trusted. Borealis: 5 loop-phase certificates x 2-3 program sizes x 3 phase patterns x raw/full_compile-prepared arrays x compiler-/user-inserted offsets (120-360 cases): layout followed, offsets equal the certificate, arrays inside the modulator range, photon statistics of all measured pulses equal to the ideal experiment unless values were moved by exactly pi. TD2/TDM single-loop devices not enumerated.",
        "DESIGN.md section 4 (C12)",
    ),
    "C19": (
        "exploration",
        "exhaustive enumeration of photon numbers / mode counts / samples / all labelled small graphs / seeds / weight vectors, with a choice-DFS following every np.random.choice and shuffle answer, against exact integer arithmetic and brute force (built by sub-agent, reviewed)",
        "orbits, orbit_cardinality, event_cardinality for every photon number 0..10 (12) x mode count 1..64 (200) x max count; sample<->orbit<->event conversions on all samples with <= 4 photons on <= 5 modes under every permutation/orbit answer; is_clique, c_0, c_1, grow, swap, shrink, search on all labelled graphs on <= 4 (5) nodes x 3 labellings x every node subset as seed x uniform/degree/all {1,2}-weight vectors with every random pick followed and checked for admissibility; subgraph.resize / search bookkeeping on every graph, subset and size window; sample.postselect / modes_from_counts / to_subgraphs on all small samples (1.2e6 evaluations quick).",
        "Graphs up to 5 nodes, photon numbers up to 12; numpy.random owned by the harness.",
        "DESIGN.md section 4 (C19)",
    ),
    "C20": (
        "exploration",
        "exhaustive enumeration of a declared lattice of graphs / embeddings / parameter vectors / data sets / molecules, against finite differences, a perfect-matching hafnian reference state and real-space Franck-Condon integrals (built by sub-agent, reviewed)",
        "All graphs on 2-4 nodes + weighted matrices x n_mean x Exp/ExpFeatures embeddings x parameter lattice {-.4,0,.3}^d x all small data sets: KL.grad and Stochastic.grad equal central finite differences of the reported cost, ExpFeatures.jacobian equals finite differences, prob_photon_sample equals the brute-force hafnian probability of the reference Gaussian state for every pattern with <= 6-8 photons, prob_click sums to 1 over all click patterns, mean photon/click numbers and n_mean equal the state's moments, A_to_cov is a valid pure covariance with the right A-matrix; prob_orbit_exact / prob_event_exact equal brute-force sums; gbs_params reproduces the Duschinsky relation on 1.4e4 molecules, VibronicTransition equals the Doktorov operator and the real-space Franck-Condon integrals, TimeEvolution is passive and conserves photon number on the Fock backend, duschinsky and marginals equal their definitions.",
        "Continuous inputs on a declared lattice. Three recorded findings (vibronic squeezing sign, two signatures; A_to_cov basis).",
        "DESIGN.md section 4 (C20)",
    ),
    "C14": (
        "exploration",
        "exhaustive enumeration of operation classes x parameter kinds x dagger x mode order, of short sequences, option combinations and TDM programs, through the real writers and readers of both IRs and generate_code, compared in a normal form and by reference maps",
        "24 real-parameter operation slots x 11 parameter kinds (int, float, negative, tiny, numpy scalar, pi/3, free symbol, expression of free symbols, measured symbol, expressions of measured / mixed symbols) x dagger x two mode orders; 28 fixed operations (matrix-valued, Ket/DensityMatrix, Catstate, GKP, measurements with select / dark_counts); all sequences up to length 2 (3) over 9 letters (feed-forward, post-selection, daggers, multi-mode measurements); name/target/shots/cutoff_dim combinations; TDM programs (3 layouts x 2 lengths x 2 shifts). Each is written with to_blackbird().serialize() and to_xir().serialize(), re-loaded with sf.io.loads, and via generate_code: same normal form (class, parameters, modes in order, select, dark_counts, dagger - a daggered gate of a one-parameter family may be written as the gate with negated first parameter), same options, same reference map.",
        "A writer or reader that raises is counted, not reported (many symbolic cases raise on reading: see evidence stats). Five recorded findings (free symbols become strings in Blackbird; measured symbols of measurement angles become strings in XIR; MZgate.H written as MZgate(-phi_in); generated scripts use np.pi without importing numpy).",
        "DESIGN.md section 4 (C14)",
    ),
    "C15": (
        "exploration",
        "exhaustive enumeration of programs over a letter alphabet, each executed at several hbar values with unit-rescaled parameters on every simulator; differential oracle in the configuration",
        "Every program of length <= 2 (thorough 3 on the phase-space simulators) over 21 letters x placements on 2 modes, plus all one-mode programs up to length 2 (3), is run at hbar = 0.5, 1, 3.7 and at 2 on the Gaussian, bosonic and Fock simulators with dimensionful parameters (Xgate, Zgate, homodyne select, Gaussian V and r, Vgate gamma) rescaled by their documented units: Fock probabilities, photon-number moments, parity, fidelities equal; means/sqrt(hbar/2), cov/(hbar/2), quadrature moments, Wigner function on the rescaled grid, second-order polynomial expectations equal after rescaling; is_coherent/is_squeezed/displacement/squeezing equal and repeatable; no query mutates the state.",
        "hbar from a 4-value set; unit conventions transcribed from docstrings.",
        "DESIGN.md section 4 (C15)",
    ),
    "C16": (
        "model_checking",
        "exhaustive enumeration of reachable states x every state-object query x every mode subset/order, on three representations, against closed Gaussian formulas and a dense truncated-Fock reference",
        "Every state reached by <= 2 operations of an 8-letter small-amplitude alphabet on 2 modes (<= 3 on 1 mode, <= 1-2 on 3 modes for the phase-space representations), deduplicated (441 state objects quick), is built on the Gaussian, bosonic and Fock simulators and asked ~40 queries each: mean_photon, number_expectation (all ordered pairs), quad_expectation (3 angles), wigner (non-square grid), parity_expectation and reduced_dm on every subset/order, fock_prob on all patterns with <= 2 photons, all_fock_probs, fidelity_vacuum / fidelity_coherent, is_pure, poly_quad_expectation. Every answer equals the independent reference; identities between methods hold; a method asked about subset S agrees with the same method on backend.state(modes=S); no query mutates the state.",
        "One recorded finding (fock_prob / reduced_dm of bosonic cat states in the complex representation). Reference truncation error (cutoff 12) is measured per state and enters the tolerance (x4 c^2 for moments); phase-space reduced_dm is compared up to the norm beyond the requested cutoff. wigner is compared in the orientation returned ([len(pvec), len(xvec)] on all representations; the docstring says the transpose). is_pure of Fock/bosonic states reports the representation and is not judged.",
        "DESIGN.md section 4 (C16)",
    ),
    "C02": (
        "exploration",
        "exhaustive enumeration of decomposable operations x parameter lattice x dagger x ordered targets x compile targets, and of matrix-valued operations over finite structured matrix families, through the real Compiler.decompose, judged by the documented reference map",
        "Xgate, Zgate, Pgate, Fouriergate, CXgate, CZgate, S2gate, MZgate on a 15-point lattice per parameter slot x dagger x every ordered target tuple of 2/3-mode registers x every compile target whose table decomposes them (1.0e4 cases); Interferometer under all seven meshes x drop_identity over all phased permutations, a BFS generator orbit, DFT and identity for k = 2..4 (1.6e4 cases); GaussianTransform over a symplectic orbit, active/passive, vacuum=True; Gaussian preparations (pure diagonal with both squeezing signs, rotated, thermal, general mixed, displaced); graph and bipartite-graph embeddings of every graph on <= 4 nodes. The decomposition, interpreted command by command, must equal the documented transformation (1e-8).",
        "Real parameters on a lattice, matrices from finite families; sMZgate has no documented closed form and is judged through the meshes using it.",
        "DESIGN.md section 4 (C02)",
    ),
    "C17": (
        "model_checking",
        "explicit BFS orbits of unitary / symplectic generator sets (states = matrices, canonical form = rounded entries) plus exhaustive entry-alphabet enumeration, every matrix pushed through the real decomposition routines and reconstructed with independent builders",
        "BFS orbits of phase/beamsplitter generators (k <= 4, word length 4, 7e3 states) and of rotation/squeezing/beamsplitter/two-mode-squeeze generators, all signed/phased permutations, DFT, 1e-14-perturbed variants; all symmetric matrices over {0,1,-1,i,.5} for k <= 3 and over {0,1,i} for k = 4; all graphs on <= 4 (5) nodes with weights {1,i}; invalid inputs of 9 kinds. Every matrix goes through takagi, williamson, bloch_messiah, the eight meshes, graph_embed, bipartite_graph_embed; factors are rebuilt with own builders and must multiply back to the input (1e-9) with the promised structure; invalid inputs must raise.",
        "11 recorded findings (takagi on complex degenerate spectra and what inherits it, bloch_messiah with several idle modes / nearly equal squeezers, one williamson LinAlgError). Continuum reached only through orbit elements.",
        "DESIGN.md section 4 (C17)",
    ),
    "C06": (
        "model_checking",
        "exhaustive enumeration of pre-measurement states x measurement variants with a choice-DFS over every answer of the owned random source (stateless search with replay), judged against a phase-space / truncated-Fock reference",
        "Every state reached by <= 2 operations of an 11-letter Gaussian alphabet on 2 modes (<= 1-2 on 3 modes), deduplicated, is measured on the Gaussian and bosonic simulators (homodyne at 5 angles sampled and post-selected on 3 values, heterodyne sampled and post-selected, photon counting and threshold detection on every ordered subset of modes) and on the Fock simulator pure and mixed (photon counting on every ordered subset with every outcome of up to 2 photons, post-selected homodyne). Every draw of numpy.random / the thewalrus samplers is a choice point: its arguments must be the Born distribution of the reference state, every menu answer is followed, the post-state must be the reference conditional state with the measured modes in vacuum, the returned value must be the answer routed to the right mode; Result.samples columns in ascending mode order for every subset order.",
        "Decides which distribution the code requests and what it does with each answer, not that numpy/thewalrus sample it faithfully. Finite-squeezing homodyne model of the phase-space simulators compared with the ideal projection to 1e-5. shots = 1 except Gaussian photon counting (2).",
        "DESIGN.md section 4 (C06)",
    ),
    "C10": (
        "exploration",
        "exhaustive enumeration of parameter expressions x operation slots x bindings x execution routes, and of measure/re-prepare/use/segment histories, run on the real engine against substituted twins and a last-write reference",
        "Every parameter expression up to size 2 (thorough 3) over {free a, free b, measured q0, 0.5, pi} x {neg, 2*, /2, +, *, sin, cos, exp, sqrt(1+x^2)} in each of 23 operation parameter slots (gates, daggered composites, preparations) under 3 bindings and 4 routes (engine default, user-compiled, optimize, bosonic): the symbolic program's state equals the state of the program with independently substituted numbers (1e-9) and the phase-space reference. All histories up to length 5 (6) over {measure with outcome v1/v2, re-prepare, use the measured value on the other mode, use the never-measured mode's value, segment boundary} for both choices of the measured mode: the value used is the latest outcome (last-write reference), use before measurement raises ParameterError; unbound/unknown names raise; two programs sharing a parameter name; par_regref_deps.",
        "Outcomes are post-selected values; Gaussian backend's finite-squeezing homodyne model identical in both programs. One recorded finding (name-cached FreeParameter shared between programs).",
        "DESIGN.md section 4 (C10)",
    ),
    "C11": (
        "exploration",
        "exhaustive enumeration of circuits over a letter alphabet placed on contiguous, descending, sparse and >= 9-mode index sets, compiled by the real compilers, judged by reference affine maps (hybrid: differential Fock run)",
        "Every circuit of length <= 2 (thorough: 3 on the contiguous set) over 21/13/11 letters (Gaussian gates incl. daggers, 1-3-mode Interferometers and GaussianTransforms, LossChannel/PassiveChannel) on every ordered tuple of the index sets {0,1,2}, {1,9}, {8,0}, {3,7,9}, {0,10,2}, {16,8,1} in registers of 3-17 modes is compiled with gaussian_unitary, passive and gaussian_merge; the compiled circuit read in its own mode order must have the same reference map (X,Y,d) on the full register and touch only used modes. gaussian_merge on hybrid circuits (Kgate, Vgate, CKgate between Gaussian gates, length <= 3): non-Gaussian commands preserved and source vs compiled Fock states agree within the truncation tolerance.",
        "Finite parameter lattice (one value per letter); hybrid oracle uses the Fock simulator (validated by C01) at cutoff 9 with tolerance 1e-6 + 4 sqrt(lost norm); measurements and Ket preparations inside gaussian_merge circuits not enumerated.",
        "DESIGN.md section 4 (C11)",
    ),
    "C18": (
        "exploration",
        "exhaustive enumeration of all ordered pairs of all programs up to a length bound through the real comparison functions, soundness judged by reference affine maps",
        "All programs of length <= 2 (thorough 3) over 14 letters on 2 modes and ALL ordered pairs of them (4.5e4 quick, 8.7e6 thorough) go through Program.__eq__ and Program.equivalence (with and without parameter comparison): reported equal/equivalent implies equal reference maps; reflexivity; symmetry; swapping two adjacent commands on disjoint modes never changes the verdict.",
        "2-mode register, one parameter value per letter family plus one differing value; 'same computation' = same affine map on the measurement-extended register.",
        "DESIGN.md section 4 (C18)",
    ),
    "C13": (
        "model_checking",
        "exhaustive enumeration of a TDM program family run through the real unroll/space_unroll/engine, judged against an explicit-loop reference; choice-controlled sample routing; BFS over unroll/roll/run call histories",
        "Every time-domain program of a finite family (4-6 band layouts x every gate sequence up to length 3 (thorough 4) over a per-layout gate set x 1-3 (5) time bins x shift in {default,1,2} x shots x homodyne/heterodyne(/Fock)) - 1.7e5 programs quick - is unrolled by the real TDMProgram.unroll and space_unroll; the unrolled circuit, interpreted with deferred measurements, must give the same joint Gaussian state of all measured pulses as my explicit loop with a fresh mode per pulse; Result.state of space-unrolled runs must equal the pulses; with the random source answering the k-th measurement with k, Result.samples[shot, band, bin] and samples_dict must hold the ordinal of that pulse. A BFS over histories of unroll(1|2), space_unroll(1|2), roll, lock, run, run(space_unroll), compile on three programs checks that after every call circuit and register equal what a fresh program reaches directly, and that `locked` is preserved.",
        "Every program of the family measures the FIRST register of each band; a measured register inside a band (the rotation in _get_mode_order) is not enumerated - seeded change C13_g is missed for that reason (DESIGN section 14). Seven recorded findings (integer shift in sample routing and in space-unrolling, multi-shot space-unrolling, sampling from space-unrolled runs; get_crop_value with a full-swap beamsplitter value on the three two-loop structures) are matched by one signature each; programs under those conditions are still executed but cannot reveal a second defect of the same kind. Parameter arrays fixed (all bins distinct).",
        "DESIGN.md section 4 (C13)",
    ),
    "C08": (
        "model_checking",
        "explicit-state BFS over engine/program histories (each state rebuilt by replaying its history on a fresh real Engine), reference register model, invariant after every event and every run",
        "Breadth-first search over histories of New(1), New(2), Del of one/two modes, tagging preparation, swap, measurement, illegal uses of deleted/unknown/stale references, segment boundaries (run + successor program) and probes with a fresh integer-register program, on the Gaussian, bosonic and Fock engines (quick: 2.2e5 transitions, depth 4-5, up to 3 segments). After every event Program.register equals the reference dict index -> (alive, tag); after every run backend.get_modes(), state.num_modes, mode_names and each mode's own displacement equal the reference; invalid uses raise RegRefError/ValueError/IndexError and change nothing.",
        "Index cap 5-6, at most 4 (Fock 3) active modes, 3 segments. numpy.random owned by the harness (default answers). Known finding: the bosonic simulator restarts at every segment.",
        "DESIGN.md section 4 (C08)",
    ),
    "C09": (
        "model_checking",
        "explicit-state BFS over engine call histories with a differential oracle (state reached through any history == one fresh run of the concatenated program) and deep snapshots of all user programs",
        "Breadth-first search over histories of run(P), run([P, Q]), compile-then-run, run with optimize, reset(), runs that raise midway, on Gaussian, Fock and bosonic engines with six program fragments (daggered composites, free parameters bound through args, post-selected homodyne with feed-forward, New/Del, loss). After every call the engine state equals that of a fresh engine running all fragments since the last reset as one program, re-running the same Program object reproduces it, and every user program's snapshot (command/operation/parameter identities and values, dagger, select, registers) is unchanged - also after a failed run and after compile.",
        "Fragments from a fixed library of 6 (+2 raising); up to 3-4 fragments since reset, depth 3-4. Snapshot excludes what running is documented to set (locked, bound values, RegRef.val).",
        "DESIGN.md section 4 (C09)",
    ),
    "C01": (
        "model_checking",
        "explicit-state BFS over live simulator backends (real Operation.apply on deep copies), canonical-hash dedup, reference-model comparison on every transition",
        "Breadth-first search of the reachable states of the Gaussian, bosonic, Fock-pure and Fock-mixed simulators on 1-3 modes under a ~60-operation alphabet on every ordered target tuple (quick: 1.7e5 transitions, depth 2-3; thorough one level deeper and cutoff 7). On every transition the implementation state must equal an independent reference: phase-space (mean, cov) built from the documented Bogoliubov transformations for Gaussian/bosonic (1e-9), and a dense truncated-operator Fock reference (expm of the documented generator at an extended cutoff, same cutoff as the simulator) for Fock pure and mixed (1e-9).",
        "Trusted: numpy/scipy (expm, eigvalsh), the docstring transcription in mc/ref. Finite parameter lattice, register size <= 3, cutoff <= 7; the 'up to truncation' clause is decided as exact agreement with the truncated-operator reference at the same cutoff (for MZgate either of its two truncated readings). TensorFlow backend not installed, not explored.",
        "DESIGN.md sections 2 and 4 (C01)",
    ),
    "C04": (
        "exploration",
        "exhaustive enumeration of command sequences x choice-DFS over every legal topological-sort answer, run on the real reordering routines",
        "All 4.2e5 command sequences of length <= 4 (thorough <= 5) over a 25-letter abstract alphabet on 3 modes go through list_to_grid, grid_to_DAG, list_to_DAG, DAG_to_list, group_operations (2 predicates), optimize_circuit and GBS.compile; for length <= 3 (thorough 4) networkx' topological sorts are replaced by a chooser and every routine is re-executed for every linearisation the sort may legally return. Output must be the same command objects with every dependent pair in order and no marked operation outside B.",
        "Trusted: the O(L^2) pairwise dependency reference; networkx graph primitives other than the two sort functions. 3 modes, sequences up to length 5.",
        "DESIGN.md section 4 (C04)",
    ),
    "C05": (
        "model_checking",
        "explicit-state BFS over live simulator backends; differential spectator oracle on implementation data before/after every transition",
        "Same state graph as C01. For every (reachable correlated/displaced/mixed state, operation, ordered target tuple): the reduced state of all non-target modes computed from the implementation's own data is unchanged (1e-10 Gaussian/bosonic; on Fock bounded rigorously by the norm lost to truncation in that step), preparations leave the documented state on the targets, uncorrelated with the rest.",
        "Same bounds as C01. Measurement/deletion post-states are covered by C06/C08.",
        "DESIGN.md sections 2 and 4 (C05)",
    ),
    "C07": (
        "model_checking",
        "explicit-state BFS over live simulator backends; physicality invariants in every state and conservation laws on every transition",
        "Same state graph as C01. Every reached state: covariance symmetric with V + i Omega >= 0, Fock dm Hermitian, PSD, trace <= 1, pure flag consistent, bosonic weights sum to 1. Every transition: unitary gates preserve purity, passive gates total photon number, loss never increases a mean photon number, Fock trace changes exactly by what the truncated-operator reference loses.",
        "Same bounds as C01; Fock conservation laws carry the slack the lost norm allows (rigorous bound), nothing more.",
        "DESIGN.md sections 2 and 4 (C07)",
    ),
    "C03": (
        "exploration",
        "exhaustive enumeration of all operation sequences up to a length bound, executed on the real optimizer, judged by a reference affine-map semantics",
        "Every program of length <= 2 over 127 letters and length <= 3 over a 53-letter core alphabet on 2 modes (length <= 2 on 3 modes) - thorough: length 3 full / 4 core - is optimised by the real Program.optimize and compile(optimize=True); the reference phase-space map (X,Y,d) on the measurement-extended register of output and source must be equal (decides 'for every input state' exactly), also after decomposition to backend primitives, and the source program snapshot must be unchanged.",
        "Trusted: the docstring transcription in mc/ref/opsem.py, numpy linear algebra. Parameters come from a finite lattice (inverse pairs, T=1, U U^-1 included); sequences longer than the bound and non-Gaussian gate families (same merge rule) are not enumerated.",
        "DESIGN.md section 4, C03",
    ),
}

NOT_YET = {}


# what was added to each check after the first build (DESIGN.md section 9b); appended to the level text
EXT = {
    "C01": "Added: post-selected heterodyne, multi-mode Gaussian(V, r) preparations (decomposed and native) and MSgate(avg, eta < 1) events; operations after register events: 2 correlated 3-mode base states per simulator x 8 Del/New sequences x every event of the alphabet on every tuple of the surviving indices.",
    "C05": "Added: the events and register-history part of C01; del_mode / add_mode judged differentially on every explored state; the Fock spectator bound is the truncation loss of the reference transition.",
    "C07": "Added: the events and register-history part of C01; physicality of bosonic cat states incl. fractional parities and both representations after <= 1 Gaussian operation (weights, real Wigner function, purity, fidelities, uncertainty).",
    "C02": "Added: every zero pattern of the vector of means of Gaussian(V, r) on 1-3 modes.",
    "C04": "Added: letters for an operation fed by the measurement of its own mode, a two-mode gate fed by one of its modes, mode creation in mid-program and an operation on the created mode (33 letters); GBS compile on a register with a deleted first mode.",
    "C06": "Added: threshold detection on the bosonic simulator; photon counting on 3 Fock modes in every order; sampled Fock homodyne (probability vector handed to numpy.random.multinomial against the Born density on the documented grid); post-selected homodyne / heterodyne on entangled cat states of the bosonic simulator against a dense Fock reference at cutoff 30; outcomes in units of hbar != 2 with the same Program object executed twice.",
    "C08": "Added: the reference is a full Gaussian state over all indices ever created (displaced squeezed tags, a Mix beamsplitter with complex phase, whole covariance compared on the phase-space simulators); photon counting after a deletion on the Fock simulator.",
    "C09": "Added fragments: a mode measured twice, feed-forward of an outcome of an earlier segment, deletion of an inherited mode in a later segment, two adjacent channels merged by the optimiser (10 fragments).",
    "C10": "Added: values of multi-mode photon-counting / threshold commands on every ordered tuple of 3 modes (RegRef value and feed-forward); binding by own / foreign parameter object.",
    "C11": "Added: hybrid circuits on 2 modes up to length 4 (thorough 5; 3 modes up to length 3 in thorough).",
    "C12": "Added: single-loop TDM device with acceptance decided exactly by conformance over the product of 10 deviations (hard-coded arguments, topology, range and range-gap violations per array, mode limits, compiler named or from device, ranges published or not); sources deviating in a hard-coded layout argument on X-series and Borealis devices must be refused; partial user-offset patterns (structural oracles only).",
    "C13": "Added: get_delays / get_crop_value / run(crop=True) / cropped space-unrolled state against the explicit loop over every beamsplitter-array assignment of {0, 0.7, pi/2} for 1 and 2 loops (T = 4, thorough 5).",
    "C14": "Added: generate_code over every multiple k pi/12, |k| <= 60, with offsets inside and outside its snapping tolerance, in gate slots and TDM arrays; executability of the generated script; measured parameters of modes with two-digit indices.",
    "C15": "Added: the shared module-level MeasureX / MeasureP objects, feed-forward of a sampled outcome, Result.samples in units of hbar, second execution of the same Program object at every hbar.",
    "C16": "Added: cat states of the bosonic simulator (+ <= 1 Gaussian operation, 1-2 modes) against a dense Fock reference at cutoff 30 (moments, parity, Wigner, marginal, fidelities, purity, Fock probabilities); backend.state(modes=S) for every ordered S of 3 distinguishable modes on all simulators incl. a gates-only pure Fock circuit; reduced_gaussian / reduced_bosonic / displacement; poly_quad variance on every mode; x/p quadrature distributions.",
    "C17": "Added: biadjacency matrices over {0, 1, i, -i} (Hermitian non-real inputs).",
    "C19": "Added: arguments and the input graph must come back unchanged from every helper.",
}

# added during the audit rounds (DESIGN.md section 13); appended after EXT
EXT2 = {
    "C02": "Audit rounds: squeezing angles from every quadrant in Gaussian(V); graphs with self-loops incl. the identity matrix; BipartiteGraphEmbed(B, edges=True) over all small edge-weight matrices.",
    "C03": "Audit rounds: programs with non-Gaussian gates (Kgate, Vgate, CKgate, daggered) judged by a differential run on the Fock simulator (all programs up to length 3 over 21 letters); one-mode graph embeddings, nearly-identical and symbolic loss channels (operations without a direct reference meaning are judged through their real decomposition).",
    "C06": "Audit rounds: a selected outcome is honoured or refused - simulator x measurement type x selected value (0 / non-zero) x shots (1 / 3).",
    "C08": "Audit rounds: backend.state(modes=...) after every segment: every single active mode, a descending pair (label k must describe position k), a deleted and an unknown index (must be refused).",
    "C09": "Audit rounds: three segments built before anything runs (a value measured two segments earlier), the caller's compile_options dictionary must come back unchanged, ancilla outcomes of the bosonic simulator over every run/reset history up to length 4.",
    "C11": "Audit rounds: a clock around every compile (a compile that does not return is a violation); three modes with a two-mode non-Gaussian gate in front of Gaussian gates incl. a 3-mode interferometer (length 4, thorough 5); the hybrid differential runs on a pure product of different coherent states.",
    "C12": "Audit rounds: a passive gate between two squeezers of one pair (refuse or compile faithfully), a per-time-bin array in a hard-coded layout slot, NumPy scalars in hard-coded slots.",
    "C13": "Audit rounds: daggered gates, expressions of loop variables and gates the engine has to decompose inside time-domain programs, post-selected measurements (the setting must survive every unrolling), three bands whose measured modes do not come out of a set in ascending order; crop bookkeeping with the value pi and with constant beamsplitter angles; call histories incl. run(space_unroll) from an unrolled program and a decomposition-needing program.",
    "C14": "Audit rounds: reference maps through the real decomposition for operations without a direct reference meaning (keyword settings of GraphEmbed), measurement settings in generate_code.",
    "C15": "Audit rounds: single-shot MSgate (ancilla outcome in units of sqrt(hbar), judged where a second execution reproduces it).",
    "C16": "Audit rounds: squeezing() against the state's own covariance for phases in every quadrant, purity flag and pure-state formulas at hbar in {0.5, 1, 2} with 9-17 modes, Fock polynomials on every pair of modes of a nine-mode register.",
    "C17": "Audit rounds: every real orbit element is also handed to the meshes with a real dtype.",
    "C18": "Audit rounds: a two-mode gate that is not symmetric and not one of the two classes the implementation singles out (MZgate), post-selected measurements, measurements of different arity, an array-valued parameter (24 letters, all 3.6e5 ordered pairs of programs up to length 2).",
    "C19": "Audit rounds: clique.search with 3000 iterations (more than the recursion limit) on every labelled graph on <= 3 nodes and every clique seed.",
    "C20": "Audit rounds: qchem.vibronic.sample over every zero pattern of the thermal squeezing vector (shape and routing; the sampler is owned).",
}

# added during the third and fourth seeded rounds (DESIGN.md section 14); appended after EXT2
EXT3 = {
    "C02": "Later rounds: make_traceless variants of the graph embeddings; a beamsplitter embedded on every ordered pair of modes (adjacent or not) and products of two in the interferometer family.",
    "C08": "Later rounds: backend.state(modes=...) with a deleted / unknown index mixed with an active mode on either side.",
    "C14": "Later rounds: TDM programs with 10-23 loop variables, daggered gates and expressions of loop variables, run / backend options of TDM programs; operations on modes 10 and 11 of a 12-mode register.",
    "C05": "Later rounds: post-selected measurements on entangled bosonic cat states (spectator judged against the dense Fock reference); conditional update of the unmeasured mode on the Fock simulator (photon counting with every answer, homodyne post-selected on positive, zero and negative values) on entangled two-mode states.",
    "C06": "Later rounds: the rejection sampler of the bosonic simulator on non-Gaussian states (real- and complex-representation cat states, Fock(2), GKP; alone or entangled; either mode; homodyne at 3 angles and heterodyne): every peak the sampler can pick and 44 answered heights per phase-space point locate the acceptance probability; acceptance x proposal density (reconstructed from the arguments of the draws) must be proportional to the Born density; returned value and conditional mixture for the accepted point. Measurements after a mode deletion: every measurement of a menu on a surviving mode of a 3-mode register against the same measurement on a fresh two-mode twin (all simulators, every deleted mode); column order of Result.samples on a 12-mode register.",
    "C07": "Later rounds: GKP states on the Fock simulator.",
    "C09": "Later rounds: the state after reset + re-run must equal a fresh engine's; compile(compiler, shots / cutoff_dim) twice on one program: options of the user's program and of the first compiled copy must stay as they were.",
    "C16": "Later rounds: one- and two-mode Gaussian states at hbar 0.5, 1, 3 - every query twice, cov() before and after, closed forms.",
    "C10": "Later rounds: measured outcomes equal to zero; every sequence of 2-3 gates on one wire over {G(measured), G(0.4), G(free), H(measured)} for five one-parameter families with and without the optimiser; sessions of independent programs (measure / use / unrelated, every order, one by one and as a list) followed by reset() and the user alone (differential against a fresh engine).",
    "C11": "Later rounds: every order of three-mode operations in the merging compilers.",
    "C12": "Later rounds: squeezers with a phase, Xunitary without a device; devices with 3 and 4 signal modes and beamsplitters between non-adjacent / outer signal modes in the quick tier.",
    "C15": "Later rounds: observables read after sf.hbar was changed; purity() at every hbar.",
    "C17": "Later rounds: make_traceless in graph_embed; beamsplitters embedded on every ordered pair of modes and their products as mesh inputs.",
    "C18": "Later rounds: falsy measurement settings.",
    "C20": "Later rounds: parameters updated in place between evaluations; mean_clicks_by_mode and n_mean at hbar 1 and 0.5.",
}


def main():
    props = [json.loads(l) for l in open(os.path.join(HERE, "properties.jsonl"))]
    checks = []
    na = []
    for p in props:
        pid = p["id"]
        if pid in CLAIMED:
            cat, tech, text, note, ref = CLAIMED[pid]
            checks.append(
                {
                    "property_id": pid,
                    "quick_cmd": f"./check {pid} --tier quick",
                    "thorough_cmd": f"./check {pid} --tier thorough",
                    "evidence_file": f"/verif/evidence/{pid}.json",
                    "replay_cmd_template": f"./check {pid} --replay {{path}}",
                    "engine": "mc-explorer",
                    "level_claimed": {"category": cat, "text": text + (" " + EXT[pid] if pid in EXT else "") + (" " + EXT2[pid] if pid in EXT2 else "") + (" " + EXT3[pid] if pid in EXT3 else ""), "design_ref": ref + ("; section 9b" if pid in EXT else "") + ("; section 13" if pid in EXT2 else "") + ("; section 14" if pid in EXT3 else "")},
                    "level_note": note,
                    "technique": tech,
                }
            )
        else:
            na.append({"property_id": pid, "reason": NOT_YET.get(pid, "check not built yet in this round; planned in DESIGN.md section 4 (bounded exhaustive exploration applies)")})
    man = {
        "version": 1,
        "setup_cmd": "./check --selftest",
        "hooks": {
            "guard": "SF_VERIF",
            "enable": "none needed: every seam (numpy.random, thewalrus samplers, networkx topological sorts, sf.hbar, Compiler class attributes) is a module attribute owned by the harness; ./check exports SF_VERIF=1 for symmetry only",
            "baseline_off_cmd": "cd /repo && /venv/bin/python -m pytest -ra -q -p no:cacheprovider --timeout=900 --continue-on-collection-errors",
            "source_commits": [],
            "add_only": True,
        },
        "engines": [
            {
                "name": "mc-explorer",
                "path": "/verif/mc",
                "serves_properties": sorted(CLAIMED),
                "kind_free_text": "hand-written bounded exhaustive explorer for Python: BFS over real implementation states with canonical-hash dedup, exhaustive sequence enumeration, and choice-DFS over environment answers; reference models in mc/ref (numpy)",
            }
        ],
        "checks": checks,
        "not_applicable": na,
        "notes": "All checks drive the real library in /repo (SF_REPO overrides) and compare against independent numpy reference models; no model-to-code gap to bridge. known_findings.json lists recorded genuine defects and fix: commits.",
    }
    with open(os.path.join(HERE, "MANIFEST.json"), "w") as f:
        json.dump(man, f, indent=1)
    print("claimed:", sorted(CLAIMED), "not claimed:", [x["property_id"] for x in na])


if __name__ == "__main__":
    main()
