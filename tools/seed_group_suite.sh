#!/bin/bash
# usage: seed_group_suite.sh <GROUPNAME> <NPROC> <ID> ...
# Third-round confirmation of the repository's own suite: the changes <ID>... (different properties, disjoint sites) are applied
# TOGETHER on one scratch git worktree of /repo's HEAD and the whole suite is run once; tests that fail under the parallel
# runner are re-run alone and serially on the same tree.  A test that still fails is then attributed by re-running it with
# each change applied alone.  Writes the verdict into every seeded/<ID>/meta.json ("repo_suite_with_change").
G=$1; NP=$2; shift 2
export OMP_NUM_THREADS=1 OPENBLAS_NUM_THREADS=1 MKL_NUM_THREADS=1 NUMEXPR_NUM_THREADS=1 TF_NUM_INTRAOP_THREADS=1 TF_NUM_INTEROP_THREADS=1
W=/tmp/sw/$G
mkdir -p /tmp/sw
git -C /repo worktree remove --force "$W" 2>/dev/null
git -C /repo worktree add --detach "$W" HEAD -q || exit 3
for ID in "$@"; do
  git -C "$W" apply "/verif/seeded/$ID/patch.diff" || { echo "$ID PATCH-FAILED"; git -C /repo worktree remove --force "$W"; exit 3; }
done
/venv/bin/python -m compileall -q "$W/strawberryfields" > /dev/null; comp=$?
( cd "$W" && PYTHONPATH="$W" timeout 7200 /venv/bin/python -m pytest -q -p no:cacheprovider --timeout=900 --continue-on-collection-errors -n $NP --junitxml="$W/.junit.xml" tests > "$W/.suite.log" 2>&1 )
/venv/bin/python - "$W" "$comp" "$G" "$@" <<'PY'
import sys, os, json, subprocess, xml.etree.ElementTree as ET
W, comp, G, ids = sys.argv[1], int(sys.argv[2]), sys.argv[3], sys.argv[4:]
try:
    root = ET.parse(os.path.join(W, ".junit.xml")).getroot()
except Exception:
    print("NOJUNIT"); sys.exit(3)
bad, tot = [], 0
for tc in root.iter("testcase"):
    tot += 1
    if tc.find("failure") is not None or tc.find("error") is not None:
        bad.append(tc.get("classname", "") + "::" + tc.get("name", ""))
known = [b for b in bad if "TestGaussianCloning" in b]
other = [b for b in bad if "TestGaussianCloning" not in b]
def nodeid(b, tree):
    cls, name = b.split("::")
    parts = cls.split(".")
    for k in range(len(parts), 0, -1):
        path = os.path.join(tree, "tests", *parts[:k]) + ".py"
        if os.path.exists(path):
            return "::".join([path] + parts[k:] + [name])
    return None
def passes(b, tree, tries=2):
    nid = nodeid(b, tree)
    if nid is None:
        return False
    for _ in range(tries):
        r = subprocess.run(["/venv/bin/python", "-m", "pytest", "-q", "-p", "no:cacheprovider", nid], cwd=tree, env=dict(os.environ, PYTHONPATH=tree), capture_output=True, text=True)
        if r.returncode == 0:
            return True
    return False
still = [b for b in other if not passes(b, W)]
blame = {}
for b in still:
    for ID in ids:
        subprocess.run(["git", "-C", W, "checkout", "--", "."], check=True)
        subprocess.run(["git", "-C", W, "apply", f"/verif/seeded/{ID}/patch.diff"], check=True)
        if not passes(b, W):
            blame.setdefault(ID, []).append(b)
txt = (f"{tot} tests, whole suite run once with the changes {ids} (different properties, disjoint sites) applied together; "
       f"{len(known)} always-failing (TestGaussianCloning, fail without any change too); failed under -n and passed when re-run alone: {[b for b in other if b not in still]}; ")
for ID in ids:
    p = f"/verif/seeded/{ID}/meta.json"
    m = json.load(open(p))
    m["compiles"] = comp == 0
    m["repo_suite_with_change"] = txt + f"FAILING WITH THE CHANGE: {blame.get(ID, [])}"
    m["suite_group"] = ids
    json.dump(m, open(p, "w"), indent=1)
print(G, "tests", tot, "known", len(known), "flaky-under-n", [b for b in other if b not in still], "still", still, "blame", blame)
PY
git -C /repo worktree remove --force "$W"
