#!/bin/bash
# usage: seed_stage4.sh <PROP> <src letter a|b> <dst letter>   - copy a fourth-round agent's output /tmp/seed4/<PROP>.out/<a|b>.* into
# /verif/seeded/<PROP>_<dst>/ with a stub meta.json (confirmed afterwards by seed_recheck.sh and seed_group_suite.sh)
P=$1; X=$2; Y=$3; SRC=/tmp/seed4/$P.out; DST=/verif/seeded/${P}_$Y
mkdir -p "$DST"
cp "$SRC/$X.diff" "$DST/patch.diff"; cp "$SRC/${X}_demo.py" "$DST/demo.py"; cp "$SRC/${X}_notes.md" "$DST/notes.md" 2>/dev/null
[ -f "$DST/meta.json" ] || echo "{\"id\": \"${P}_$Y\", \"property\": \"$P\", \"staged\": true, \"round\": 4}" > "$DST/meta.json"
